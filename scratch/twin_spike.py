import ast, sys, os
sys.path.insert(0,'/verif')
from pyvc.repo import Repo
repo=Repo('/repo')
def erase(fn):
    class E(ast.NodeTransformer):
        def visit_Await(self,n): return self.visit(n.value)
        def visit_AsyncFunctionDef(self,n):
            n=self.generic_visit(n); m=ast.FunctionDef(**{f:getattr(n,f) for f in n._fields}); return ast.copy_location(m,n)
        def visit_AsyncFor(self,n):
            n=self.generic_visit(n); return ast.copy_location(ast.For(**{f:getattr(n,f) for f in n._fields}),n)
        def visit_AsyncWith(self,n):
            n=self.generic_visit(n); return ast.copy_location(ast.With(**{f:getattr(n,f) for f in n._fields}),n)
        def visit_Name(self,n):
            if n.id.endswith('_async'): n.id=n.id[:-6]
            return n
        def visit_Attribute(self,n):
            self.generic_visit(n)
            if n.attr.endswith('_async'): n.attr=n.attr[:-6]
            return n
    import copy
    f=E().visit(copy.deepcopy(fn))
    f.name=f.name[:-6] if f.name.endswith('_async') else f.name
    # drop docstring, annotations
    if f.body and isinstance(f.body[0],ast.Expr) and isinstance(f.body[0].value,ast.Constant) and isinstance(f.body[0].value.value,str): f.body=f.body[1:]
    f.returns=None
    for a in f.args.args+f.args.kwonlyargs+f.args.posonlyargs: a.annotation=None
    for n in ast.walk(f):
        if isinstance(n,ast.AnnAssign): pass
    f.decorator_list=[]
    return f
pairs=[]
def scan(mod, body, scope):
    defs={}
    for st in body:
        if isinstance(st,(ast.FunctionDef,ast.AsyncFunctionDef)): defs[st.name]=st
        elif isinstance(st,ast.ClassDef): scan(mod, st.body, scope+[st.name])
    for name,st in defs.items():
        if isinstance(st,ast.AsyncFunctionDef) and name.endswith('_async') and name[:-6] in defs:
            pairs.append((mod,scope,defs[name[:-6]],st))
for m in repo.all_modules(): scan(m,m.tree.body,[])
same=0; diff=[]
for m,scope,s,a in pairs:
    es=ast.dump(erase(s)); ea=ast.dump(erase(a))
    if es==ea: same+=1
    else: diff.append((m.name,'.'.join(scope+[s.name])))
print(len(pairs),same)
for d in diff: print(d)
import difflib
for m,scope,s,a in pairs:
    es=ast.unparse(erase(s)); ea=ast.unparse(erase(a))
    if es!=ea:
        print('=====',m.name,'.'.join(scope+[s.name]))
        for l in difflib.unified_diff(es.splitlines(),ea.splitlines(),lineterm='',n=1): 
            if not l.startswith(('---','+++')): print(l)
