import ast, sys
sys.path.insert(0,'/verif')
from pyvc.repo import Repo
repo=Repo('/repo')
MUT={"append","extend","insert","pop","remove","clear","sort","reverse","update","setdefault","add","discard","popitem","move_to_end","appendleft","popleft","write","push","__setitem__","__delitem__"}
def root(e):
    while isinstance(e,(ast.Attribute,ast.Subscript)): e=e.value
    if isinstance(e, ast.Call): return ('call', ast.unparse(e.func))
    return ('name', e.id) if isinstance(e,ast.Name) else ('other', type(e).__name__)
from collections import Counter
cnt=Counter()
rows=[]
def visit_fn(mod, cls, fn, qual):
    params=[a.arg for a in fn.args.posonlyargs+fn.args.args+fn.args.kwonlyargs]
    for n in ast.walk(fn):
        tgt=None; kind=None
        if isinstance(n,(ast.Assign,)):
            for t in n.targets:
                for tt in (t.elts if isinstance(t,(ast.Tuple,ast.List)) else [t]):
                    if isinstance(tt,(ast.Attribute,ast.Subscript)): rows.append((mod.name,qual,cls,'assign',root(tt),ast.unparse(tt),params))
        elif isinstance(n,(ast.AugAssign,ast.AnnAssign)) and isinstance(n.target,(ast.Attribute,ast.Subscript)):
            if isinstance(n,ast.AnnAssign) and n.value is None: continue
            rows.append((mod.name,qual,cls,'assign',root(n.target),ast.unparse(n.target),params))
        elif isinstance(n,ast.Delete):
            for t in n.targets:
                if isinstance(t,(ast.Attribute,ast.Subscript)): rows.append((mod.name,qual,cls,'del',root(t),ast.unparse(t),params))
        elif isinstance(n,ast.Call) and isinstance(n.func,ast.Attribute) and n.func.attr in MUT:
            rows.append((mod.name,qual,cls,'mut:'+n.func.attr,root(n.func.value),ast.unparse(n.func.value),params))
def scan(mod, body, cls, prefix):
    for st in body:
        if isinstance(st,(ast.FunctionDef,ast.AsyncFunctionDef)):
            visit_fn(mod, cls, st, prefix+st.name)
        elif isinstance(st,ast.ClassDef):
            scan(mod, st.body, st.name, prefix+st.name+'.')
for m in repo.all_modules(): scan(m,m.tree.body,None,'')
print(len(rows))
# self-rooted outside __init__
for r in rows:
    mod,qual,cls,kind,rt,txt,params=r
    if rt==('name','self') and not qual.endswith(('__init__','__post_init__')):
        cnt[(cls)]+=1
print(cnt)
print('--- non self/non-local roots')
for r in rows:
    mod,qual,cls,kind,rt,txt,params=r
    if rt[0]=='name' and rt[1] in params and rt[1]!='self':
        print(mod,qual,kind,txt)
print('----')
for r in rows:
    mod,qual,cls,kind,rt,txt,params=r
    if rt==('name','self') and not qual.endswith(('__init__','__post_init__')) and cls in ('Environment','CachingLoaderMixin','BlockDrop','TableRow','ForLoop','_StaticScope','_VariableMap','StripParser'):
        print(mod,qual,kind,txt)
print('---- global roots')
for r in rows:
    mod,qual,cls,kind,rt,txt,params=r
    if rt[0]!='name' : print(mod,qual,kind,rt,txt)
