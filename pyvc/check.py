"""bin/check <Cxx> --tier quick|thorough [--repo DIR] [--replay FILE]

Exit codes: 0 held (KNOWN-FINDING lines allowed), 1 violation (VIOLATION line),
2 undecided, 3 checker failure.  Evidence is rewritten on every run."""
from __future__ import annotations

import argparse
import json
import multiprocessing as mp
import os
import sys
import time
import traceback

HERE = os.path.dirname(os.path.dirname(os.path.abspath(__file__)))
sys.path.insert(0, HERE)


def _verify_one(job):
    repo_root, target, z3_ms, budget = job
    import contracts  # noqa: F401
    from pyvc.verify import verify_contract

    r = verify_contract(repo_root, target, z3_ms=z3_ms, budget_s=budget)
    return r.to_json()


def load_known():
    p = os.path.join(HERE, "known_findings.json")
    if not os.path.exists(p):
        return []
    with open(p) as fd:
        return json.load(fd).get("entries", [])


def main(argv=None):
    ap = argparse.ArgumentParser()
    ap.add_argument("prop")
    ap.add_argument("--tier", default=os.environ.get("VERIF_TIER", "quick"))
    ap.add_argument("--repo", default=os.environ.get("PYVC_REPO", "/repo"))
    ap.add_argument("--replay", default=None)
    ap.add_argument("--jobs", type=int, default=min(14, os.cpu_count() or 4))
    ap.add_argument("--no-evidence", action="store_true")
    ap.add_argument("--update-baseline", action="store_true")
    args = ap.parse_args(argv)
    t0 = time.time()
    prop = args.prop
    seed = int(os.environ.get("VERIF_SEED", "0") or 0)
    try:
        import contracts  # noqa: F401
        from pyvc.api import REGISTRY
        from pyvc import structural, replay as replay_mod

        if args.replay:
            return replay_mod.replay_file(args.replay, args.repo)

        targets = sorted(t for t, c in REGISTRY.items() if prop in c.props and not c.assumed)
        assumed_contracts = sorted(f"{t}: {c.assumed}" for t, c in REGISTRY.items() if prop in c.props and c.assumed)
        if args.tier == "thorough":
            os.environ.setdefault("PYVC_CROSS", "1")   # every z3 `unsat` is put to cvc5 as well
        z3_ms = 10000 if args.tier == "quick" else 40000
        budget = 300.0 if args.tier == "quick" else 1200.0
        jobs = [(args.repo, t, z3_ms, budget) for t in targets]
        results = []
        if jobs:
            ctx = mp.get_context("fork")
            hard = int(os.environ.get("PYVC_HARD_S", "300" if args.tier == "quick" else "2400"))
            pool = ctx.Pool(min(args.jobs, len(jobs)))
            try:
                asyncs = [(j, pool.apply_async(_verify_one, (j,))) for j in jobs]
                deadline = time.time() + hard
                for j, a in asyncs:
                    try:
                        results.append(a.get(timeout=max(1.0, deadline - time.time())))
                    except mp.TimeoutError:
                        results.append({"target": j[1], "status": "undecided", "reason": f"wall-clock limit of {hard}s for this check reached",
                                        "obligations": {}, "violations": [], "undecided": [], "paths": 0, "cases": 0, "solver_s": 0.0, "wall_s": float(hard),
                                        "source_hash": "", "inlined": [], "used_contracts": [], "intrinsics": [], "assumptions": [], "samples": [],
                                        "normal_paths": 0, "exc_paths": {}})
            finally:
                pool.terminate()
                pool.join()
        sres = structural.run(prop, args.repo, args.tier)
        sres.setdefault("trusted", []).extend(f"ASSUMED CONTRACT (function not verified) {a}" for a in assumed_contracts)
        rc = report(prop, args, targets, results, sres, seed, t0)
        return rc
    except SystemExit:
        raise
    except Exception:  # noqa: BLE001
        traceback.print_exc()
        print(f"CHECKER-FAILURE property={prop}")
        return 3


def _bounded_notes(targets):
    """Contracts whose proof is for bounded instances only say so in their `note` (never counted as unbounded proofs)."""
    from pyvc.api import REGISTRY

    return [f"{t}: {REGISTRY[t].note}" for t in targets if t in REGISTRY and str(REGISTRY[t].note).startswith("bounded")]


def report(prop, args, targets, results, sres, seed, t0):
    from pyvc import replay as replay_mod

    known = [k for k in load_known() if k.get("property") == prop]
    obligations = {}
    violations = []
    undecided = []
    errors = []
    backends = {}
    functions = []
    trusted = set()
    assumptions = set()
    samples = []
    solver_s = 0.0
    paths = 0
    for r in results:
        solver_s += r["solver_s"]
        paths += r["paths"]
        functions.append({"target": r["target"], "source_sha": r["source_hash"], "cases": r["cases"], "paths": r["paths"],
                          "obligations": len(r["obligations"]), "inlined_callees": r["inlined"], "callee_contracts_used": r["used_contracts"],
                          "status": r["status"], "body_statements": r.get("body_statements"), "body_covered": r.get("body_covered"),
                          "uncovered_lines": r.get("uncovered_lines", [])})
        trusted.update(r["intrinsics"])
        assumptions.update(r["assumptions"])
        if r["status"] == "error":
            errors.append(f"{r['target']}: {r['reason']}")
            continue
        if r["status"] == "undecided":
            undecided.append({"oid": r["target"] + "/*", "reason": r["reason"]})
            continue
        if r["paths"] == 0 or not r["obligations"]:
            errors.append(f"{r['target']}: vacuous run (paths={r['paths']}, obligations={len(r['obligations'])})")
            continue
        for oid, rec in r["obligations"].items():
            obligations[oid] = rec
            for b, n in rec["backends"].items():
                backends[b] = backends.get(b, 0) + n
        for v in r["violations"]:
            violations.append(v)
        for u in r["undecided"]:
            undecided.append(u)
        samples.extend(r["samples"][:1])
    # structural back ends (frame / site / twin / const): see pyvc/structural.py
    for o in sres.get("obligations", []):
        obligations[o["oid"]] = {"status": o["status"], "backends": {o["backend"]: 1}, "queries": 1, "time": 0.0, "note": o.get("note", "")}
        backends[o["backend"]] = backends.get(o["backend"], 0) + 1
        if o["status"] == "sat":
            violations.append({"oid": o["oid"], "case": "", "path": "", "model": o.get("witness"), "note": o.get("note", ""), "goal": o.get("rule", ""), "structural": True, "key": o.get("key")})
        elif o["status"] == "unknown":
            undecided.append({"oid": o["oid"], "reason": o.get("note", "")})
    samples.extend(sres.get("samples", [])[:3])
    trusted.update(sres.get("trusted", []))
    functions.extend(sres.get("functions", []))
    errors.extend(sres.get("errors", []))

    # baseline floor
    base_path = os.path.join(HERE, "baseline", "obligations.json")
    baseline = {}
    if os.path.exists(base_path):
        with open(base_path) as fd:
            baseline = json.load(fd)
    if args.update_baseline:
        baseline[prop] = sorted(obligations)
        os.makedirs(os.path.dirname(base_path), exist_ok=True)
        with open(base_path, "w") as fd:
            json.dump(baseline, fd, indent=0, sort_keys=True)
    missing = [o for o in baseline.get(prop, []) if o not in obligations]
    # a missing baseline obligation whose function is undecided/errored is already reported there
    bad_targets = {u["oid"].rsplit("/", 1)[0] for u in undecided if u["oid"].endswith("/*")}
    missing = [o for o in missing if o.rsplit("/", 1)[0] not in bad_targets and not any(o.startswith(e.split(":")[0]) for e in [])]

    # group violations by obligation id, match known findings
    by_oid = {}
    for v in violations:
        by_oid.setdefault(v["oid"], []).append(v)
    out_lines = []
    n_new = 0
    known_hits = []
    os.makedirs(os.path.join(HERE, "replays"), exist_ok=True)
    for oid, vs in sorted(by_oid.items()):
        kf = None
        for k in known:
            if k.get("status") == "known" and k.get("obligation") == oid and (k.get("key") is None or any(k.get("key") == v.get("key") for v in vs) or not vs[0].get("structural")):
                kf = k
                break
        if kf is not None:
            out_lines.append(f"KNOWN-FINDING: property={prop} {kf['what']}")
            known_hits.append(oid)
            continue
        rep = replay_mod.make_replay(prop, oid, vs, args.repo, obligations.get(oid, {}))
        if all(v.get("imprecise") for v in vs) and not rep.get("reproduced"):
            # every counter-model comes from a path that used an over-approximation and none replays natively:
            # a failed proof, not a violation
            undecided.append({"oid": oid, "reason": "counter-model on an over-approximated path did not reproduce natively: " + str(vs[0].get("imprecise"))})
            obligations[oid]["status"] = "unknown"
            continue
        n_new += 1
        path = os.path.join("replays", f"{prop}-{n_new}.json")
        with open(os.path.join(HERE, path), "w") as fd:
            json.dump(rep, fd, indent=1, default=str)
        suffix = "" if rep.get("reproduced") else " no-failing-input-found"
        out_lines.append(f"VIOLATION property={prop} replay={path}{suffix}")
        out_lines.append(f"  obligation {oid}: {vs[0].get('note','')[:200]}")
    for u in undecided:
        out_lines.append(f"UNDECIDED property={prop} obligation={u['oid']} reason={str(u.get('reason',''))[:300]}")
    for m in missing:
        out_lines.append(f"UNDECIDED property={prop} obligation={m} reason=obligation present in baseline/obligations.json was not generated (function renamed or removed?)")
    for e in errors:
        out_lines.append(f"CHECKER-ERROR property={prop} {e[:600]}")

    # obligations that fail and are listed as known findings are reported separately: they are neither claimed nor discharged
    # bounded stand-ins are run and reported, but never counted as obligations discharged by proof
    bounded_ids = {oid for oid, o in obligations.items() if any(b.startswith("bounded") for b in o.get("backends", {}))}
    n_ob = len(obligations) - len(known_hits) - len(bounded_ids)
    n_dis = sum(1 for oid, o in obligations.items() if o["status"] == "unsat" and oid not in known_hits and oid not in bounded_ids)
    wall = time.time() - t0
    if not args.no_evidence and args.repo in ("/repo",):
        ev = {
            "property_id": prop,
            "tier": args.tier if args.tier in ("quick", "thorough") else "quick",
            "seed": seed,
            "level": "proof",
            "coverage": {
                "obligations": n_ob,
                "discharged": n_dis,
                "checker_cmd": f"bin/check {prop} --tier {args.tier}",
                "trusted_base": sorted(trusted),
                "backends": backends,
                "solver_seconds": round(solver_s, 3),
                "paths_explored": paths,
                "functions_under_contract": functions,
                "samples": samples[:6] or [{"note": "no SMT sample (structural obligations only)"}],
                "known_findings_matched": known_hits,
                "obligations_failing_as_known_findings": len(known_hits),
                "bounded_checks_run": {oid: obligations[oid]["status"].replace("unsat", "no failing input found").replace("sat", "failing input found") for oid in sorted(bounded_ids)},
                "undecided": [u["oid"] for u in undecided],
                "bounded": sres.get("bounded", []) + _bounded_notes(targets),
                "not_covered": sres.get("not_covered", []),
            },
            "assumptions": sorted(assumptions | set(sres.get("assumptions", []))),
            "wall_s": round(wall, 3),
            "violations": n_new,
        }
        os.makedirs(os.path.join(HERE, "evidence"), exist_ok=True)
        with open(os.path.join(HERE, "evidence", f"{prop}.json"), "w") as fd:
            json.dump(ev, fd, indent=1, default=str)
    for l in out_lines:
        print(l)
    print(f"{prop}: obligations={n_ob} discharged={n_dis} violations={n_new} known={len(known_hits)} undecided={len(undecided) + len(missing)} "
          f"functions={len(functions)} paths={paths} solver={solver_s:.1f}s wall={wall:.1f}s")
    if errors:
        return 3
    if n_new:
        return 1
    if undecided or missing:
        return 2
    if n_ob == 0:
        print(f"CHECKER-ERROR property={prop} zero obligations generated")
        return 3
    return 0


if __name__ == "__main__":
    sys.exit(main())
