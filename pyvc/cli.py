import json, sys, os
sys.path.insert(0, os.path.dirname(os.path.dirname(os.path.abspath(__file__))))
import contracts  # noqa
from pyvc.api import REGISTRY
from pyvc.verify import verify_contract

def main():
    repo = os.environ.get("PYVC_REPO", "/repo")
    targets = [a for a in sys.argv[1:] if not a.startswith("-")]
    if not targets:
        targets = sorted(REGISTRY)
    sel = []
    for t in targets:
        sel.extend([k for k in REGISTRY if t in k])
    for t in sel:
        if REGISTRY[t].assumed:
            print(f"== {t}: ASSUMED (not verified): {REGISTRY[t].assumed}")
            continue
        r = verify_contract(repo, t)
        print(f"== {t}: {r.status} cases={r.cases} paths={r.paths} obligations={len(r.obligations)} solver={r.solver_s:.2f}s wall={r.wall_s:.2f}s cover={r.body_covered}/{r.body_statements} {('uncovered lines ' + str(r.uncovered_lines)) if r.uncovered_lines else ''} {r.reason}")
        for oid, rec in sorted(r.obligations.items()):
            print(f"   {rec['status']:8s} {oid.split('/',1)[1]:30s} q={rec['queries']} {rec['time']:.2f}s  {rec['note'][:90]}")
        seen = {}
        for v in r.violations:
            seen[v["oid"]] = seen.get(v["oid"], 0) + 1
            if seen[v["oid"]] <= 2:
                print("   VIOL", v["oid"], v["case"], v["path"], json.dumps(v["model"])[:300])
        for u in r.undecided:
            print("   UNDEC", u["oid"], u["reason"][:200])
        if "-v" in sys.argv:
            print("   inlined:", sorted(r.inlined)); print("   intrinsics:", sorted(r.intrinsics)); print("   exc paths:", r.exc_paths, "normal:", r.normal_paths)

main()
