"""Frame obligations (DESIGN 2.5): every write site of the package is classified by
the root of its receiver; obligations say which roots a function may write.

C09: nothing that outlives a render (Node/Expression/Tag/Template/Environment/filter
     instances, module-level objects, memo caches) is written at render time.
C10: no filter / tag writes an object reachable from caller data."""
from __future__ import annotations

import ast

from .repo import Repo
from .structural import register

MUTATORS = {
    "append", "extend", "insert", "pop", "remove", "clear", "sort", "reverse", "update", "setdefault", "add",
    "discard", "popitem", "move_to_end", "appendleft", "popleft", "push", "__setitem__", "__delitem__",
    "rotate", "extendleft", "difference_update", "intersection_update", "symmetric_difference_update",
}
# `write` mutates a buffer; `extend` on a context is the scope manager (reported separately for C07)
BUFFER_WRITES = {"write", "writelines", "truncate", "seek"}

# classes whose instances are created per call (per parse / per render / per analysis) and
# are therefore allowed to carry mutable state; everything else in the package is
# immutable after construction (C09 (a)).
PER_CALL_CLASSES = {
    "Lexer", "TokenStream", "RenderContext", "ForLoop", "TableRow", "LimitedStringIO", "NullIO", "ReadOnlyChainMap",
    "_StaticScope", "_VariableMap", "StripParser", "BlockDrop", "LRUCache", "ThreadSafeLRUCache",
}
# sanctioned shared state: the template cache of caching loaders (its transparency is C14)
SANCTIONED_SELF_WRITES = {("CachingLoaderMixin", "cache")}
# a cache hit rebinds the cached template's globals to the current caller's (checked under C14)
SANCTIONED_FUNCS = {("CachingLoaderMixin", "_check_cache"), ("CachingLoaderMixin", "_check_cache_async")}
CONSTRUCTORS = {"__init__", "__post_init__", "__new__", "__init_subclass__", "__set_name__", "setup_tags_and_filters"}

FRESH_BUILTINS = {
    "list", "dict", "set", "tuple", "frozenset", "sorted", "str", "int", "float", "bool", "bytes", "bytearray",
    "StringIO", "defaultdict", "deque", "OrderedDict", "Counter", "Decimal", "Markup", "partial", "iter", "enumerate",
    "zip", "map", "filter", "range", "reversed", "chain", "islice", "object", "Path", "ChainMap", "Lock", "len", "sum",
    "min", "max", "abs", "round", "repr", "hash", "id", "isinstance", "hasattr", "type", "escape", "markupsafe_escape",
    "compile", "ord", "chr", "next",
}
MEMO_DECORATORS = {"lru_cache", "cache", "cached_property", "functools.lru_cache", "functools.cache", "functools.cached_property", "cached", "memoize", "memoized"}


def _root(e):
    path = []
    while isinstance(e, (ast.Attribute, ast.Subscript, ast.Starred)):
        if isinstance(e, ast.Attribute):
            path.append(e.attr)
        elif isinstance(e, ast.Subscript):
            path.append("[]")
        e = e.value
    path.reverse()
    if isinstance(e, ast.Name):
        return ("name", e.id, path)
    if isinstance(e, ast.Call):
        return ("call", ast.unparse(e.func), path)
    return ("other", type(e).__name__, path)


class WriteSite:
    def __init__(self, mod, qual, cls, fn, node, kind, target):
        self.mod, self.qual, self.cls, self.fn, self.node, self.kind, self.target = mod, qual, cls, fn, node, kind, target
        self.root = _root(target)

    @property
    def where(self):
        return f"{self.mod.name}:{self.qual}@{self.node.lineno}"

    def text(self):
        return f"{self.kind} {ast.unparse(self.target)}"


def function_defs(mod):
    """yield (qual, cls_name, fn_node, parent_fn) for every function in the module, nested ones included."""

    def rec(body, prefix, cls, parent):
        for st in body:
            if isinstance(st, (ast.FunctionDef, ast.AsyncFunctionDef)):
                yield prefix + st.name, cls, st, parent
                yield from rec(st.body, prefix + st.name + ".", cls, st)
            elif isinstance(st, ast.ClassDef):
                yield from rec(st.body, prefix + st.name + ".", st.name, None)
            elif isinstance(st, (ast.If, ast.Try, ast.With, ast.For, ast.While)):
                for fld in ("body", "orelse", "finalbody", "handlers"):
                    sub = getattr(st, fld, [])
                    if fld == "handlers":
                        for h in sub:
                            yield from rec(h.body, prefix, cls, parent)
                    else:
                        yield from rec(sub, prefix, cls, parent)

    yield from rec(mod.tree.body, "", None, None)



def significant_body(fn):
    """Top-level statements of fn that can matter: docstrings, `pass`, and dead stores of a constant to a local that is
    never read (tracing/debug markers) are dropped, so that rules about the shape of a body survive such edits."""
    loaded = {n.id for n in ast.walk(fn) if isinstance(n, ast.Name) and isinstance(n.ctx, ast.Load)}
    out = []
    for st in fn.body:
        if isinstance(st, ast.Expr) and isinstance(st.value, ast.Constant):
            continue
        if isinstance(st, ast.Pass):
            continue
        if isinstance(st, ast.Assign) and isinstance(st.value, ast.Constant) and all(isinstance(t, ast.Name) and t.id not in loaded for t in st.targets):
            continue
        out.append(st)
    return out


def own_nodes(fn):
    """AST nodes of fn's body excluding nested function/class bodies."""
    stack = [n for n in fn.body if not isinstance(n, (ast.FunctionDef, ast.AsyncFunctionDef, ast.ClassDef))]
    while stack:
        n = stack.pop()
        yield n
        for ch in ast.iter_child_nodes(n):
            if isinstance(ch, (ast.FunctionDef, ast.AsyncFunctionDef, ast.ClassDef, ast.Lambda)):
                continue
            stack.append(ch)


def write_sites(mod, qual, cls, fn):
    out = []
    for n in own_nodes(fn):
        if isinstance(n, ast.Assign):
            for t in n.targets:
                for tt in (t.elts if isinstance(t, (ast.Tuple, ast.List)) else [t]):
                    if isinstance(tt, (ast.Attribute, ast.Subscript)):
                        out.append(WriteSite(mod, qual, cls, fn, n, "assign", tt))
        elif isinstance(n, ast.AugAssign) and isinstance(n.target, (ast.Attribute, ast.Subscript)):
            out.append(WriteSite(mod, qual, cls, fn, n, "augassign", n.target))
        elif isinstance(n, ast.AnnAssign) and n.value is not None and isinstance(n.target, (ast.Attribute, ast.Subscript)):
            out.append(WriteSite(mod, qual, cls, fn, n, "assign", n.target))
        elif isinstance(n, ast.Delete):
            for t in n.targets:
                if isinstance(t, (ast.Attribute, ast.Subscript)):
                    out.append(WriteSite(mod, qual, cls, fn, n, "del", t))
        elif isinstance(n, ast.Call):
            f = n.func
            if isinstance(f, ast.Attribute) and (f.attr in MUTATORS or f.attr in BUFFER_WRITES):
                out.append(WriteSite(mod, qual, cls, fn, n, f"call .{f.attr}()", f.value))
            elif isinstance(f, ast.Name) and f.id in ("setattr", "delattr") and n.args:
                out.append(WriteSite(mod, qual, cls, fn, n, f.id, n.args[0]))
            elif isinstance(f, ast.Attribute) and ast.unparse(f) in ("random.shuffle", "heapq.heappush", "heapq.heappop", "heapq.heapify", "list.sort", "list.reverse", "operator.setitem", "operator.delitem") and n.args:
                out.append(WriteSite(mod, qual, cls, fn, n, f"call {ast.unparse(f)}()", n.args[0]))
    return out


def params_of(fn):
    a = fn.args
    ps = [p.arg for p in a.posonlyargs + a.args + a.kwonlyargs]
    if a.vararg:
        ps.append(a.vararg.arg)
    if a.kwarg:
        ps.append(a.kwarg.arg)
    return ps


class Prov:
    """Provenance of local variables: for each local, the set of tags of its assignments.
    tags: 'fresh', ('param', p), ('self', attrpath), ('global', g), ('exc',), ('opaque', text), ('data', why)"""

    def __init__(self, repo, mod, fn, cls, fresh_funcs):
        self.repo, self.mod, self.fn, self.cls = repo, mod, fn, cls
        self.params = params_of(fn)
        self.fresh_funcs = fresh_funcs
        self.assigns: dict[str, list] = {}
        for n in own_nodes(fn):
            if isinstance(n, ast.Assign):
                for t in n.targets:
                    self._bind(t, n.value)
            elif isinstance(n, ast.AnnAssign) and n.value is not None:
                self._bind(n.target, n.value)
            elif isinstance(n, ast.AugAssign) and isinstance(n.target, ast.Name):
                self.assigns.setdefault(n.target.id, []).append(("aug", n.value))
            elif isinstance(n, ast.NamedExpr):
                self._bind(n.target, n.value)
            elif isinstance(n, (ast.For, ast.AsyncFor)):
                self._bind(n.target, ast.Subscript(value=n.iter, slice=ast.Constant(value=0), ctx=ast.Load()))
            elif isinstance(n, (ast.With, ast.AsyncWith)):
                for it in n.items:
                    if it.optional_vars is not None:
                        self._bind(it.optional_vars, it.context_expr)
            elif isinstance(n, ast.ExceptHandler) and n.name:
                self.assigns.setdefault(n.name, []).append(("exc", None))
            elif isinstance(n, ast.comprehension):
                self._bind(n.target, ast.Subscript(value=n.iter, slice=ast.Constant(value=0), ctx=ast.Load()))
        self.memo = {}

    def _bind(self, target, value):
        if isinstance(target, ast.Name):
            self.assigns.setdefault(target.id, []).append(("expr", value))
        elif isinstance(target, (ast.Tuple, ast.List)):
            for i, e in enumerate(target.elts):
                if isinstance(value, (ast.Tuple, ast.List)) and len(value.elts) == len(target.elts):
                    self._bind(e, value.elts[i])
                else:
                    self._bind(e, ast.Subscript(value=value, slice=ast.Constant(value=i), ctx=ast.Load()))
        elif isinstance(target, ast.Starred):
            self._bind(target.value, value)

    def of_name(self, name, depth=0):
        if name in self.memo:
            return self.memo[name]
        self.memo[name] = set()  # cycle guard
        tags = set()
        if name in self.assigns:
            for kind, v in self.assigns[name]:
                if kind == "exc":
                    tags.add(("exc",))
                elif kind == "aug":
                    tags.add("fresh")
                else:
                    tags |= self.of_expr(v, depth + 1)
            if name in self.params:
                tags.add(("param", name))
        elif name in self.params:
            tags.add(("param", name))
        else:
            tags.add(("global", name))
        self.memo[name] = tags
        return tags

    def of_expr(self, e, depth=0):
        if depth > 30:
            return {("opaque", "deep")}
        if isinstance(e, (ast.Constant, ast.JoinedStr, ast.List, ast.Dict, ast.Set, ast.Tuple, ast.ListComp, ast.DictComp, ast.SetComp,
                          ast.GeneratorExp, ast.BinOp, ast.Compare, ast.UnaryOp, ast.Lambda)):
            return {"fresh"}
        if isinstance(e, ast.BoolOp):
            out = set()
            for v in e.values:
                out |= self.of_expr(v, depth + 1)
            return out
        if isinstance(e, ast.IfExp):
            return self.of_expr(e.body, depth + 1) | self.of_expr(e.orelse, depth + 1)
        if isinstance(e, ast.NamedExpr):
            return self.of_expr(e.value, depth + 1)
        if isinstance(e, ast.Await):
            return self.of_expr(e.value, depth + 1)
        if isinstance(e, ast.Name):
            return self.of_name(e.id, depth + 1)
        if isinstance(e, ast.Starred):
            return self.of_expr(e.value, depth + 1)
        if isinstance(e, (ast.Attribute, ast.Subscript)):
            if isinstance(e, ast.Subscript) and isinstance(e.slice, ast.Slice):
                base = self.of_expr(e.value, depth + 1)
                return {"fresh"}  # slicing builds a new container (elements stay shared: see item rule)
            base = self.of_expr(e.value, depth + 1)
            out = set()
            for t in base:
                if t == "fresh":
                    # an element/attribute of a fresh container may still be caller data
                    out.add(("elem-of-fresh",))
                else:
                    out.add(t)
            return out
        if isinstance(e, ast.Call):
            f = e.func
            fname = f.id if isinstance(f, ast.Name) else (f.attr if isinstance(f, ast.Attribute) else None)
            if isinstance(f, ast.Name):
                if f.id in FRESH_BUILTINS or f.id in self.fresh_funcs:
                    return {"fresh"}
                r = self.repo.resolve_name(self.mod, f.id)
                if r and r[0] == "class":
                    return {"fresh"}
                if f.id and f.id[0].isupper():
                    return {"fresh"}
                return {("opaque", ast.unparse(f))}
            if isinstance(f, ast.Attribute):
                if f.attr in ("copy", "split", "join", "strip", "lower", "upper", "replace", "format", "encode", "decode",
                              "items", "keys", "values", "getvalue", "lstrip", "rstrip", "splitlines", "partition", "rpartition",
                              "title", "capitalize", "casefold", "group", "groups"):
                    return {"fresh"}
                if f.attr in self.fresh_funcs and isinstance(f.value, ast.Name) and f.value.id in ("self", "cls"):
                    return {"fresh"}
                if f.attr in ("get", "pop", "setdefault", "popleft", "popitem", "__getitem__"):
                    return self.of_expr(f.value, depth + 1)
                if f.attr and f.attr[0].isupper():
                    return {"fresh"}
                return {("opaque", ast.unparse(f))}
            return {("opaque", ast.unparse(f))}
        return {("opaque", type(e).__name__)}

    def of_root(self, site: WriteSite):
        kind, name, path = site.root
        if kind == "name":
            tags = self.of_name(name)
            if name == self.params[0:1] and False:
                pass
            return tags
        if kind == "call":
            if name == "super":
                return {("param", self.params[0])} if self.params else {("opaque", "super")}
            return self.of_expr(site.target if not isinstance(site.target, (ast.Attribute, ast.Subscript)) else _base(site.target))
        return {("opaque", name)}


def _base(e):
    while isinstance(e, (ast.Attribute, ast.Subscript)):
        e = e.value
    return e


def compute_fresh_funcs(repo):
    """Names of repo functions all of whose return expressions are fresh (fixpoint)."""
    fresh = set()
    cands = []
    for m in repo.all_modules():
        for qual, cls, fn, parent in function_defs(m):
            cands.append((m, qual, cls, fn))
    changed = True
    rounds = 0
    while changed and rounds < 6:
        changed = False
        rounds += 1
        for m, qual, cls, fn in cands:
            if fn.name in fresh:
                continue
            rets = [n for n in own_nodes(fn) if isinstance(n, ast.Return) and n.value is not None]
            if not rets or any(isinstance(n, (ast.Yield, ast.YieldFrom)) for n in own_nodes(fn)):
                continue
            p = Prov(repo, m, fn, cls, fresh)
            if all(p.of_expr(r.value) == {"fresh"} for r in rets):
                # all same-named functions must agree (names are resolved by name only)
                fresh.add(fn.name)
                changed = True
    # a name is kept only if every function with that name is fresh
    by_name = {}
    for m, qual, cls, fn in cands:
        by_name.setdefault(fn.name, []).append((m, cls, fn))
    final = set()
    for name in fresh:
        ok = True
        for m, cls, fn in by_name[name]:
            rets = [n for n in own_nodes(fn) if isinstance(n, ast.Return) and n.value is not None]
            p = Prov(repo, m, fn, cls, fresh)
            if not rets or not all(p.of_expr(r.value) == {"fresh"} for r in rets):
                # abstract/overload stubs (`...`) do not count against
                body = [s for s in fn.body if not (isinstance(s, ast.Expr) and isinstance(s.value, ast.Constant))]
                if body:
                    ok = False
        if ok:
            final.add(name)
    return final


def class_bases(repo, mod, cname):
    c = mod.classes.get(cname)
    if c is None:
        return []
    return [(cc.name if m is not None else str(cc).split(".")[-1]) for m, cc in repo.class_mro(mod, c)]


def is_method(fn, parent, cls):
    return cls is not None and parent is None and not any(ast.unparse(d) == "staticmethod" for d in fn.decorator_list)


def analyse(repo_root):
    repo = Repo(repo_root)
    fresh_funcs = compute_fresh_funcs(repo)
    sites = []
    funcs = []
    for m in repo.all_modules():
        for qual, cls, fn, parent in function_defs(m):
            funcs.append((m, qual, cls, fn, parent))
            p = None
            for s in write_sites(m, qual, cls, fn):
                if p is None:
                    p = Prov(repo, m, fn, cls, fresh_funcs)
                s.prov = p.of_root(s)
                s.params = p.params
                s.is_method = is_method(fn, parent, cls)
                s.parent = parent
                sites.append(s)
    return repo, fresh_funcs, funcs, sites


# --------------------------------------------------------------------------- C09
# per-render objects handed to render-time methods (the last two are namespaces their callers build freshly)
RENDER_PARAM_OK = {"context", "buffer", "buf", "static_context", "ctx", "block_scope", "namespace"}


def c09_obligations(repo_root, tier):
    repo, fresh_funcs, funcs, sites = analyse(repo_root)
    obs = []

    def ob(oid, ok, note, witness=None, key=None):
        obs.append({"oid": oid, "status": "unsat" if ok else "sat", "backend": "frame", "note": note, "witness": witness, "key": key, "rule": "frame"})

    # (a) instances of classes that outlive a render are not written outside constructors
    by_class = {}
    for s in sites:
        selfname = s.params[0] if (s.is_method and s.params) else None
        self_rooted = selfname is not None and any(t == ("param", selfname) for t in s.prov)
        # nested helper functions closing over `self`
        if not self_rooted and s.cls and s.parent is not None and any(t == ("global", "self") for t in s.prov):
            self_rooted = True
        if self_rooted and s.cls:
            by_class.setdefault((s.mod.name, s.cls), []).append(s)
    all_classes = []
    for m in repo.all_modules():
        for cname in m.classes:
            all_classes.append((m, cname))
    for m, cname in all_classes:
        bases = class_bases(repo, m, cname)
        per_call = any(b in PER_CALL_CLASSES for b in bases)
        bad = []
        for s in by_class.get((m.name, cname), []):
            fname = s.qual.split(".")[-1] if s.parent is None else s.qual.split(".")[1]
            if fname in CONSTRUCTORS:
                continue
            if per_call:
                continue
            if (cname, fname) in SANCTIONED_FUNCS:
                continue
            if s.kind.startswith("call .") and s.kind[6:-2] in BUFFER_WRITES:
                continue
            path = s.root[2]
            if any((b, path[0] if path else "") in SANCTIONED_SELF_WRITES for b in bases):
                continue
            bad.append(s)
        ob(f"{m.name}:{cname}/frame.self-immutable", not bad,
           f"{cname}: " + ("per-call state class" if per_call else "no write to self.* outside constructors") if not bad else
           f"{cname} instances outlive a render but are written at {', '.join(b.where + ' (' + b.text() + ')' for b in bad[:4])}",
           witness={"sites": [b.where + ": " + b.text() for b in bad]} if bad else None)

    # (b) module-level objects are not written from inside functions; no `global` statements
    bad_by_mod = {}
    for s in sites:
        for t in s.prov:
            if isinstance(t, tuple) and t[0] == "global":
                g = t[1]
                if g in ("self", "cls"):
                    continue
                # closure variable of an enclosing function?
                if s.parent is not None and (g in params_of(s.parent) or any(isinstance(n, ast.Name) and n.id == g and isinstance(n.ctx, ast.Store) for n in ast.walk(s.parent))):
                    continue
                bad_by_mod.setdefault(s.mod.name, []).append((s, g))
    for m, qual, cls, fn, parent in funcs:
        for n in own_nodes(fn):
            if isinstance(n, ast.Global):
                bad_by_mod.setdefault(m.name, []).append((WriteSite(m, qual, cls, fn, n, "global", ast.Name(id=n.names[0], ctx=ast.Load())), n.names[0]))
    for m in repo.all_modules():
        bad = bad_by_mod.get(m.name, [])
        ob(f"{m.name}/frame.module-state", not bad,
           "no function writes a module-level object" if not bad else
           "module-level state written: " + ", ".join(f"{s.where} ({s.text()} -> {g})" for s, g in bad[:4]),
           witness={"sites": [f"{s.where}: {s.text()} root {g}" for s, g in bad]} if bad else None)

    # (c) no memoising decorator, no mutable default argument that is written
    bad = []
    for m, qual, cls, fn, parent in funcs:
        for d in fn.decorator_list:
            dn = ast.unparse(d).split("(")[0]
            if dn in MEMO_DECORATORS or dn.split(".")[-1] in MEMO_DECORATORS:
                bad.append(f"{m.name}:{qual} decorated with {dn}")
        a = fn.args
        defaults = list(a.defaults) + [d for d in a.kw_defaults if d is not None]
        for d in defaults:
            if isinstance(d, (ast.List, ast.Dict, ast.Set, ast.ListComp, ast.DictComp)) or (isinstance(d, ast.Call) and isinstance(d.func, ast.Name) and d.func.id in ("list", "dict", "set", "defaultdict", "deque")):
                bad.append(f"{m.name}:{qual} has a mutable default argument {ast.unparse(d)}")
    # memoisers applied by call rather than by decoration: X = functools.lru_cache(..)(f), cache(f) - anywhere in the package
    for m in repo.all_modules():
        for n in ast.walk(m.tree):
            if isinstance(n, ast.Call):
                fname = ast.unparse(n.func).split("(")[0]
                if fname in MEMO_DECORATORS or fname.split(".")[-1] in MEMO_DECORATORS:
                    if not any(n is d or (isinstance(d, ast.Call) and d is n) for f_ in ast.walk(m.tree) if isinstance(f_, (ast.FunctionDef, ast.AsyncFunctionDef)) for d in f_.decorator_list):
                        bad.append(f"{m.name}@memoiser applied by call: {ast.unparse(n)[:80]}")
    # in-place augmented assignment to a parameter (`names |= other`, `items += more`): the object belongs to the caller - for tags it is
    # often a class-level constant shared by every render of the process
    for m, qual, cls, fn, parent in funcs:
        a = fn.args
        pnames = {p.arg: p.annotation for p in a.posonlyargs + a.args + a.kwonlyargs}
        # a parameter unconditionally re-bound (top-level statement of the body) before the update is a local by then
        rebound_at = {}
        for st in fn.body:
            if isinstance(st, ast.Assign):
                for t in st.targets:
                    if isinstance(t, ast.Name):
                        rebound_at.setdefault(t.id, st.lineno)
        for n in own_nodes(fn):
            if isinstance(n, ast.AugAssign) and isinstance(n.target, ast.Name) and n.target.id in pnames \
                    and not (n.target.id in rebound_at and rebound_at[n.target.id] < n.lineno):
                ann = ast.unparse(pnames[n.target.id]) if pnames[n.target.id] is not None else ""
                if ann and not any(k in ann for k in ("set", "list", "dict", "Set", "List", "Dict", "Sequence", "Mapping", "Iterable", "object", "Any")):
                    continue      # numbers / strings are immutable: `n += 1` re-binds the local
                if isinstance(n.op, (ast.BitOr, ast.BitAnd, ast.Add, ast.Sub, ast.BitXor, ast.Mult)):
                    bad.append(f"{m.name}:{qual} mutates its parameter in place: {ast.unparse(n)}")
        # ... and to a local that is a plain alias of an attribute of self / a parameter (`d = self.disabled; d |= more`): the
        # update goes to the object the attribute holds (a class-level set, a node's list), not to a copy
        alias = {}
        for st in own_nodes(fn):
            if isinstance(st, ast.Assign) and len(st.targets) == 1 and isinstance(st.targets[0], ast.Name):
                v = st.value
                if isinstance(v, ast.Attribute) and isinstance(v.value, ast.Name) and v.value.id in pnames:
                    alias.setdefault(st.targets[0].id, []).append((st.lineno, ast.unparse(v)))
                else:
                    alias.setdefault(st.targets[0].id, []).append((st.lineno, None))
        for n in own_nodes(fn):
            if isinstance(n, ast.AugAssign) and isinstance(n.target, ast.Name) and n.target.id in alias and n.target.id not in pnames \
                    and isinstance(n.op, (ast.BitOr, ast.BitAnd, ast.Sub, ast.BitXor)):
                binds = alias[n.target.id]
                # every binding of the local is an alias of an attribute (a binding to a fresh value - set(..), copy - makes it a local object)
                if all(src is not None for _ln, src in binds):
                    bad.append(f"{m.name}:{qual} updates {binds[0][1]} in place through the alias `{n.target.id}`: {ast.unparse(n)}")
    ob("liquid2/frame.no-memo", not bad, "no memoising decorator or call, no mutable default argument, no in-place augmented assignment to a parameter (or to an alias of an attribute of one) in the package" if not bad else "; ".join(bad[:5]),
       witness={"sites": bad} if bad else None)

    # (d) render-time methods write only through context / buffer / per-render locals
    node_like = ("Node", "Expression", "Tag", "Template", "Environment", "BaseLoader")
    for m, cname in all_classes:
        bases = class_bases(repo, m, cname)
        if not any(b in node_like for b in bases):
            continue
        bad = []
        for s in sites:
            if s.mod is not m or s.cls != cname:
                continue
            fname = s.qual.split(".")[1] if "." in s.qual else s.qual
            if fname in CONSTRUCTORS or fname == "parse":
                continue
            selfname = s.params[0] if (s.is_method and s.params) else None
            for t in s.prov:
                if t == "fresh" or t == ("exc",) or t == ("elem-of-fresh",):
                    continue
                if isinstance(t, tuple) and t[0] == "param":
                    if t[1] == selfname:
                        continue  # covered by (a)
                    if t[1] in RENDER_PARAM_OK:
                        continue
                    bad.append((s, f"parameter {t[1]}"))
                elif isinstance(t, tuple) and t[0] == "opaque":
                    # results of calls: context.copy(), get_output_buffer(), env.from_string() - per-render objects
                    continue
        ob(f"{m.name}:{cname}/frame.render-writes", not bad,
           f"{cname}: render-time methods write only context/buffer/per-render objects" if not bad else
           f"{cname} writes " + ", ".join(f"{s.where} ({s.text()}, {why})" for s, why in bad[:4]),
           witness={"sites": [f"{s.where}: {s.text()} ({why})" for s, why in bad]} if bad else None)

    # (e) every render() builds its context and buffer freshly
    tm = repo.module("liquid2.template")
    for name in ("render", "render_async"):
        fn = tm.find(f"Template.{name}") if tm else None
        ok = False
        note = f"Template.{name} not found"
        if fn is not None:
            src = ast.unparse(fn)
            calls = [n for n in ast.walk(fn) if isinstance(n, ast.Call)]
            makes_ctx = any(isinstance(c.func, ast.Name) and c.func.id == "RenderContext" for c in calls)
            makes_buf = any(isinstance(c.func, ast.Attribute) and c.func.attr == "_get_buffer" for c in calls)
            no_self_store = not any(isinstance(n, ast.Attribute) and isinstance(n.ctx, ast.Store) for n in ast.walk(fn))
            ok = makes_ctx and makes_buf and no_self_store
            note = f"Template.{name}: fresh RenderContext={makes_ctx}, fresh buffer={makes_buf}, stores nothing on self={no_self_store}"
        ob(f"liquid2.template:Template.{name}/frame.fresh-context", ok, note)
    cm = repo.module("liquid2.context")
    init = cm.find("RenderContext.__init__") if cm else None
    ok = False
    note = "RenderContext.__init__ not found"
    if init is not None:
        fresh_fields = {}
        for n in ast.walk(init):
            tgt = None
            if isinstance(n, ast.Assign) and len(n.targets) == 1:
                tgt, val = n.targets[0], n.value
            elif isinstance(n, ast.AnnAssign) and n.value is not None:
                tgt, val = n.target, n.value
            if tgt is not None and isinstance(tgt, ast.Attribute) and isinstance(tgt.value, ast.Name) and tgt.value.id == "self":
                fresh_fields[tgt.attr] = isinstance(val, (ast.Dict, ast.List, ast.Set)) or (isinstance(val, ast.Call) and isinstance(val.func, ast.Name) and val.func.id in ("ReadOnlyChainMap", "dict", "list", "set", "defaultdict"))
        need = ["locals", "counters", "tag_namespace", "loops", "scope"]
        ok = all(fresh_fields.get(f) for f in need)
        note = "RenderContext.__init__ allocates " + ", ".join(f"{f}={'fresh' if fresh_fields.get(f) else 'NOT fresh'}" for f in need)
    ob("liquid2.context:RenderContext.__init__/frame.fresh-state", ok, note)
    # BuiltIn reads the clock on every lookup (no stored time)
    bi = cm.find("BuiltIn.__getitem__") if cm else None
    ok = bi is not None and "datetime.datetime.now()" in ast.unparse(bi) and "datetime.date.today()" in ast.unparse(bi) and not any(
        isinstance(n, ast.Attribute) and isinstance(n.ctx, ast.Store) for n in ast.walk(bi))
    ob("liquid2.context:BuiltIn.__getitem__/frame.clock", ok, "`now`/`today` read the clock on every lookup and store nothing")
    # (f) Environment.__init__ builds fresh registries
    em = repo.module("liquid2.environment")
    einit = em.find("Environment.__init__") if em else None
    ok = False
    if einit is not None:
        vals = {}
        for n in ast.walk(einit):
            if isinstance(n, ast.AnnAssign) and isinstance(n.target, ast.Attribute) and n.value is not None:
                vals[n.target.attr] = n.value
            elif isinstance(n, ast.Assign) and isinstance(n.targets[0], ast.Attribute):
                vals[n.targets[0].attr] = n.value
        ok = all(isinstance(vals.get(k), ast.Dict) and not vals[k].keys for k in ("filters", "tags"))
    ob("liquid2.environment:Environment.__init__/frame.fresh-registries", ok, "each Environment owns fresh `filters` and `tags` dicts")
    return obs, sites, repo


@register("C09")
def _c09(repo_root, tier):
    obs, sites, repo = c09_obligations(repo_root, tier)
    return {
        "obligations": obs,
        "samples": [{"obligation": o["oid"], "backend": "frame", "note": o["note"]} for o in obs[:3]],
        "trusted": ["frame analysis: syntactic write sites + flow-insensitive provenance of locals (fresh / parameter / self / module-level); "
                    "calls through dynamic dispatch write only what their own class's obligations allow",
                    "third-party libraries keep no state between calls that changes results (babel locale caches, re module cache)"],
        "functions": [{"target": "liquid2/* (all modules)", "status": "ok", "write_sites": len(sites)}],
        "assumptions": ["single interpreter; user-registered tags/filters/drops are outside the claim"],
        "not_covered": ["interleavings and fault sequences are not executed: they are ruled out by the frame (nothing shared is written)"],
    }


# --------------------------------------------------------------------------- C10
NON_DATA_PARAMS = {"self", "cls", "context", "environment", "env", "buffer", "buf", "static_context", "token", "tokens", "stream"}
DATA_CALLS = ("evaluate", "evaluate_async", "get", "get_async", "resolve", "get_item", "get_item_async", "evaluate_args", "evaluate_args_async")


def _is_filter_module(name):
    return name.startswith("liquid2.builtin.filters") or name.startswith("liquid2.shopify.filters") or name in ("liquid2.filter", "liquid2.stringify")


def c10_obligations(repo_root, tier):
    repo, fresh_funcs, funcs, sites = analyse(repo_root)
    obs = []

    def ob(oid, ok, note, witness=None):
        obs.append({"oid": oid, "status": "unsat" if ok else "sat", "backend": "frame", "note": note, "witness": witness, "key": None, "rule": "frame"})

    by_fn = {}
    for s in sites:
        by_fn.setdefault((s.mod.name, s.qual), []).append(s)
    n_filters = 0
    for m, qual, cls, fn, parent in funcs:
        in_filter = _is_filter_module(m.name)
        bases = class_bases(repo, m, cls) if cls else []
        in_render = any(b in ("Node", "Expression") for b in bases)
        if not (in_filter or in_render):
            continue
        top = qual.split(".")[0] if cls is None else (qual.split(".")[1] if "." in qual else qual)
        if top in CONSTRUCTORS or top in ("parse",) or top.startswith("with_"):
            continue
        n_filters += 1
        bad = []
        star_kw = fn.args.kwarg.arg if fn.args.kwarg else None
        for s in by_fn.get((m.name, qual), []):
            if s.kind.startswith("call .") and s.kind[6:-2] in BUFFER_WRITES:
                continue
            for t in s.prov:
                if t == "fresh" or t == ("exc",):
                    continue
                if isinstance(t, tuple) and t[0] == "param":
                    if t[1] in NON_DATA_PARAMS or t[1] == star_kw:
                        continue
                    if in_render and t[1] in RENDER_PARAM_OK:
                        continue
                    bad.append((s, f"parameter `{t[1]}` is caller data"))
                elif t == ("elem-of-fresh",):
                    bad.append((s, "element of a container that may hold caller data"))
                elif isinstance(t, tuple) and t[0] == "opaque" and t[1].split(".")[-1] in DATA_CALLS:
                    bad.append((s, f"result of {t[1]}() is caller data"))
                elif isinstance(t, tuple) and t[0] == "global":
                    # closure variables of an enclosing function are classified there
                    continue
        ob(f"{m.name}:{qual}/frame.no-data-write", not bad,
           "writes only fresh objects / context / buffer" if not bad else
           "; ".join(f"{s.where}: {s.text()} - {why}" for s, why in bad[:4]),
           witness={"sites": [f"{s.where}: {s.text()} ({why})" for s, why in bad]} if bad else None)

    # the coercion helpers hand filters a *new* container
    fm = repo.module("liquid2.filter")
    for name in ("sequence_arg", "_flatten"):
        fn = fm.functions.get(name) if fm else None
        ok = False
        note = f"liquid2.filter.{name} not found"
        if fn is not None:
            p = Prov(repo, fm, fn, None, fresh_funcs)
            rets = [n for n in own_nodes(fn) if isinstance(n, ast.Return) and n.value is not None]
            notfresh = [ast.unparse(r.value) for r in rets if p.of_expr(r.value) != {"fresh"}]
            ok = bool(rets) and not notfresh
            note = f"{name} returns a fresh list on every path" if ok else f"{name} may return its argument: return {notfresh}"
        ob(f"liquid2.filter:{name}/fresh-return", ok, note)
    for deco, helper in (("sequence_filter", "sequence_arg"), ("string_filter", "to_liquid_string"), ("math_filter", "num_arg")):
        fn = fm.functions.get(deco) if fm else None
        ok = False
        if fn is not None:
            src = ast.unparse(fn)
            ok = f"_filter({helper}(val" in src or (deco == "math_filter" and "val = num_arg(val" in src and "_filter(val" in src)
        ob(f"liquid2.filter:{deco}/coerces-first-argument", ok, f"@{deco} passes {helper}(val) - never the caller's object - as the filter's first argument")
    # assign writes only the context's own locals
    cm = repo.module("liquid2.context")
    fn = cm.find("RenderContext.assign") if cm else None
    ok = False
    if fn is not None:
        ws = write_sites(cm, "RenderContext.assign", "RenderContext", fn)
        ok = len(ws) == 1 and ast.unparse(ws[0].target) == "self.locals[key]"
    ob("liquid2.context:RenderContext.assign/frame.locals-only", ok, "assign writes self.locals[key] and nothing else")
    return obs, sites, n_filters


@register("C10")
def _c10(repo_root, tier):
    obs, sites, n = c10_obligations(repo_root, tier)
    return {
        "obligations": obs,
        "samples": [{"obligation": o["oid"], "backend": "frame", "note": o["note"]} for o in obs[:3]],
        "trusted": ["frame analysis: a filter/tag can change caller data only through a write site (assignment, del, mutator call) whose receiver "
                    "is rooted at a data parameter, an element of a container, or the result of evaluate()/get(); library calls "
                    "(sorted, list, dict, str methods, json.dumps, markupsafe) do not mutate their arguments",
                    "__eq__/__lt__/__hash__/__iter__ of user objects have no side effects"],
        "functions": [{"target": "filters, Node.render*, Expression.evaluate* (frame)", "status": "ok", "functions": n}],
        "assumptions": [],
    }
