"""Path-wise symbolic executor over the real repository AST (DESIGN 2).

Forking is done by *re-execution*: the interpreter is an ordinary recursive
evaluator; every symbolic branch consults a decision vector; the driver re-runs
the function once per feasible decision vector.  No state copying, and control
flow (try/finally, with, generators used as context managers) is mapped onto the
host's own exception mechanism.
"""
from __future__ import annotations

import os
import ast
import builtins
import importlib
import time
from typing import Any, Optional

import z3

from .repo import Repo, ModuleInfo
from .values import *  # noqa: F403
from . import values as V

MAX_PATHS = 4000
MAX_INLINE_DEPTH = 12


class Obligation:
    __slots__ = ("oid", "pc", "goal", "path", "note", "case", "imprecise", "unsupported")

    def __init__(self, oid, pc, goal, path, note="", case="", imprecise=None):
        self.oid = oid
        self.pc = list(pc)
        self.goal = goal
        self.path = path
        self.note = note
        self.case = case
        self.imprecise = imprecise  # reason, when the path used an over-approximation (a `sat` then needs native confirmation)
        self.unsupported = None     # reason, when the clause could not be evaluated on this path (verdict: unknown)


# injections of unboxed values into the opaque sort (a dict / list of objects that also holds ints or strings)
BOX_INT = z3.Function("box_int", z3.IntSort(), ObjSort)
BOX_STR = z3.Function("box_str", StrSort, ObjSort)

class Frame:
    def __init__(self, mod: ModuleInfo, locals_=None, parent=None, cls=None, fname="?", self_val=None):
        self.mod = mod
        self.locals = locals_ if locals_ is not None else {}
        self.parent = parent
        self.cls = cls
        self.fname = fname
        self.self_val = self_val
        self.yield_handler = None
        self.nonlocals = set()
        self.first_param = None

    def lookup(self, name):
        f = self
        while f is not None:
            if name in f.locals:
                return f.locals[name]
            f = f.parent
        raise KeyError(name)

    def has(self, name):
        f = self
        while f is not None:
            if name in f.locals:
                return True
            f = f.parent
        return False

    def store(self, name, val):
        if name in self.nonlocals:
            f = self.parent
            while f is not None:
                if name in f.locals:
                    f.locals[name] = val
                    return
                f = f.parent
        self.locals[name] = val


_BUILTIN_EXC = {n: o for n, o in vars(builtins).items() if isinstance(o, type) and issubclass(o, BaseException)}


class Exec:
    """One function under contract, one type case."""

    def __init__(self, repo: Repo, contract, registry, case_label="", budget_s=600.0):
        self.repo = repo
        self.contract = contract
        self.registry = registry  # target -> Contract
        self.case_label = case_label
        self.obligations: list[Obligation] = []
        self.paths = 0
        self.path_outcomes = []
        self.solver_time = 0.0
        self.feas_cache: dict = {}
        self.inlined: set[str] = set()
        self.used_contracts: set[str] = set()
        self.used_intrinsics: set[str] = set()
        self.assumptions_used: set[str] = set()
        self.budget_s = budget_s
        self._t0 = time.time()
        # per path
        self.pc: list = []
        self.decisions: list[bool] = []
        self.di = 0
        self.fresh_n = 0
        self.depth = 0
        self.loop_counter: dict = {}
        self.facts_seen = set()
        self.path_id = ""
        self.sym_names: dict = {}
        self.pattern_names: dict = {}
        self.callee_stats: dict = {}
        self.executed: set = set()
        from .intrinsics import Intrinsics

        self.intr = Intrinsics(self)
        from . import specs

        self.specs = specs.REGISTRY

    # ------------------------------------------------------------------ util
    def fresh(self, hint, kind, num="float"):
        self.fresh_n += 1
        name = f"{hint}!{self.fresh_n}"
        return self.sym(name, kind, num)

    def sym(self, name, kind, num="float"):
        if kind == "int":
            v = SInt(z3.Int(name))
        elif kind == "bool":
            v = SBool(z3.Bool(name))
        elif kind == "str":
            v = SStr(z3.Const(name, StrSort))
            self.assume_str_ok(v.t)
        elif kind == "real":
            v = SReal(z3.Real(name), num)
        elif kind == "any":
            v = SAny(z3.Const(name, ObjSort))
        elif kind == "markup":
            v = SMarkup(z3.Const(name, StrSort))
        elif isinstance(kind, tuple) and kind[0] == "seq":
            v = SSeq(z3.Const(name, z3.SeqSort(ELEM_SORT[kind[1]])), kind[1])
        else:
            raise Unsupported(f"fresh of kind {kind}")
        return v

    def assume_str_ok(self, t):
        """Code points of a str are in range (instantiated for the indices used)."""
        # Kept lazy: char-range facts are added where a character is extracted.
        return

    def assume(self, f):
        if isinstance(f, bool):
            if not f:
                raise PathEnd("assume false")
            return
        self.pc.append(f)

    def oblige(self, kind, goal, note=""):
        """Record obligation `pc => goal` and assume goal afterwards."""
        oid = f"{self.contract.target}/{kind}"
        if isinstance(goal, bool):
            goal = z3.BoolVal(goal)
        g = z3.simplify(goal)
        if z3.is_true(g):
            self.obligations.append(Obligation(oid, [], z3.BoolVal(True), self.path_id, note, self.case_label))
            return
        self.obligations.append(Obligation(oid, self.pc, goal, self.path_id, note, self.case_label, self.imprecise))
        self.pc.append(goal)

    def over_approximate(self, name, kind, reason):
        """Replace a value the encoding cannot express by an unconstrained one. Sound for proofs
        (more behaviours); a counter-model found afterwards must be confirmed natively."""
        self.imprecise = (self.imprecise + "; " if self.imprecise else "") + reason
        return self.fresh(name, kind)

    def check_sat(self, extra, timeout_ms=3000):
        s = z3.Solver()
        s.set("timeout", timeout_ms)
        for c in self.pc:
            s.add(c)
        for c in extra:
            s.add(c)
        t0 = time.time()
        r = timed_check(s, timeout_ms)
        self.solver_time += time.time() - t0
        return r

    def feasible(self, cond):
        key = (tuple(self.decisions[: self.di]), cond.get_id() if hasattr(cond, "get_id") else str(cond))
        # note: z3 ast ids are stable only within a run of the same terms; use sexpr for safety
        key = (tuple(self.decisions[: self.di]), cond.sexpr())
        if key in self.feas_cache:
            return self.feas_cache[key]
        r = self.check_sat([cond])
        ok = r != z3.unsat  # unknown counts as feasible (sound: more paths)
        if r == z3.unknown:
            self.unknown_feasibility = True
        self.feas_cache[key] = ok
        return ok

    def decide(self, cond) -> bool:
        """Branch on a z3 Bool (or python bool)."""
        if isinstance(cond, bool):
            return cond
        cond = z3.simplify(cond)
        if z3.is_true(cond):
            return True
        if z3.is_false(cond):
            return False
        if time.time() - self._t0 > self.budget_s:
            raise Unsupported("path exploration budget exhausted")
        i = self.di
        if i < len(self.decisions):
            choice = self.decisions[i]
        else:
            t_ok = self.feasible(cond)
            f_ok = self.feasible(z3.Not(cond))
            if t_ok and f_ok:
                choice = True
                self.pending.append(self.decisions[:i] + [False])
            elif t_ok:
                choice = True
            elif f_ok:
                choice = False
            else:
                raise PathEnd("infeasible")
            self.decisions.append(choice)
        self.di = i + 1
        self.pc.append(cond if choice else z3.Not(cond))
        return choice

    def prove_now(self, goal, timeout_ms=2000) -> bool:
        """In-line validity check under the current pc (used for side conditions)."""
        r = self.check_sat([z3.Not(goal)], timeout_ms)
        return r == z3.unsat

    # -------------------------------------------------------------- lifting
    def lift(self, v):
        """python/SV value -> (z3 term, kind)"""
        if isinstance(v, SSeq) and v.elem == "any":
            return v.t, "seq_any"
        if isinstance(v, SV):
            return v.t, v.kind
        if isinstance(v, bool):
            return z3.BoolVal(v), "bool"
        if isinstance(v, int):
            return z3.IntVal(v), "int"
        if isinstance(v, str):
            return str_const(v), "str"
        if isinstance(v, float):
            if v != v or v in (float("inf"), float("-inf")):
                raise Unsupported("non-finite float lifted to Real")
            return z3.RealVal(repr(v)), "real"
        if isinstance(v, EnumVal):
            c = z3.Const(f"enum.{v.enum}.{v.member}", ObjSort)
            seen = self.enum_seen.setdefault(v.enum, {})
            if v.member not in seen:
                for other in seen.values():
                    self.pc.append(c != other)   # distinct members of one enum are distinct objects
                seen[v.member] = c
            return c, "any"
        if v is None:
            return z3.Const("box.None", ObjSort), "any"
        if isinstance(v, (HObj, HDict, HList)):
            return self.box(v), "any"
        raise Unsupported(f"cannot lift {type(v).__name__}")

    def to_int_term(self, v):
        if isinstance(v, SInt):
            return v.t
        if isinstance(v, SBool):
            return z3.If(v.t, z3.IntVal(1), z3.IntVal(0))
        if isinstance(v, bool):
            return z3.IntVal(int(v))
        if isinstance(v, int):
            return z3.IntVal(v)
        raise Unsupported(f"int term of {v!r}")

    def to_str_term(self, v):
        if isinstance(v, (SStr, SMarkup)):
            return v.t
        if isinstance(v, str):
            return str_const(v)
        raise Unsupported(f"str term of {v!r}")

    def is_concrete(self, v):
        if isinstance(v, (SV, HObj, HList, HDict, HJoin, HSpecList, HSet, HListView, SLazy, PyCallable, ExcVal, FuncRef, BoundMethod, ClassRef)):
            return False
        if type(v).__module__.startswith("pyvc."):
            return False   # any other engine-level value
        if isinstance(v, Tagged):
            return False
        if isinstance(v, tuple):
            return all(self.is_concrete(x) for x in v)
        return True

    def truth(self, v):
        """python bool or z3 Bool for the truthiness of v."""
        if isinstance(v, SBool):
            return v.t
        if isinstance(v, SInt):
            return v.t != 0
        if isinstance(v, (SStr, SMarkup)):
            return z3.Length(v.t) > 0
        if isinstance(v, SReal):
            return v.t != 0
        if isinstance(v, SSeq):
            return z3.Length(v.t) > 0
        if isinstance(v, HListView):
            return z3.Length(v.seq) > 0
        if isinstance(v, HList):
            if v.items is not None:
                return len(v.items) > 0
            return z3.Length(v.sym.t) > 0
        if isinstance(v, HJoin):
            raise Unsupported("truth of join-list")
        if isinstance(v, HDict):
            if v.concrete is not None:
                return len(v.concrete) > 0
            return self.intr.dict_nonempty(v)
        if isinstance(v, HObj):
            r = self.intr.obj_truth(v)
            return r
        if isinstance(v, SAny):
            return self.intr.any_truth(v)
        if isinstance(v, (ExcVal, FuncRef, BoundMethod, ClassRef, ExternalRef, EnumVal)):
            return True
        if isinstance(v, Tagged):
            if v[0] in ("set", "bytes"):
                return len(v[1]) > 0
            return True
        if isinstance(v, tuple):
            return len(v) > 0
        return bool(v)

    def to_bool_value(self, c):
        if isinstance(c, bool):
            return c
        c = z3.simplify(c)
        if z3.is_true(c):
            return True
        if z3.is_false(c):
            return False
        return SBool(c)

    def trace_event(self, kind, *payload):
        self.trace.append((kind,) + payload)

    # -------------------------------------------------------------- raising
    def exc_ancestors(self, exc: ExcVal) -> list[str]:
        if exc.clsref is not None and exc.clsref.node is not None:
            out = []
            for m, c in self.repo.class_mro(exc.clsref.mod, exc.clsref.node):
                if m is not None:
                    out.append(c.name)
                else:
                    nm = c.split(".")[-1]
                    if nm in _BUILTIN_EXC:
                        out.extend(k.__name__ for k in _BUILTIN_EXC[nm].__mro__)
                    else:
                        out.append(nm)
            return out
        if getattr(exc, "pyclass", None) is not None:
            return [k.__name__ for k in exc.pyclass.__mro__]
        if exc.cls in _BUILTIN_EXC:
            return [k.__name__ for k in _BUILTIN_EXC[exc.cls].__mro__]
        if exc.cls == "InvalidOperation":
            import decimal

            return [k.__name__ for k in decimal.InvalidOperation.__mro__]
        return [exc.cls, "Exception", "BaseException"]

    def raise_builtin(self, name, primitive=""):
        raise RaiseSig(ExcVal(name), primitive=primitive or name)

    def require(self, cond, exc_name, primitive):
        """Safety condition of a primitive: fork an exceptional path where it fails."""
        if self.pure:
            return
        if not self.decide(cond):
            self.raise_builtin(exc_name, primitive)

    # --------------------------------------------------------------- driver
    pure = False

    def explore(self, run_path):
        """Enumerate decision vectors; run_path() executes one path."""
        self.pending = [[]]
        while self.pending:
            if self.paths >= MAX_PATHS:
                raise Unsupported(f"more than {MAX_PATHS} paths")
            prefix = self.pending.pop()
            self.decisions = list(prefix)
            self.di = 0
            self.pc = []
            self.fresh_n = 0
            self.depth = 0
            self.loop_counter = {}
            self.facts_seen = set()
            self.trace = []
            self.shared = {}
            self.heap_fields = {}
            self.boxes = {}
            self.unknown_feasibility = False
            self.ghost = {}
            self.imprecise = None
            self.enum_seen = {}
            self.path_token = object()
            self.path_id = "".join("T" if d else "F" for d in prefix)
            try:
                run_path()
                self.paths += 1
            except PathEnd as pe:
                # path cut; obligations recorded before the cut stay
                self.paths += 1
                if os.environ.get("PYVC_PATHS"):
                    import sys as _s
                    _s.stderr.write(f"[path {''.join('T' if d else 'F' for d in self.decisions)}] ends: {getattr(pe, 'why', '')}\n")
            self.path_id = "".join("T" if d else "F" for d in self.decisions)

    # ------------------------------------------------------------ functions
    def call_function(self, fref: FuncRef, args, kwargs, self_val=None):
        node = fref.node
        self.depth += 1
        if self.depth > MAX_INLINE_DEPTH:
            raise Unsupported(f"inline depth exceeded at {fref.qual}")
        try:
            frame = Frame(fref.mod, parent=fref.closure, cls=fref.cls, fname=fref.qual, self_val=self_val)
            if isinstance(node, ast.Lambda):
                self.bind_params(frame, node.args, args, kwargs, fref)
                return self.eval(node.body, frame)
            self.bind_params(frame, node.args, args, kwargs, fref)
            try:
                self.exec_block(node.body, frame)
            except ReturnSig as r:
                return r.value
            return None
        finally:
            self.depth -= 1

    def bind_params(self, frame, a: ast.arguments, args, kwargs, fref):
        args = list(args)
        kwargs = dict(kwargs)
        pos = list(a.posonlyargs) + list(a.args)
        if pos:
            frame.first_param = pos[0].arg
        defaults = [None] * (len(pos) - len(a.defaults)) + list(a.defaults)
        for i, p in enumerate(pos):
            if i < len(args):
                frame.locals[p.arg] = args[i]
            elif p.arg in kwargs:
                frame.locals[p.arg] = kwargs.pop(p.arg)
            elif defaults[i] is not None:
                frame.locals[p.arg] = self.eval(defaults[i], Frame(fref.mod, parent=fref.closure))
            else:
                self.raise_builtin("TypeError", f"missing argument {p.arg} of {fref.qual}")
        extra = args[len(pos):]
        if a.vararg:
            frame.locals[a.vararg.arg] = tuple(extra)
        elif extra:
            self.raise_builtin("TypeError", f"too many positional arguments for {fref.qual}")
        for p, d in zip(a.kwonlyargs, a.kw_defaults):
            if p.arg in kwargs:
                frame.locals[p.arg] = kwargs.pop(p.arg)
            elif d is not None:
                frame.locals[p.arg] = self.eval(d, Frame(fref.mod, parent=fref.closure))
            else:
                self.raise_builtin("TypeError", f"missing keyword argument {p.arg} of {fref.qual}")
        if a.kwarg:
            frame.locals[a.kwarg.arg] = HDict(concrete=dict(kwargs))
        elif kwargs:
            self.raise_builtin("TypeError", f"unexpected keyword {sorted(kwargs)} for {fref.qual}")

    # ----------------------------------------------------------- statements
    def exec_block(self, stmts, frame):
        for st in stmts:
            self.exec_stmt(st, frame)

    def exec_stmt(self, st, frame):
        self.executed.add(id(st))
        if os.environ.get("PYVC_TRACE"):
            import sys as _s
            _s.stderr.write(f"  L{getattr(st, 'lineno', '?')} {type(st).__name__}\n")
        m = getattr(self, "st_" + type(st).__name__, None)
        if m is None:
            raise Unsupported(f"statement {type(st).__name__} at line {st.lineno}")
        return m(st, frame)

    def st_Expr(self, st, frame):
        if isinstance(st.value, ast.Constant):
            return  # docstring (dropped)
        if isinstance(st.value, (ast.Yield, ast.YieldFrom)):
            return self.do_yield(st.value, frame)
        self.eval(st.value, frame)

    def st_Pass(self, st, frame):
        return

    def st_Global(self, st, frame):
        raise Unsupported("global statement")

    def st_Nonlocal(self, st, frame):
        frame.nonlocals.update(st.names)

    def st_Import(self, st, frame):
        for a in st.names:
            frame.locals[a.asname or a.name.split(".")[0]] = self.external_module(a.name.split(".")[0] if not a.asname else a.name)

    def st_ImportFrom(self, st, frame):
        for a in st.names:
            modname = frame.mod._abs_module(st.module, st.level)
            tmp = type("M", (), {})()
            frame.locals[a.asname or a.name] = self.resolve_imported(modname, a.name)

    def st_Assign(self, st, frame):
        if isinstance(st.value, (ast.Yield,)):
            raise Unsupported("yield expression value")
        val = self.eval(st.value, frame, target_hint=self._target_name(st.targets[0]))
        for t in st.targets:
            self.assign(t, val, frame)

    def _target_name(self, t):
        return t.id if isinstance(t, ast.Name) else None

    def st_AnnAssign(self, st, frame):
        if st.value is None:
            return
        val = self.eval(st.value, frame, target_hint=self._target_name(st.target))
        self.assign(st.target, val, frame)

    def st_AugAssign(self, st, frame):
        # evaluate target once
        t = st.target
        if isinstance(t, ast.Name):
            cur = self.load_name(t.id, frame)
            new = self.binop(st.op, cur, self.eval(st.value, frame))
            frame.store(t.id, new)
        elif isinstance(t, ast.Attribute):
            obj = self.eval(t.value, frame)
            cur = self.getattr(obj, t.attr, frame)
            new = self.binop(st.op, cur, self.eval(st.value, frame))
            self.setattr(obj, t.attr, new, frame)
        elif isinstance(t, ast.Subscript):
            obj = self.eval(t.value, frame)
            key = self.eval_index(t.slice, frame)
            cur = self.subscript(obj, key)
            new = self.binop(st.op, cur, self.eval(st.value, frame))
            self.store_subscript(obj, key, new)
        else:
            raise Unsupported("augassign target")

    def assign(self, t, val, frame):
        if isinstance(t, ast.Name):
            frame.store(t.id, val)
        elif isinstance(t, (ast.Tuple, ast.List)):
            items = self.iter_concrete(val)
            if items is None:
                seq = self.as_symbolic_seq(val)
                if seq is None or any(isinstance(e, ast.Starred) for e in t.elts):
                    raise Unsupported("unpacking of symbolic sequence")
                # a sequence of unknown length unpacks into n targets iff it has exactly n elements, else ValueError
                if self.decide(z3.Length(seq.t) != len(t.elts)):
                    self.raise_builtin("ValueError", "not enough / too many values to unpack")
                items = [self.seq_at(seq, z3.IntVal(i)) for i in range(len(t.elts))]
            if any(isinstance(e, ast.Starred) for e in t.elts):
                raise Unsupported("starred unpacking")
            if len(items) != len(t.elts):
                self.raise_builtin("ValueError", "unpack")
            for e, v in zip(t.elts, items):
                self.assign(e, v, frame)
        elif isinstance(t, ast.Attribute):
            obj = self.eval(t.value, frame)
            self.setattr(obj, t.attr, val, frame)
        elif isinstance(t, ast.Subscript):
            obj = self.eval(t.value, frame)
            key = self.eval_index(t.slice, frame)
            self.store_subscript(obj, key, val)
        else:
            raise Unsupported(f"assignment target {type(t).__name__}")

    def st_Delete(self, st, frame):
        for t in st.targets:
            if isinstance(t, ast.Subscript):
                obj = self.eval(t.value, frame)
                key = self.eval_index(t.slice, frame)
                self.intr.del_subscript(obj, key)
            elif isinstance(t, ast.Name):
                frame.locals.pop(t.id, None)
            else:
                raise Unsupported("del target")

    def st_Return(self, st, frame):
        raise ReturnSig(self.eval(st.value, frame) if st.value is not None else None)

    def st_Break(self, st, frame):
        raise BreakSig()

    def st_Continue(self, st, frame):
        raise ContinueSig()

    def st_If(self, st, frame):
        c = self.truth(self.eval(st.test, frame))
        if self.decide(c):
            self.exec_block(st.body, frame)
        else:
            self.exec_block(st.orelse, frame)

    def st_Assert(self, st, frame):
        c = self.truth(self.eval(st.test, frame))
        if not self.decide(c):
            self.raise_builtin("AssertionError", "assert")

    def st_Raise(self, st, frame):
        if st.exc is None:
            cur = getattr(frame, "current_exc", None)
            f = frame
            while cur is None and f is not None:
                cur = getattr(f, "current_exc", None)
                f = f.parent
            if cur is None:
                raise Unsupported("bare raise outside handler")
            raise RaiseSig(cur)
        v = self.eval(st.exc, frame)
        if isinstance(v, ClassRef):
            v = self.construct(v, [], {}, frame)
        if isinstance(v, ExternalRef) and isinstance(v.obj, type) and issubclass(v.obj, BaseException):
            v = ExcVal(v.obj.__name__)
        if not isinstance(v, ExcVal):
            raise Unsupported(f"raise of non-exception {v!r}")
        if st.cause is not None:
            self.eval(st.cause, frame)
        raise RaiseSig(v)

    def st_Try(self, st, frame):
        try:
            try:
                self.exec_block(st.body, frame)
            except RaiseSig as rs:
                anc = self.exc_ancestors(rs.exc)
                for h in st.handlers:
                    if self.handler_matches(h, anc, frame):
                        if h.name:
                            frame.locals[h.name] = rs.exc
                        prev = getattr(frame, "current_exc", None)
                        frame.current_exc = rs.exc
                        try:
                            self.exec_block(h.body, frame)
                        finally:
                            frame.current_exc = prev
                        break
                else:
                    raise
            else:
                self.exec_block(st.orelse, frame)
        finally:
            if st.finalbody:
                # runs for normal exit and for every signal (return/break/raise/PathEnd).
                import sys

                et = sys.exc_info()[0]
                if et is None or not issubclass(et, (PathEnd, Unsupported)):
                    self.exec_block(st.finalbody, frame)

    def handler_matches(self, h, ancestors, frame):
        if h.type is None:
            return True
        names = []
        tnodes = h.type.elts if isinstance(h.type, ast.Tuple) else [h.type]
        for tn in tnodes:
            v = self.eval(tn, frame)
            if isinstance(v, ClassRef):
                names.append(v.name)
            elif isinstance(v, ExternalRef) and isinstance(v.obj, type):
                names.append(v.obj.__name__)
            else:
                raise Unsupported(f"except clause type {ast.unparse(tn)}")
        return any(n in ancestors for n in names)

    # loops ---------------------------------------------------------------
    def loop_ordinal(self, st, frame):
        key = frame.fname
        # ordinal = position of this loop among loops of the enclosing function, by source order
        fn = self._enclosing_function_node(frame)
        loops = [n for n in ast.walk(fn) if isinstance(n, (ast.While, ast.For, ast.AsyncFor))] if fn else []
        loops.sort(key=lambda n: (n.lineno, n.col_offset))
        for i, n in enumerate(loops):
            if n is st:
                return i
        return -1

    def _enclosing_function_node(self, frame):
        return getattr(frame, "fnode", None)

    def loop_spec(self, st, frame):
        fn = getattr(frame, "fnode", None)
        if fn is None:
            return None, -1
        ordn = self.loop_ordinal(st, frame)
        specs = self.contract.loops_for(frame.fname)
        return specs.get(ordn), ordn

    def st_While(self, st, frame):
        spec, ordn = self.loop_spec(st, frame)
        if spec is None:
            return self.unrolled_while(st, frame, ordn)
        self.invariant_loop(st, frame, spec, ordn, kind="while")

    def unrolled_while(self, st, frame, ordn):
        bound = self.contract.unroll_for(frame.fname).get(ordn, 0)
        n = 0
        while True:
            c = self.truth(self.eval(st.test, frame))
            if isinstance(c, bool) and not bound:
                # concrete loop: run it
                if not c:
                    break
            else:
                if not bound:
                    raise Unsupported(f"while loop #{ordn} in {frame.fname} needs an invariant or unroll bound")
                if n >= bound:
                    # unwinding obligation: the guard must be false now
                    self.oblige(f"unwind.{ordn}", z3.Not(c) if not isinstance(c, bool) else (not c), "loop unwinding bound")
                    break
                if not self.decide(c):
                    break
            n += 1
            if n > 10000:
                raise Unsupported("concrete loop too long")
            try:
                self.exec_block(st.body, frame)
            except BreakSig:
                return
            except ContinueSig:
                continue
        self.exec_block(st.orelse, frame)

    def st_For(self, st, frame):
        spec, ordn = self.loop_spec(st, frame)
        it = self.eval(st.iter, frame)
        items = self.iter_concrete(it)
        if items is not None and spec is None:
            for x in items:
                self.assign(st.target, x, frame)
                try:
                    self.exec_block(st.body, frame)
                except BreakSig:
                    return
                except ContinueSig:
                    continue
            self.exec_block(st.orelse, frame)
            return
        # symbolic sequence
        seq = self.as_symbolic_seq(it)
        if seq is None:
            raise Unsupported(f"for loop over {it!r} in {frame.fname}")
        if spec is None:
            bound = self.contract.unroll_for(frame.fname).get(ordn, 0)
            if not bound:
                raise Unsupported(f"for loop #{ordn} in {frame.fname} needs an invariant or unroll bound")
            ln = z3.Length(seq.t)
            for i in range(bound):
                if not self.decide(ln > i):
                    self.exec_block(st.orelse, frame)
                    return
                self.assign(st.target, self.seq_at(seq, z3.IntVal(i)), frame)
                try:
                    self.exec_block(st.body, frame)
                except BreakSig:
                    return
                except ContinueSig:
                    continue
            self.oblige(f"unwind.{ordn}", ln <= bound, "loop unwinding bound")
            self.exec_block(st.orelse, frame)
            return
        self.invariant_loop(st, frame, spec, ordn, kind="for", seq=seq)

    st_AsyncFor = st_For

    def invariant_loop(self, st, frame, spec, ordn, kind, seq=None):
        """Inductive-invariant treatment: init, havoc, assume, one symbolic iteration, keep."""
        idx_name = spec.get("index", "_i")
        if kind == "for":
            frame.locals[idx_name] = 0
        env_extra = {}
        for clause in spec.get("lemmas_init", []):
            self.used_intrinsics.add(f"definitional axiom instance: {clause}")
            self.assume(self.spec_bool(clause, frame, env_extra))
        for k, clause in enumerate(spec.get("inv", [])):
            self.oblige(f"inv.init.{ordn}.{k}", self.spec_bool(clause, frame, env_extra), clause)
        # havoc
        self.havoc_loop(st, frame, spec)
        for gname, gv in list(self.ghost.items()):
            gk = "int" if z3.is_int(gv) else ("bool" if z3.is_bool(gv) else "any")
            self.ghost[gname] = self.fresh(f"ghost.{gname}", gk).t
        if kind == "for":
            i = self.fresh(idx_name, "int")
            frame.locals[idx_name] = i
            self.assume(i.t >= 0)
            self.assume(i.t <= z3.Length(seq.t))
        for clause in spec.get("inv", []):
            self.assume(self.spec_bool(clause, frame, env_extra))
        # ghost copies of the loop-carried locals at the head of the iteration: pre_<name>
        for name, v in list(frame.locals.items()):
            if not name.startswith("pre_") and not isinstance(v, (HObj, HDict, HList, FuncRef)):
                env_extra["pre_" + name] = v.acc if isinstance(v, HJoin) else v
        # definitional axioms instantiated at the loop head (trusted definitions, listed in evidence)
        for clause in spec.get("lemmas_head", []):
            self.used_intrinsics.add(f"definitional axiom instance: {clause}")
            self.assume(self.spec_bool(clause, frame, env_extra))
        dec0 = None
        if spec.get("dec"):
            dec0 = self.spec_eval(spec["dec"], frame, env_extra)
        if kind == "while":
            c = self.truth(self.eval(st.test, frame))
            enter = self.decide(c)
        else:
            enter = self.decide(frame.locals[idx_name].t < z3.Length(seq.t))
        if not enter:
            for clause in spec.get("lemmas_exit", []):
                self.used_intrinsics.add(f"definitional axiom instance: {clause}")
                self.assume(self.spec_bool(clause, frame, env_extra))
            for k, clause in enumerate(spec.get("hints_exit", [])):
                self.oblige(f"hint.exit.{ordn}.{k}", self.spec_bool(clause, frame, env_extra), clause)
            self.exec_block(st.orelse, frame)
            return
        if kind == "for":
            self.assign(st.target, self.seq_at(seq, frame.locals[idx_name].t), frame)
        try:
            self.exec_block(st.body, frame)
        except BreakSig:
            return  # continue after the loop with the break state
        except ContinueSig:
            pass
        if kind == "for":
            frame.locals[idx_name] = SInt(frame.locals[idx_name].t + 1)
        for k, clause in enumerate(spec.get("hints_end", [])):
            # hints are proved first, then available (never assumed unproved)
            self.oblige(f"hint.{ordn}.{k}", self.spec_bool(clause, frame, env_extra), clause)
        for clause in spec.get("lemmas_end", []):
            self.used_intrinsics.add(f"definitional axiom instance: {clause}")
            self.assume(self.spec_bool(clause, frame, env_extra))
        for k, clause in enumerate(spec.get("inv", [])):
            self.oblige(f"inv.keep.{ordn}.{k}", self.spec_bool(clause, frame, env_extra), clause)
        if dec0 is not None:
            dec1 = self.spec_eval(spec["dec"], frame, env_extra)
            d0, _ = self.lift(dec0)
            d1, _ = self.lift(dec1)
            self.oblige(f"dec.{ordn}", z3.And(d1 < d0, d0 >= 0) if True else None, f"decreases {spec['dec']}")
        raise PathEnd("loop body done")

    def havoc_loop(self, st, frame, spec):
        names = set()
        attr_writes = []
        mut_calls = []
        for n in ast.walk(ast.Module(body=st.body + ([st] if isinstance(st, ast.For) else []), type_ignores=[])):
            if isinstance(n, ast.Name) and isinstance(n.ctx, ast.Store):
                names.add(n.id)
            elif isinstance(n, ast.Attribute) and isinstance(n.ctx, ast.Store):
                attr_writes.append(n)
            elif isinstance(n, ast.Call) and isinstance(n.func, ast.Attribute) and n.func.attr in _MUTATORS:
                mut_calls.append(n.func.value)
        # writes made on behalf of the loop body by the methods it calls on `self`: an inlined callee's own stores to
        # self.<field> (transitively), a contracted callee's `modifies` clause (self.<field> and argument lists)
        callee_fields, callee_heaps = self._callee_writes(st, frame)
        for fld in sorted(callee_fields):
            attr_writes.append(ast.Attribute(value=ast.Name(id="self", ctx=ast.Load()), attr=fld, ctx=ast.Store()))
        mut_calls.extend(callee_heaps)
        types = spec.get("types", {})
        for name in sorted(names | set(spec.get("havoc", []))):
            if not frame.has(name):
                continue
            cur = frame.lookup(name)
            new = self.havoc_value(name, cur, types.get(name))
            frame.store(name, new)
        for n in attr_writes:
            if n.attr in self.contract.mutable_fields:
                kind = self.contract.obj_fields[n.attr]
                self.fresh_n += 1
                self.heap_fields[n.attr] = z3.Const(f"heap.{n.attr}!{self.fresh_n}", z3.ArraySort(ObjSort, ELEM_SORT[kind]))
                continue
            try:
                obj = self.eval(n.value, frame)
            except (Signal, KeyError, Unsupported):
                continue
            if isinstance(obj, HObj) and n.attr in obj.fields:
                obj.fields[n.attr] = self.havoc_value(f"{n.attr}", obj.fields[n.attr], types.get(n.attr))
        for recv in mut_calls:
            if isinstance(recv, ast.Name) and frame.has(recv.id):
                cur = frame.lookup(recv.id)
                if isinstance(cur, (HJoin, HList, HDict, HSpecList, HSet)):
                    self.havoc_heap(recv.id, cur, types.get(recv.id))
            elif isinstance(recv, ast.Attribute):
                try:
                    obj = self.eval(recv, frame)
                except (Signal, KeyError, Unsupported):
                    continue
                if isinstance(obj, (HJoin, HList, HDict, HSpecList)):
                    self.havoc_heap(recv.attr, obj, types.get(recv.attr))
        for fld in spec.get("havoc_fields", []):
            oname, _, fname = fld.partition(".")
            obj = frame.lookup(oname)
            obj.fields[fname] = self.havoc_value(fname, obj.fields[fname], types.get(fname))

    def _callee_writes(self, st, frame):
        """(fields of self, receiver expressions) written by methods of the same class called in the loop `st`."""
        fields, heaps = set(), []
        if frame.cls is None or not frame.has("self"):
            return fields, heaps
        cmod, cnode = frame.cls
        seen = set()

        def method(name):
            r = self.repo.find_method(cmod, cnode, name)
            return r if r and r[0] == "func" else None

        def scan(body_nodes, depth, argmap):
            for n in body_nodes:
                for c in ast.walk(n):
                    if isinstance(c, ast.Attribute) and isinstance(c.ctx, ast.Store) and isinstance(c.value, ast.Name) and c.value.id == "self":
                        fields.add(c.attr)
                    if isinstance(c, ast.Call) and isinstance(c.func, ast.Attribute) and c.func.attr in _MUTATORS:
                        recv = c.func.value
                        if isinstance(recv, ast.Attribute) and isinstance(recv.value, ast.Name) and recv.value.id == "self":
                            heaps.append(recv)
                        elif isinstance(recv, ast.Name) and recv.id in argmap:
                            heaps.append(argmap[recv.id])
                    if isinstance(c, ast.Call) and isinstance(c.func, ast.Name) and depth == 0:
                        # a module-level function of the repository with a contract: the argument objects it may modify
                        try:
                            rr = self.repo.resolve_name(frame.mod, c.func.id)
                        except Exception:  # noqa: BLE001
                            rr = None
                        if rr and rr[0] == "func":
                            con = self.registry.get(f"{rr[1].name}:{rr[2].name}")
                            if con is not None and con.target not in self.contract.inline and not con.always_inline:
                                pnames = [a.arg for a in rr[2].args.args]
                                amap2 = dict(zip(pnames, c.args))
                                amap2.update({k.arg: k.value for k in c.keywords if k.arg})
                                for path in con.modifies:
                                    on, _, fn_ = path.partition(".")
                                    if not fn_ and on in amap2:
                                        heaps.append(amap2[on])
                        continue
                    if not (isinstance(c, ast.Call) and isinstance(c.func, ast.Attribute) and isinstance(c.func.value, ast.Name) and c.func.value.id == "self"):
                        continue
                    r = method(c.func.attr)
                    if r is None:
                        continue
                    target = f"{r[1].name}:{r[2].name}.{r[3].name}"
                    fn = r[3]
                    params = [a.arg for a in fn.args.args[1:]] + [a.arg for a in fn.args.kwonlyargs]
                    amap = {}
                    for pn, a in zip([a.arg for a in fn.args.args[1:]], c.args):
                        amap[pn] = a if depth == 0 else None
                    for k in c.keywords:
                        if k.arg:
                            amap[k.arg] = k.value if depth == 0 else None
                    con = self.registry.get(target)
                    if con is not None and target not in self.contract.inline and not con.always_inline and target != self.contract.base:
                        for path in con.modifies:
                            on, _, fn_ = path.partition(".")
                            if on == "self" and fn_:
                                fields.add(fn_)
                            elif not fn_ and amap.get(on) is not None:
                                heaps.append(amap[on])
                        continue
                    if target == self.contract.base:
                        for path in self.contract.modifies:
                            on, _, fn_ = path.partition(".")
                            if on == "self" and fn_:
                                fields.add(fn_)
                        continue
                    if (target, depth) in seen or depth > 4:
                        continue
                    seen.add((target, depth))
                    scan(fn.body, depth + 1, {k: v for k, v in amap.items() if v is not None})

        scan(st.body, 0, {})
        # fields the body itself stores are handled by the caller; keep only real attribute names
        return fields, heaps

    def havoc_heap(self, name, obj, ty):
        if isinstance(obj, HSet):
            kind = obj.kind or ty or "any"
            obj.kind = kind
            obj.has = z3.Const(f"{name}.has!{self.fresh_n}", z3.ArraySort(ELEM_SORT[kind], BoolSort))
            self.fresh_n += 1
            obj.count = self.fresh(f"{name}.count", "int").t
            self.assume(obj.count >= 0)
            return
        if isinstance(obj, HSpecList):
            for k, v in list(obj.state.items()):
                if isinstance(v, z3.ExprRef) and z3.is_int(v) and k not in ("n", "lo"):
                    obj.state[k] = self.fresh(f"{name}.{k}", "int").t
                elif isinstance(v, list):
                    obj.state[k] = []
            if "havoc" in obj.hooks:
                obj.hooks["havoc"](self, obj)
            return
        if isinstance(obj, HJoin):
            obj.acc = self.fresh(name, "str")
        elif isinstance(obj, HList):
            elem = ty or (obj.sym.elem if obj.sym is not None else None)
            if elem is None:
                if obj.items:
                    _, elem = self.lift(obj.items[0])
                else:
                    elem = "any"  # an empty list: its future elements are read as opaque values
            obj.items = None
            obj.sym = self.fresh(name, ("seq", elem))
        elif isinstance(obj, HDict):
            self.intr.havoc_dict(name, obj)

    def havoc_value(self, name, cur, ty=None):
        if ty is not None:
            return ty.fresh(self, name)
        if isinstance(cur, (HJoin, HList, HDict, HSpecList, HSet)):
            return cur  # heap content havocked through mutator scan
        if isinstance(cur, HObj):
            return cur
        if isinstance(cur, bool) or isinstance(cur, SBool):
            return self.fresh(name, "bool")
        if isinstance(cur, int) or isinstance(cur, SInt):
            return self.fresh(name, "int")
        if isinstance(cur, str) or isinstance(cur, SStr):
            return self.fresh(name, "str")
        if isinstance(cur, SReal):
            return self.fresh(name, "real", cur.num)
        if isinstance(cur, SAny):
            return self.fresh(name, "any")
        if isinstance(cur, SSeq):
            return self.fresh(name, ("seq", cur.elem))
        if isinstance(cur, tuple):
            return tuple(self.havoc_value(f"{name}.{i}", c) for i, c in enumerate(cur))
        if cur is None:
            raise Unsupported(f"havoc of {name} (None before the loop): give loop types")
        raise Unsupported(f"havoc of {name}: {cur!r}")

    # with ------------------------------------------------------------------
    def st_With(self, st, frame):
        self.exec_with(st, 0, frame)

    st_AsyncWith = st_With

    def exec_with(self, st, k, frame):
        if k == len(st.items):
            self.exec_block(st.body, frame)
            return
        item = st.items[k]
        call = item.context_expr
        cm = None
        if isinstance(call, ast.Call):
            fv = self.eval(call.func, frame)
            args, kwargs = self.eval_args(call, frame)
            cm = self.intr.context_manager(fv, args, kwargs, frame)
        if cm is None:
            raise Unsupported(f"with over {ast.unparse(call)}")

        def body(val):
            if item.optional_vars is not None:
                self.assign(item.optional_vars, val, frame)
            self.exec_with(st, k + 1, frame)

        cm(body)

    def run_generator_cm(self, fref: FuncRef, args, kwargs, self_val, body):
        """`with f(...) as x: body` for an @contextmanager generator f: interpret f's
        body; at its `yield v`, run `body(v)` in place (an exception raised by the body
        is thrown at the yield point, exactly as contextlib does)."""
        node = fref.node
        self.depth += 1
        try:
            fr = Frame(fref.mod, parent=fref.closure, cls=fref.cls, fname=fref.qual, self_val=self_val)
            fr.fnode = node
            self.bind_params(fr, node.args, args, kwargs, fref)
            state = {"yielded": 0}

            def handler(v):
                state["yielded"] += 1
                if state["yielded"] > 1:
                    raise Unsupported("context manager generator yielded twice")
                body(v)
                return None

            fr.yield_handler = handler
            try:
                self.exec_block(node.body, fr)
            except ReturnSig:
                pass
            if state["yielded"] != 1:
                raise Unsupported("context manager generator did not yield")
        finally:
            self.depth -= 1

    def do_yield(self, node, frame):
        f = frame
        while f is not None and f.yield_handler is None:
            f = f.parent if False else None
        h = frame.yield_handler
        if h is None:
            raise Unsupported(f"yield in {frame.fname} (generator not consumed by a modelled construct)")
        if isinstance(node, ast.YieldFrom):
            it = self.eval(node.value, frame)
            items = self.iter_concrete(it)
            if items is None:
                raise Unsupported("yield from symbolic iterable")
            for x in items:
                h(x)
            return None
        v = self.eval(node.value, frame) if node.value is not None else None
        return h(v)

    def st_FunctionDef(self, st, frame):
        f = FuncRef(frame.mod, st, cls=frame.cls, closure=frame, qual=f"{frame.fname}.{st.name}")
        # decorators on nested functions: only functools.wraps is interpreted (identity)
        for d in st.decorator_list:
            dn = ast.unparse(d)
            if not dn.startswith("wraps"):
                raise Unsupported(f"decorator {dn} on nested function")
        frame.locals[st.name] = f

    st_AsyncFunctionDef = st_FunctionDef

    def st_Match(self, st, frame):
        subj = self.eval(st.subject, frame)
        for case in st.cases:
            binds = {}
            c = self.match_pattern(case.pattern, subj, frame, binds)
            if c is False:
                continue
            if c is not True:
                if not self.decide(c):
                    continue
            for k, v in binds.items():
                frame.store(k, v)
            if case.guard is not None:
                g = self.truth(self.eval(case.guard, frame))
                if not self.decide(g):
                    continue
            self.exec_block(case.body, frame)
            return

    def match_pattern(self, p, subj, frame, binds):
        if isinstance(p, ast.MatchAs):
            if p.pattern is None:
                if p.name:
                    binds[p.name] = subj
                return True
            r = self.match_pattern(p.pattern, subj, frame, binds)
            if r is not False and p.name:
                binds[p.name] = subj
            return r
        if isinstance(p, ast.MatchValue):
            v = self.eval(p.value, frame)
            return self.truth(self.compare(ast.Eq(), subj, v))
        if isinstance(p, ast.MatchSingleton):
            return self.truth(self.compare(ast.Is(), subj, p.value))
        if isinstance(p, ast.MatchClass):
            cls = self.eval(p.cls, frame)
            r = self.intr.isinstance_(subj, cls)
            if p.patterns or p.kwd_patterns:
                if p.patterns:
                    raise Unsupported("positional class patterns")
                res = r
                for attr, sub in zip(p.kwd_attrs, p.kwd_patterns):
                    if res is False:
                        return False
                    av = self.getattr(subj, attr, frame)
                    r2 = self.match_pattern(sub, av, frame, binds)
                    if r2 is False:
                        return False
                    if r2 is not True:
                        res = r2 if res is True else z3.And(res, r2)
                return res
            return r
        if isinstance(p, ast.MatchOr):
            out = False
            for alt in p.patterns:
                r = self.match_pattern(alt, subj, frame, binds)
                if r is True:
                    return True
                if r is not False:
                    out = r if out is False else z3.Or(out, r)
            return out
        raise Unsupported(f"match pattern {type(p).__name__}")

    # ---------------------------------------------------------- expressions
    def eval(self, node, frame, target_hint=None):
        m = getattr(self, "ex_" + type(node).__name__, None)
        if m is None:
            raise Unsupported(f"expression {type(node).__name__} at line {getattr(node, 'lineno', '?')}")
        if target_hint is not None and isinstance(node, (ast.List, ast.ListComp)):
            return m(node, frame, target_hint=target_hint)
        v = m(node, frame)
        if isinstance(v, SLazy) and not v.defer:
            v = self.resolve_lazy(v)   # lazily typed record fields are never observed unresolved
        return v

    def ex_Constant(self, node, frame):
        v = node.value
        if isinstance(v, (bytes, complex)) or v is Ellipsis:
            if v is Ellipsis:
                return None
            raise Unsupported("bytes/complex constant")
        return v

    def ex_Name(self, node, frame):
        v = self.load_name(node.id, frame)
        if isinstance(v, SLazy):
            v = self.resolve_lazy(v)
            frame.store(node.id, v)
        return v

    def resolve_lazy(self, lz):
        """Pick the alternative of a lazily typed value (forks on its case tag)."""
        n = len(lz.alts)
        if lz.resolved is not None and lz.resolved[0] == self.path_token:
            return lz.resolved[1]
        for i, alt in enumerate(lz.alts):
            if i == n - 1:
                self.assume(lz.tag == i)
                choice = i
                break
            if self.decide(lz.tag == i):
                choice = i
                break
        v = lz.alts[choice].fresh(self, lz.name, fixed=True)
        if isinstance(v, SLazy):
            v = self.resolve_lazy(v)
        if isinstance(v, SAny) and any(getattr(a, "value", 0) is None for a in lz.alts):
            from .intrinsics import F_is_none
            self.assume(z3.Not(F_is_none(v.t)))   # the non-None alternative of an Optional
        lz.resolved = (self.path_token, v)
        return v

    def load_name(self, name, frame):
        try:
            return frame.lookup(name)
        except KeyError:
            pass
        if self.pure and name in getattr(self, "ghost_params", {}):
            return self.ghost_params[name]
        am = self.contract._alias_map or {}
        if self.pure and (name in am or (name.startswith("pre_") and name[4:] in am)):
            real = am[name] if name in am else "pre_" + am[name[4:]]
            try:
                return frame.lookup(real)
            except KeyError:
                pass
        if name in self.contract.globals_:
            f = self
            key = ("global", name)
            if key not in self.sym_names:
                self.sym_names[key] = self.contract.globals_[name].fresh(self, name, fixed=True)
            return self.sym_names[key]
        if self.pure and name in self.specs:
            return SpecRef(name, self.specs[name])
        return self.module_name(frame.mod, name)

    def module_name(self, mod: ModuleInfo, name):
        r = self.repo.resolve_name(mod, name)
        if r is None:
            if hasattr(builtins, name):
                return ExternalRef(getattr(builtins, name), name)
            if name in self.specs:
                return SpecRef(name, self.specs[name])
            if self.pure:
                # contract clauses may name any class of the package
                hits = [(m, m.classes[name]) for m in self.repo.all_modules() if name in m.classes]
                if len(hits) == 1:
                    return ClassRef(name, hits[0][0], hits[0][1])
            raise Unsupported(f"unresolved name {name} in {mod.name}")
        kind = r[0]
        if kind == "func":
            return self.decorated(FuncRef(r[1], r[2], qual=r[2].name))
        if kind == "class":
            return ClassRef(r[2].name, r[1], r[2])
        if kind == "assign":
            return self.module_constant(r[1], name, r[2])
        if kind == "external":
            return self.external(r[1])
        if kind == "module":
            return ModuleRef(r[1])
        raise Unsupported(f"name kind {kind}")

    def decorated(self, fref: FuncRef):
        return fref

    def module_constant(self, mod, name, expr):
        key = ("const", mod.name, name)
        if key in self.sym_names:
            return self.sym_names[key]
        if key in self.shared:
            return self.shared[key]
        fr = Frame(mod, fname=f"<module {mod.name}>")
        saved = self.pure
        try:
            v = self.eval(expr, fr)
        finally:
            self.pure = saved
        if self.is_concrete(v) or isinstance(v, (ClassRef, ExternalRef, FuncRef, EnumVal)):
            self.sym_names[key] = v
        elif isinstance(v, (HObj, HList, HDict)):
            self.shared[key] = v  # one object per path (module-level singletons such as context.builtin)
        return v

    def native_constant(self, modname, qual):
        """Constant folding by evaluation: import the module from the repository under verification and
        read a module/class-level constant (only for values the symbolic evaluator cannot build, e.g.
        compiled regular expressions). The import runs the repository's import-time code natively."""
        import sys

        root = self.repo.root
        if sys.path[0] != root:
            sys.path.insert(0, root)
        try:
            obj = importlib.import_module(modname)
            for p in qual.split("."):
                obj = getattr(obj, p)
        except Exception as e:  # noqa: BLE001
            raise Unsupported(f"cannot evaluate constant {modname}:{qual} natively: {type(e).__name__}: {e}")
        f = getattr(sys.modules.get(modname), "__file__", "") or ""
        if not f.startswith(root):
            raise Unsupported(f"module {modname} was imported from {f}, not from {root}")
        self.used_intrinsics.add(f"constant {modname}:{qual} folded by importing the module from the tree under verification")
        return obj

    def external_module(self, name):
        try:
            return ExternalRef(importlib.import_module(name), name)
        except Exception as e:  # noqa: BLE001
            raise Unsupported(f"cannot import external module {name}: {e}")

    def external(self, qual):
        parts = qual.split(".")
        for i in range(len(parts), 0, -1):
            try:
                obj = importlib.import_module(".".join(parts[:i]))
            except Exception:  # noqa: BLE001
                continue
            try:
                for p in parts[i:]:
                    obj = getattr(obj, p)
            except AttributeError:
                continue
            return ExternalRef(obj, qual)
        raise Unsupported(f"cannot resolve external {qual}")

    def resolve_imported(self, modname, name):
        m = self.repo.module(modname)
        if m is None:
            return self.external(f"{modname}.{name}")
        return self.module_name(m, name)

    def ex_Attribute(self, node, frame):
        obj = self.eval(node.value, frame)
        return self.getattr(obj, node.attr, frame)

    def getattr(self, obj, attr, frame=None):
        return self.intr.getattr(obj, attr, frame)

    def setattr(self, obj, attr, val, frame=None):
        if isinstance(obj, HObj):
            obj.fields[attr] = val
            return
        if isinstance(obj, ExcVal):
            obj.attrs[attr] = val
            return
        if isinstance(obj, FuncRef):
            return  # function attributes (decorator flags) are not modelled
        if isinstance(obj, SAny) and attr in self.contract.obj_fields:
            arr = self.heap_field_array(attr)
            self.heap_fields[attr] = z3.Store(arr, obj.t, self.to_field_term(val, self.contract.obj_fields[attr]))
            return
        raise Unsupported(f"attribute store on {obj!r}")

    # component heap for opaque objects: one array per declared field (DESIGN 2.2)
    def heap_field_array(self, attr):
        if attr not in self.heap_fields:
            kind = self.contract.obj_fields[attr]
            self.heap_fields[attr] = z3.Const(f"heap.{attr}", z3.ArraySort(ObjSort, ELEM_SORT[kind]))
        return self.heap_fields[attr]

    def to_field_term(self, val, kind):
        if kind == "any":
            return self.box(val)
        t, k = self.lift(val)
        if k != kind:
            raise Unsupported(f"field of kind {kind} assigned a {k}")
        return t

    def box(self, val):
        """Obj-sorted denotation of a value stored where only opaque values fit."""
        if isinstance(val, SAny):
            return val.t
        if val is None:
            return z3.Const("box.None", ObjSort)
        if isinstance(val, (HObj, HDict, HList)):
            key = id(getattr(val, "orig", val))
            if key not in self.boxes:
                c = z3.Const(f"box.{len(self.boxes)}", ObjSort)
                self.boxes[key] = (c, val)
            return self.boxes[key][0]
        if isinstance(val, bool):
            raise Unsupported(f"boxing of {val!r}")
        if isinstance(val, (SInt, int)):
            return BOX_INT(self.to_int_term(val))
        if isinstance(val, (SStr, str)) and not isinstance(val, SMarkup):
            return BOX_STR(self.to_str_term(val))
        raise Unsupported(f"boxing of {val!r}")

    def unbox(self, t):
        t = z3.simplify(t)
        for c, v in self.boxes.values():
            if c.eq(t):
                return v
        for c, v in self.boxes.values():
            if self.prove_now(t == c):
                return v
        return SAny(t)

    def ex_Await(self, node, frame):
        return self.eval(node.value, frame)  # await-erasure (C03 proves the twins equal)

    def ex_NamedExpr(self, node, frame):
        v = self.eval(node.value, frame)
        frame.store(node.target.id, v)
        return v

    def ex_Lambda(self, node, frame):
        return FuncRef(frame.mod, node, cls=frame.cls, closure=frame, qual=f"{frame.fname}.<lambda>")

    def ex_Tuple(self, node, frame):
        out = []
        for e in node.elts:
            if isinstance(e, ast.Starred):
                items = self.iter_concrete(self.eval(e.value, frame))
                if items is None:
                    raise Unsupported("starred symbolic")
                out.extend(items)
            else:
                out.append(self.eval(e, frame))
        return tuple(out)

    def ex_List(self, node, frame, target_hint=None):
        items = list(self.ex_Tuple(node, frame))
        kind = self.contract.local_kind(frame.fname, target_hint) if (not items and target_hint) else None
        if kind == "join":
            return HJoin("")
        if callable(kind):
            return kind(self, target_hint)  # a contract-supplied ghost abstraction of this local list
        return HList(items=items)

    def ex_Set(self, node, frame):
        return Tagged("set", tuple(self.eval(e, frame) for e in node.elts))

    def ex_Dict(self, node, frame):
        d = {}
        for k, v in zip(node.keys, node.values):
            if k is None:
                src = self.eval(v, frame)
                if isinstance(src, HDict) and src.concrete is not None:
                    d.update(src.concrete)
                    continue
                if isinstance(src, HDict) and all(kk is None for kk in node.keys):
                    return self.dict_union([self.eval(vv, frame) for vv in node.values])
                raise Unsupported("dict ** of symbolic mapping")
            kv = self.eval(k, frame)
            if not self.is_concrete(kv):
                raise Unsupported("dict literal with symbolic key")
            d[kv] = self.eval(v, frame)
        return HDict(concrete=d)

    def dict_union(self, ds):
        """{**a, **b, ...} of symbolic dicts: later mappings win."""
        acc = None
        for d in ds:
            if not isinstance(d, HDict):
                raise Unsupported("dict ** of non-dict")
            if d.concrete is not None:
                if d.concrete:
                    raise Unsupported("dict ** mixing concrete and symbolic mappings")
                continue
            if acc is None:
                acc = HDict(ksort=d.ksort, vkind=d.vkind, has=d.has, val=d.val)
                continue
            if (acc.ksort, acc.vkind) != (d.ksort, d.vkind):
                raise Unsupported("dict ** of differently typed mappings")
            k = z3.Const("k!u", ELEM_SORT[d.ksort])
            has = z3.Lambda([k], z3.Or(z3.Select(acc.has, k), z3.Select(d.has, k)))
            val = z3.Lambda([k], z3.If(z3.Select(d.has, k), z3.Select(d.val, k), z3.Select(acc.val, k)))
            acc = HDict(ksort=d.ksort, vkind=d.vkind, has=has, val=val)
        return acc if acc is not None else HDict(concrete={})

    def ex_JoinedStr(self, node, frame):
        parts = []
        for p in node.values:
            if isinstance(p, ast.Constant):
                parts.append(p.value)
            else:
                v = self.eval(p.value, frame)
                conv = p.conversion
                if p.format_spec is not None:
                    fs = self.eval(p.format_spec, frame)
                    if fs == "04x" and isinstance(v, (SInt, int)) and not isinstance(v, bool):
                        from .intrinsics_lib import hex04
                        parts.append(hex04(self.intr, v))
                        continue
                    parts.append(self.fresh("fmt", "str"))
                    continue
                if conv == 114:  # !r
                    parts.append(self.intr.repr_(v))
                else:
                    parts.append(self.intr.str_(v))
        out = ""
        for p in parts:
            out = self.binop(ast.Add(), out, p) if out != "" else p
        return out

    def ex_FormattedValue(self, node, frame):
        return self.intr.str_(self.eval(node.value, frame))

    def ex_IfExp(self, node, frame):
        c = self.truth(self.eval(node.test, frame))
        if self.pure and not isinstance(c, bool):
            a = self.eval(node.body, frame)
            b = self.eval(node.orelse, frame)
            ta, ka = self.lift(a)
            tb, kb = self.lift(b)
            if ka != kb:
                raise Unsupported("pure if-expression with differently typed branches")
            return wrap(z3.If(c, ta, tb), ka)
        if self.decide(c):
            return self.eval(node.body, frame)
        return self.eval(node.orelse, frame)

    def ex_BoolOp(self, node, frame):
        is_and = isinstance(node.op, ast.And)
        if self.pure:
            terms = []
            for e in node.values:
                c = self.truth(self.eval(e, frame))
                if isinstance(c, bool):
                    if c != is_and:  # short-circuit value
                        if not terms:
                            return c
                        terms.append(z3.BoolVal(c))
                        break
                    continue
                terms.append(c)
            if not terms:
                return is_and
            return self.to_bool_value(z3.And(*terms) if is_and else z3.Or(*terms))
        v = None
        for i, e in enumerate(node.values):
            v = self.eval(e, frame)
            if i == len(node.values) - 1:
                return v
            c = self.truth(v)
            d = self.decide(c)
            if is_and and not d:
                return v
            if (not is_and) and d:
                return v
        return v

    def ex_UnaryOp(self, node, frame):
        v = self.eval(node.operand, frame)
        if isinstance(node.op, ast.Not):
            c = self.truth(v)
            return (not c) if isinstance(c, bool) else self.to_bool_value(z3.Not(c))
        if isinstance(node.op, ast.USub):
            if isinstance(v, SInt):
                return SInt(-v.t)
            if isinstance(v, SReal):
                return SReal(-v.t, v.num)
            if isinstance(v, SBool):
                return SInt(-self.to_int_term(v))
            if self.is_concrete(v):
                return self.concrete_op(lambda: -v)
        if isinstance(node.op, ast.UAdd) and self.is_concrete(v):
            return self.concrete_op(lambda: +v)
        raise Unsupported(f"unary {type(node.op).__name__} on {v!r}")

    def concrete_op(self, thunk):
        try:
            return thunk()
        except Exception as e:  # noqa: BLE001
            exc = ExcVal(type(e).__name__)
            exc.pyclass = type(e)
            raise RaiseSig(exc, primitive=f"concrete operation: {type(e).__name__}: {str(e)[:60]}")

    def ex_BinOp(self, node, frame):
        a = self.eval(node.left, frame)
        b = self.eval(node.right, frame)
        return self.binop(node.op, a, b)

    def binop(self, op, a, b):
        return self.intr.binop(op, a, b)

    def ex_Compare(self, node, frame):
        left = self.eval(node.left, frame)
        result = None
        for op, rn in zip(node.ops, node.comparators):
            right = self.eval(rn, frame)
            r = self.compare(op, left, right)
            c = self.truth(r)
            if len(node.ops) == 1:
                return r
            if self.pure:
                result = c if result is None else (z3.And(result, c) if not (isinstance(result, bool) or isinstance(c, bool)) else (result and c if isinstance(result, bool) and isinstance(c, bool) else (c if result is True else (result if c is True else False))))
            else:
                if not self.decide(c):
                    return False
            left = right
        if self.pure:
            return self.to_bool_value(result)
        return True

    def compare(self, op, a, b):
        return self.intr.compare(op, a, b)

    def ex_Subscript(self, node, frame):
        obj = self.eval(node.value, frame)
        key = self.eval_index(node.slice, frame)
        return self.subscript(obj, key)

    def eval_index(self, sl, frame):
        if isinstance(sl, ast.Slice):
            lo = self.eval(sl.lower, frame) if sl.lower is not None else None
            hi = self.eval(sl.upper, frame) if sl.upper is not None else None
            step = self.eval(sl.step, frame) if sl.step is not None else None
            return ("slice", lo, hi, step)
        return self.eval(sl, frame)

    def subscript(self, obj, key):
        return self.intr.subscript(obj, key)

    def store_subscript(self, obj, key, val):
        return self.intr.store_subscript(obj, key, val)

    def ex_Starred(self, node, frame):
        raise Unsupported("starred expression")

    def ex_Call(self, node, frame):
        # super() special form
        if isinstance(node.func, ast.Name) and node.func.id == "super" and not node.args:
            selfv = frame.locals.get(frame.first_param) if frame.first_param else frame.self_val
            return SuperRef(selfv, frame.cls)
        if self.pure and isinstance(node.func, ast.Name) and node.func.id == "old":
            return self.eval_old(node.args[0], frame)
        if self.pure and isinstance(node.func, ast.Name) and node.func.id == "implies" and len(node.args) == 2:
            a = self.truth(self.eval(node.args[0], frame))
            if not isinstance(a, bool):
                a = z3.simplify(a)
                a = True if z3.is_true(a) else (False if z3.is_false(a) else a)
            if a is False:
                return True
            b = self.truth(self.eval(node.args[1], frame))
            if a is True:
                return self.to_bool_value(b)
            if isinstance(b, bool):
                return True if b else self.to_bool_value(z3.Not(a))
            return SBool(z3.Implies(a, b))
        if self.pure and isinstance(node.func, ast.Name) and node.func.id in ("forall", "exists") and len(node.args) in (1, 2) and isinstance(node.args[0], ast.Lambda):
            lam = node.args[0]
            names = [a.arg for a in lam.args.args]
            kind = node.args[1].value if len(node.args) == 2 and isinstance(node.args[1], ast.Constant) else "int"
            self.qn = getattr(self, "qn", 0) + 1
            bound = [z3.Const(f"{n}?{self.qn}", ELEM_SORT[kind]) for n in names]
            fr = Frame(frame.mod, parent=frame, cls=frame.cls, fname=frame.fname)
            fr.old = getattr(frame, "old", None)
            for n, b in zip(names, bound):
                fr.locals[n] = wrap(b, kind)
            body = self.truth(self.eval(lam.body, fr))
            if isinstance(body, bool):
                return body
            return SBool(z3.ForAll(bound, body) if node.func.id == "forall" else z3.Exists(bound, body))
        if self.pure and isinstance(node.func, ast.Name) and node.func.id == "ite" and len(node.args) == 3:
            c = self.truth(self.eval(node.args[0], frame))
            if isinstance(c, bool):
                return self.eval(node.args[1] if c else node.args[2], frame)
        fv = self.eval(node.func, frame)
        args, kwargs = self.eval_args(node, frame)
        return self.call(fv, args, kwargs, frame, node)

    def eval_args(self, node, frame):
        args = []
        for a in node.args:
            if isinstance(a, ast.Starred):
                items = self.iter_concrete(self.eval(a.value, frame))
                if items is None:
                    raise Unsupported("*args of symbolic sequence")
                args.extend(items)
            elif isinstance(a, (ast.GeneratorExp, ast.ListComp)) :
                args.append(self.comprehension(a, frame))
            else:
                args.append(self.eval(a, frame))
        kwargs = {}
        for k in node.keywords:
            if k.arg is None:
                d = self.eval(k.value, frame)
                if isinstance(d, HDict) and d.concrete is not None:
                    kwargs.update(d.concrete)
                else:
                    raise Unsupported("**kwargs of symbolic mapping")
            else:
                kwargs[k.arg] = self.eval(k.value, frame)
        return args, kwargs

    def ex_ListComp(self, node, frame, target_hint=None):
        r = self.comprehension(node, frame)
        if is_tagged(r, "gen"):
            raise Unsupported("list comprehension over symbolic sequence")
        return HList(items=list(r))

    def ex_GeneratorExp(self, node, frame):
        return self.comprehension(node, frame)

    def ex_SetComp(self, node, frame):
        r = self.comprehension(node, frame)
        return Tagged("set", tuple(r))

    def ex_DictComp(self, node, frame):
        if len(node.generators) != 1:
            raise Unsupported("nested dict comprehension")
        g = node.generators[0]
        items = self.iter_concrete(self.eval(g.iter, frame))
        if items is None:
            raise Unsupported("dict comprehension over symbolic iterable")
        fr = Frame(frame.mod, parent=frame, cls=frame.cls, fname=frame.fname)
        d = {}
        for x in items:
            self.assign(g.target, x, fr)
            if all(self.decide(self.truth(self.eval(c, fr))) for c in g.ifs):
                k = self.eval(node.key, fr)
                if not self.is_concrete(k):
                    raise Unsupported("dict comprehension symbolic key")
                d[k] = self.eval(node.value, fr)
        return HDict(concrete=d)

    def comprehension(self, node, frame):
        """Concrete iterables are unrolled; a single generator over a symbolic
        sequence is returned as a deferred ('gen', node, frame, seq) for the
        consuming intrinsic (sum/any/all/join/list/reduce)."""
        gens = node.generators
        first = self.eval(gens[0].iter, frame)
        items = self.iter_concrete(first)
        if items is None:
            seq = self.as_symbolic_seq(first)
            if seq is None or len(gens) != 1:
                raise Unsupported(f"comprehension over {first!r}")
            return Tagged("gen", node, frame, seq)
        out = []
        fr = Frame(frame.mod, parent=frame, cls=frame.cls, fname=frame.fname)

        def rec(gi, its):
            g = gens[gi]
            for x in its:
                self.assign(g.target, x, fr)
                ok = True
                for c in g.ifs:
                    if not self.decide(self.truth(self.eval(c, fr))):
                        ok = False
                        break
                if not ok:
                    continue
                if gi + 1 < len(gens):
                    nxt = self.iter_concrete(self.eval(gens[gi + 1].iter, fr))
                    if nxt is None:
                        raise Unsupported("nested comprehension over symbolic iterable")
                    rec(gi + 1, nxt)
                else:
                    out.append(self.eval(node.elt, fr))

        rec(0, items)
        return out

    # ------------------------------------------------------------ iteration
    def iter_concrete(self, v) -> Optional[list]:
        from .intrinsics_lib import SBytes, bytes_unroll

        if isinstance(v, SBytes):
            return bytes_unroll(self.intr, v)
        if isinstance(v, Tagged):
            if v[0] == "set":
                return list(v[1])
            if v[0] == "bytes":
                return list(v[1])
            return None
        if isinstance(v, tuple):
            return list(v)
        if isinstance(v, list):
            return list(v)
        if isinstance(v, HList) and v.items is not None:
            return list(v.items)
        if isinstance(v, str):
            return list(v)
        if isinstance(v, HDict) and v.concrete is not None:
            return list(v.concrete.keys())
        if isinstance(v, range):
            return list(v)
        if isinstance(v, (frozenset, set)):
            return sorted(v, key=repr)
        return None

    def as_symbolic_seq(self, v) -> Optional[SSeq]:
        if isinstance(v, SSeq):
            return v
        if isinstance(v, HListView):
            return SSeq(v.seq, "any")
        if isinstance(v, HList) and v.sym is not None:
            return v.sym
        if isinstance(v, SStr):
            return SSeq(v.t, "char")
        if is_tagged(v, "dictvalues") and v[1].concrete is None:
            d = v[1]
            F = z3.Function(f"dictvalues_{d.ksort}_{d.vkind}", d.has.sort(), d.val.sort(), z3.SeqSort(ELEM_SORT[d.vkind]))
            self.used_intrinsics.add("dict.values() of a symbolic dict: an uninterpreted sequence determined by the dict")
            return SSeq(F(d.has, d.val), d.vkind)
        return None

    def seq_at(self, seq: SSeq, i):
        inner = getattr(seq, "inner", None)
        if inner is not None:   # enumerate(seq, start): element i is (start + i, seq[i])
            start = getattr(seq, "start", 0)
            idx = self.binop(ast.Add(), start, SInt(i) if not isinstance(i, int) else i)
            return (idx, self.seq_at(inner, i))
        if getattr(seq, "rev", False):
            i = z3.Length(seq.t) - 1 - i
        if seq.elem == "char":
            return SStr(z3.SubSeq(seq.t, i, z3.IntVal(1)))
        return wrap(seq.t[i], seq.elem)

    # ---------------------------------------------------------------- calls
    def call(self, fv, args, kwargs, frame, node=None):
        if isinstance(fv, SpecRef):
            return fv.fn.sym(self, *args, **kwargs)
        if isinstance(fv, PyCallable):
            return fv.fn(self, args, kwargs)
        if isinstance(fv, FuncRef):
            return self.call_repo_function(fv, args, kwargs, None, frame)
        if isinstance(fv, BoundMethod):
            return self.call_repo_function(fv.func, [fv.self_val] + list(args), kwargs, fv.self_val, frame)
        if isinstance(fv, ClassRef):
            return self.construct(fv, args, kwargs, frame)
        if isinstance(fv, (ExternalRef, BoundIntrinsic)):
            return self.intr.call(fv, args, kwargs, frame)
        raise Unsupported(f"call of {fv!r}")

    def target_of(self, fref: FuncRef):
        if fref.cls is not None and fref.closure is None:
            return f"{fref.mod.name}:{fref.cls[1].name}.{fref.node.name}"
        if fref.closure is None and not isinstance(fref.node, ast.Lambda):
            return f"{fref.mod.name}:{fref.node.name}"
        return None

    def call_repo_function(self, fref, args, kwargs, self_val, frame):
        target = self.target_of(fref)
        mname = getattr(fref.node, "name", None)
        if mname in self.contract.opaque_methods and target != self.contract.base:
            # dynamic dispatch on AST nodes (DESIGN 2.3 (d)): an opaque effectful call
            self.trace_event("call", mname, tuple(args[1:] if self_val is not None else args))
            self.used_intrinsics.add(f"dynamic dispatch {mname}(): opaque call (any subclass), result unconstrained; recorded in the ghost call trace")
            rt = self.contract.opaque_methods[mname]
            if isinstance(rt, tuple) and rt[0] == "cm":
                rt = rt[1]
            if callable(rt) and not hasattr(rt, "fresh"):
                extra = {"kwargs": kwargs} if getattr(rt, "wants_kwargs", False) else {}
                return rt(self, self_val if self_val is not None else (args[0] if args else None), mname, list(args[1:] if self_val is not None else args), **extra)
            return rt.fresh(self, f"{mname}_result") if rt is not None else None
        # decorators
        decos = [] if isinstance(fref.node, ast.Lambda) else fref.node.decorator_list
        handled = self.intr.apply_decorators(fref, decos, args, kwargs, self_val, frame)
        if handled is not NotImplemented:
            return handled
        if (
            target
            and not self.pure
            and target in self.registry
            and target != self.contract.base
            and target not in self.contract.inline
            and not self.registry[target].always_inline
        ):
            return self.apply_contract(self.registry[target], fref, args, kwargs)
        if target and target == self.contract.base and self.depth > 0 and target in self.registry and not getattr(fref, "undecorated", False):
            # recursive call: use own contract (induction on call depth)
            return self.apply_contract(self.registry[target], fref, args, kwargs)
        if target:
            self.inlined.add(target)
        saved = None
        node = fref.node
        if isinstance(node, ast.Lambda):
            return self.call_function(fref, args, kwargs, self_val)
        # generator functions can only be consumed by modelled constructs
        gen_target = _is_generator(node) and self.depth <= 0 and target == self.contract.base
        if _is_generator(node) and not gen_target:
            return Tagged("genfunc", fref, args, kwargs, self_val)
        self.depth += 1
        if self.depth > MAX_INLINE_DEPTH:
            raise Unsupported(f"inline depth exceeded at {fref.qual}")
        try:
            fr = Frame(fref.mod, parent=fref.closure, cls=fref.cls, fname=(target.split(":")[1] if target else fref.qual), self_val=self_val)
            fr.fnode = node
            if gen_target:
                # a generator function verified as the target: run to exhaustion by an arbitrary consumer that takes every item;
                # each yield is an event of the ghost trace (early close by the consumer: GeneratorExit at a yield is not modelled)
                fr.yield_handler = lambda v: self.trace_event("yield", v)
                self.used_intrinsics.add("generator target: the consumer takes every item (a consumer that stops early closes the generator at a yield; `with` blocks around the yield then exit - not modelled)")
            self.bind_params(fr, node.args, args, kwargs, fref)
            try:
                self.exec_block(node.body, fr)
            except ReturnSig as r:
                return r.value
            return None
        finally:
            self.depth -= 1

    def construct(self, cref: ClassRef, args, kwargs, frame):
        return self.intr.construct(cref, args, kwargs, frame)

    # ------------------------------------------------------- callee contract
    def apply_contract(self, c, fref, args, kwargs):
        self.used_contracts.add(c.target)
        fr = Frame(fref.mod, fname=f"<contract {c.target}>")
        self.bind_params(fr, fref.node.args, args, kwargs, fref)
        for gname, gty in c.ghost.items():
            # ghost (universally quantified) variables of the callee: any fresh instance may be assumed
            fr.locals[gname] = gty.fresh(self, f"{gname}@{c.qual}")
        tag = c.target.split(":")[1]
        saved_pure = self.pure
        old_snap = self.snapshot(fr.locals)
        fr.old = old_snap
        for k, clause in enumerate(c.pre):
            self.oblige(f"pre@{tag}.{k}", self.spec_bool(clause, fr), f"precondition of {c.target}: {clause}")
        # exceptional outcomes (iff-conditions, or None = may raise)
        for exc_name, cond in c.raises.items():
            if cond is None:
                b = self.fresh(f"raises_{exc_name}", "bool").t
            else:
                b = self.spec_bool(cond, fr)
            if self.decide(b):
                # frame effects on the raising path
                self.havoc_modifies(c, fr, exceptional=True)
                excv = self.make_repo_exc(exc_name, fref.mod)
                if c.post_exc.get(exc_name):
                    tm = self.repo.module("liquid2.token")
                    if tm is not None and "ErrorToken" in tm.classes:
                        excv.attrs["token"] = HObj(ClassRef("ErrorToken", tm, tm.classes["ErrorToken"]),
                                                   {"index": self.fresh("err_index", "int"), "value": self.fresh("err_value", "str"), "__open__": True})
                fr.locals["exc"] = excv
                for clause in c.post_exc.get(exc_name, []):
                    self.assume(self.spec_bool(clause, fr))
                if c.post_exc.get(exc_name) and self.check_sat([]) == z3.unsat:
                    # the callee's exceptional postcondition rules this outcome out for these arguments
                    raise PathEnd(f"contract of {c.target} excludes {exc_name} here")
                raise RaiseSig(excv)
        self.havoc_modifies(c, fr)
        res = c.returns.fresh(self, f"ret_{tag}") if c.returns is not None else None
        if c.returns is None and any("result" in cl for cl in c.post):
            raise Unsupported(f"contract of {c.target} mentions `result` but declares no `returns` type (needed to use it at call sites)")
        fr.locals["result"] = res
        for clause in c.post:
            self.assume(self.spec_bool(clause, fr))
        # vacuity guard: a callee contract must not contradict the caller's path. A single infeasible
        # combination (e.g. a result case the postcondition excludes) just ends this path; a callee whose
        # contract kills *every* path it is applied on is reported (verify.py) as inconsistent.
        st = self.callee_stats.setdefault(c.target, [0, 0])
        st[0] += 1
        if self.check_sat([]) == z3.unsat:
            raise PathEnd(f"contract of {c.target} excludes this combination")
        st[1] += 1
        return res

    def make_repo_exc(self, name, mod):
        ex = self.repo.module("liquid2.exceptions")
        if ex and name in ex.classes:
            return ExcVal(name, clsref=ClassRef(name, ex, ex.classes[name]), attrs={"token": None, "template_name": None})
        return ExcVal(name)

    def havoc_modifies(self, c, fr, exceptional=False):
        for path in c.modifies:
            oname, _, fname = path.partition(".")
            obj = fr.locals.get(oname)
            if obj is None:
                continue
            if not fname:
                if isinstance(obj, (HList, HJoin, HDict, HSpecList)):
                    self.havoc_heap(oname, obj, None)
                continue
            if isinstance(obj, HObj):
                cur = obj.fields.get(fname)
                if isinstance(cur, SLazy):
                    cur = self.resolve_lazy(cur)
                if isinstance(cur, (HList, HJoin, HDict, HSpecList)):
                    self.havoc_heap(fname, cur, None)
                else:
                    obj.fields[fname] = self.havoc_value(fname, cur)

    # ------------------------------------------------------------- spec mode
    def snapshot(self, env):
        """Copy of the heap reachable from env (for old())."""
        memo = {}

        def cp(v):
            if isinstance(v, HObj):
                if id(v) in memo:
                    return memo[id(v)]
                n = HObj(v.cls, {}, v.label)
                n.orig = getattr(v, "orig", v)
                memo[id(v)] = n
                for k, x in v.fields.items():
                    n.fields[k] = cp(x)
                return n
            if isinstance(v, HList):
                if id(v) in memo:
                    return memo[id(v)]
                n = HList(items=[cp(x) for x in v.items] if v.items is not None else None, sym=v.sym)
                n.orig = getattr(v, "orig", v)
                memo[id(v)] = n
                return n
            if isinstance(v, HJoin):
                n = HJoin(v.acc)
                return n
            if isinstance(v, HSpecList):
                if id(v) in memo:
                    return memo[id(v)]
                n = HSpecList(v.name, v.hooks, dict(v.state))
                n.orig = getattr(v, "orig", v)
                memo[id(v)] = n
                return n
            if isinstance(v, HDict):
                if id(v) in memo:
                    return memo[id(v)]
                n = HDict(concrete={k: cp(x) for k, x in v.concrete.items()} if v.concrete is not None else None,
                          ksort=v.ksort, vkind=v.vkind, has=v.has, val=v.val, order=v.order)
                n.list_default = getattr(v, "list_default", False)
                n.orig = getattr(v, "orig", v)
                memo[id(v)] = n
                return n
            if isinstance(v, Tagged):
                return v
            if isinstance(v, tuple):
                return tuple(cp(x) for x in v)
            return v

        out = {k: cp(v) for k, v in env.items()}
        out["__heap_fields__"] = dict(self.heap_fields)
        return out

    def eval_old(self, node, frame):
        f = frame
        old = None
        while f is not None:
            old = getattr(f, "old", None)
            if old is not None:
                break
            f = f.parent
        if old is None:
            old = getattr(self, "entry_old", None)   # loop invariants: the entry state of the function under contract
        if old is None:
            raise Unsupported("old() outside a contract")
        fr = Frame(frame.mod, locals_=dict(old), fname=frame.fname)
        fr.old = old
        saved = self.heap_fields
        self.heap_fields = dict(old.get("__heap_fields__", saved))
        # arrays first touched inside old() denote the entry heap too
        try:
            return self.eval(node, fr)
        finally:
            for k, v in self.heap_fields.items():
                saved.setdefault(k, v)
            self.heap_fields = saved

    def spec_eval(self, clause, frame, extra=None):
        node = clause if isinstance(clause, ast.AST) else ast.parse(clause, mode="eval").body
        fr = Frame(frame.mod, parent=frame, cls=frame.cls, fname=frame.fname)
        fr.old = getattr(frame, "old", None)
        if extra:
            fr.locals.update(extra)
        saved = self.pure
        self.pure = True
        try:
            return self.eval(node, fr)
        finally:
            self.pure = saved

    def spec_bool(self, clause, frame, extra=None):
        v = self.spec_eval(clause, frame, extra)
        c = self.truth(v)
        return z3.BoolVal(c) if isinstance(c, bool) else c


_MUTATORS = {
    "append", "extend", "insert", "pop", "remove", "clear", "sort", "reverse", "update", "setdefault",
    "add", "discard", "popitem", "move_to_end", "appendleft", "popleft", "write", "push",
}


def _is_generator(node):
    for n in _walk_no_nested(node):
        if isinstance(n, (ast.Yield, ast.YieldFrom)):
            return True
    return False


def _walk_no_nested(fn):
    stack = list(fn.body)
    while stack:
        n = stack.pop()
        yield n
        for ch in ast.iter_child_nodes(n):
            if isinstance(ch, (ast.FunctionDef, ast.AsyncFunctionDef, ast.Lambda, ast.ClassDef)):
                continue
            stack.append(ch)
