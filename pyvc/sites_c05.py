"""C05 (data side): attribute access on values that come from the caller's data. A template must not make the engine read an
arbitrary Python attribute or call an arbitrary method of a data object: every `v.attr` where `v` may hold caller data is either
a documented protocol hook or dominated by an isinstance test of `v` (so the attribute is that of a known class)."""
from __future__ import annotations

import ast

from .repo import Repo
from .frame import function_defs, own_nodes, class_bases
from .structural import register

DATA_SOURCES = {"evaluate", "evaluate_async", "get", "get_async", "resolve", "get_item", "get_item_async", "_get_item", "getitem", "_getitem"}
CONVERTERS = {"str", "int", "float", "bool", "list", "tuple", "dict", "set", "len", "repr", "to_liquid_string", "_to_liquid_string", "to_int", "num_arg", "int_arg",
              "decimal_arg", "sequence_arg", "mapping_arg", "bool_arg", "string_arg", "Markup", "escape", "soft_str", "markupsafe_escape", "Decimal", "sorted", "reversed",
              "enumerate", "zip", "_flatten", "iter", "range", "isinstance", "hasattr", "is_undefined", "is_truthy", "type", "id", "hash", "abs", "round", "min", "max", "sum",
              "_lower", "_ints", "html_escape", "quote_plus", "unquote_plus", "json_dumps", "dumps", "unescape", "next"}
SKIP_PARAMS = {"self", "cls", "context", "environment", "env", "_env", "token", "static_context", "buffer", "stream", "template", "name", "fmt_default"}
PROTOCOL_ATTRS = {"__liquid__", "__html__", "__getitem_async__", "force_liquid_default", "__class__", "poke", "path", "hint", "token"}


def _is_data_annotation(ann):
    if ann is None:
        return True
    t = ast.unparse(ann)
    return t in ("object", "Any", "object | None", "Any | None") or t.startswith("object |") or "| object" in t


def data_vars(fn, is_filter):
    """name -> line from which it is data (0 = from entry). Parameters typed object/Any, locals bound from data sources."""
    dv = {}
    args = fn.args
    for a in list(args.posonlyargs) + list(args.args) + list(args.kwonlyargs):
        if a.arg in SKIP_PARAMS:
            continue
        if _is_data_annotation(a.annotation) or is_filter:
            # filter arguments arrive as evaluated template values whatever the annotation says
            dv[a.arg] = 0
    if args.vararg and is_filter:
        dv[args.vararg.arg] = 0
    changed = True
    while changed:
        changed = False
        for n in own_nodes(fn):
            pairs = []
            if isinstance(n, ast.Assign):
                pairs = [(t, n.value) for t in n.targets]
            elif isinstance(n, ast.AnnAssign) and n.value is not None:
                pairs = [(n.target, n.value)]
            elif isinstance(n, ast.NamedExpr):
                pairs = [(n.target, n.value)]
            elif isinstance(n, (ast.For, ast.AsyncFor)):
                pairs = [(n.target, n.iter)]
            elif isinstance(n, ast.comprehension):
                pairs = [(n.target, n.iter)]
            for tgt, val in pairs:
                if _holds_data(val, dv):
                    for x in ast.walk(tgt):
                        if isinstance(x, ast.Name) and x.id not in dv and x.id not in SKIP_PARAMS:
                            dv[x.id] = getattr(n, "lineno", 0)
                            changed = True
    return dv


def _holds_data(expr, dv):
    """May the value of expr be (an element of) caller data?"""
    if isinstance(expr, ast.Await):
        return _holds_data(expr.value, dv)
    if isinstance(expr, ast.Name):
        return expr.id in dv
    if isinstance(expr, ast.Subscript):
        return _holds_data(expr.value, dv)
    if isinstance(expr, ast.Starred):
        return _holds_data(expr.value, dv)
    if isinstance(expr, ast.Call):
        f = expr.func
        if isinstance(f, ast.Attribute) and f.attr in ("evaluate", "evaluate_async"):
            return True
        if isinstance(f, ast.Attribute) and f.attr in DATA_SOURCES and isinstance(f.value, ast.Name) and f.value.id in ("context", "ctx", "static_context"):
            return True
        if isinstance(f, ast.Name) and f.id in DATA_SOURCES:
            return True
        if isinstance(f, ast.Name) and f.id in ("iter", "reversed", "enumerate", "zip", "list", "tuple", "sorted", "islice", "chain", "next", "cast"):
            return any(_holds_data(a, dv) for a in expr.args)
        if isinstance(f, ast.Attribute) and f.attr in ("items", "values", "keys", "get", "pop", "copy") and _holds_data(f.value, dv):
            return True
        return False
    if isinstance(expr, (ast.BoolOp,)):
        return any(_holds_data(v, dv) for v in expr.values)
    if isinstance(expr, ast.IfExp):
        return _holds_data(expr.body, dv) or _holds_data(expr.orelse, dv)
    if isinstance(expr, (ast.Tuple, ast.List)):
        return any(_holds_data(v, dv) for v in expr.elts)
    if isinstance(expr, (ast.ListComp, ast.GeneratorExp)):
        return _holds_data(expr.elt, dv)
    return False


def _isinstance_of(test, var, positive=True):
    """Does `test` being true (positive) / false (negative) imply isinstance(var, T) for some T?"""
    if isinstance(test, ast.Call) and isinstance(test.func, ast.Name) and test.func.id in ("isinstance", "is_undefined") and test.args and isinstance(test.args[0], ast.Name) and test.args[0].id == var:
        return positive
    if isinstance(test, ast.UnaryOp) and isinstance(test.op, ast.Not):
        return _isinstance_of(test.operand, var, not positive)
    if isinstance(test, ast.BoolOp):
        if isinstance(test.op, ast.And) and positive:
            return any(_isinstance_of(v, var, True) for v in test.values)
        if isinstance(test.op, ast.Or) and not positive:
            return any(_isinstance_of(v, var, False) for v in test.values)
    return False


def _exits(body):
    return bool(body) and isinstance(body[-1], (ast.Raise, ast.Return, ast.Continue, ast.Break))


def guarded(fn, node, var):
    """Is `node` (an Attribute on Name var) dominated by an isinstance test of var?"""
    # path from fn to node
    path = []

    def find(cur, acc):
        if cur is node:
            path.extend(acc)
            return True
        for fld, val in ast.iter_fields(cur):
            if isinstance(val, list):
                for i, ch in enumerate(val):
                    if isinstance(ch, ast.AST) and find(ch, acc + [(cur, fld, i)]):
                        return True
            elif isinstance(val, ast.AST):
                if find(val, acc + [(cur, fld, None)]):
                    return True
        return False

    find(fn, [])
    for parent, fld, idx in path:
        if isinstance(parent, ast.If):
            if fld == "body" and _isinstance_of(parent.test, var, True):
                return True
            if fld == "orelse" and _isinstance_of(parent.test, var, False):
                return True
        if isinstance(parent, ast.IfExp):
            if fld == "body" and _isinstance_of(parent.test, var, True):
                return True
            if fld == "orelse" and _isinstance_of(parent.test, var, False):
                return True
        if isinstance(parent, ast.BoolOp) and isinstance(parent.op, ast.And) and idx:
            if any(_isinstance_of(v, var, True) for v in parent.values[:idx]):
                return True
        if isinstance(parent, ast.BoolOp) and isinstance(parent.op, ast.Or) and idx:
            if any(_isinstance_of(v, var, False) for v in parent.values[:idx]):
                return True
        if isinstance(parent, ast.comprehension) and fld == "ifs" and idx:
            if any(_isinstance_of(v, var, True) for v in parent.ifs[:idx]):
                return True
        if isinstance(parent, (ast.ListComp, ast.GeneratorExp, ast.SetComp, ast.DictComp)) and fld in ("elt", "key", "value"):
            if any(_isinstance_of(t, var, True) for g in parent.generators for t in g.ifs):
                return True
        if isinstance(parent, ast.match_case):
            return True   # structural pattern: the subject's class was matched
        # earlier statements of an enclosing block: `if not isinstance(v, T): raise/return` or `assert isinstance(v, T)`
        if isinstance(idx, int) and fld in ("body", "orelse", "finalbody"):
            for st in getattr(parent, fld)[:idx]:
                if isinstance(st, ast.If) and _exits(st.body) and _isinstance_of(st.test, var, False):
                    return True
                if isinstance(st, ast.Assert) and _isinstance_of(st.test, var, True):
                    return True
    return False


def converted_before(fn, var, lineno):
    """`var` was re-bound from a converter call (str(var), to_liquid_string(var), sequence_arg(var) ...) on an earlier line."""
    for n in own_nodes(fn):
        if isinstance(n, ast.Assign) and any(isinstance(t, ast.Name) and t.id == var for t in n.targets) and n.lineno < lineno:
            v = n.value
            if isinstance(v, ast.Await):
                v = v.value
            if isinstance(v, ast.Call):
                f = v.func
                name = f.id if isinstance(f, ast.Name) else (f.attr if isinstance(f, ast.Attribute) else None)
                if name in CONVERTERS:
                    return True
            if isinstance(v, (ast.Constant, ast.JoinedStr, ast.List, ast.Dict, ast.ListComp, ast.Tuple)):
                return True
    return False


def _decorated_first_param_safe(fn):
    decos = {ast.unparse(d).split("(")[0] for d in fn.decorator_list}
    return bool(decos & {"string_filter", "sequence_filter", "math_filter"})


def scan(repo: Repo):
    sites = []
    for m in repo.all_modules():
        is_filter_mod = ".filters." in m.name or m.name.endswith("liquid2.filter")
        for qual, cls, fn, parent in function_defs(m):
            in_scope = is_filter_mod
            if not in_scope and cls is not None:
                bases = class_bases(repo, m, cls)
                if any(b in ("Expression", "Node") for b in bases) and not fn.name.startswith("__") and fn.name not in ("parse", "children", "children_async", "expressions", "template_scope", "block_scope", "partial_scope", "messages", "scope"):
                    in_scope = True
                if m.name == "liquid2.context" and cls == "RenderContext":
                    in_scope = True
            if m.name in ("liquid2.stringify",):
                in_scope = True
            if not in_scope or parent is not None and not is_filter_mod:
                continue
            # a public module-level function of a filters module (or a __call__) is (registrable as) a filter: all its parameters
            # hold template values. A private helper (`_name`) is called by filters with whatever they pass: its parameters are
            # data only where their annotation says so (object / Any / untyped).
            dv = data_vars(fn, is_filter_mod and ((cls is None and not fn.name.startswith("_")) or fn.name == "__call__"))
            if _decorated_first_param_safe(fn) and fn.args.args:
                dv.pop(fn.args.args[0].arg, None)
            for n in own_nodes(fn):
                if isinstance(n, ast.Attribute) and isinstance(n.ctx, ast.Load) and isinstance(n.value, ast.Name) and n.value.id in dv:
                    var = n.value.id
                    if n.lineno < dv[var]:
                        continue
                    ok = n.attr in PROTOCOL_ATTRS or guarded(fn, n, var) or converted_before(fn, var, n.lineno)
                    sites.append((m, qual, fn, n, var, ok))
                elif isinstance(n, ast.Attribute) and isinstance(n.ctx, ast.Load) and not isinstance(n.value, ast.Name) and _holds_data(n.value, dv) \
                        and not (isinstance(n.value, ast.Call) and isinstance(n.value.func, ast.Attribute) and n.value.func.attr in ("items", "values", "keys", "get", "pop", "copy")):
                    # attribute of an element / sub-expression of data (x[0].attr): no name to guard
                    ok = n.attr in PROTOCOL_ATTRS
                    sites.append((m, qual, fn, n, ast.unparse(n.value)[:30], ok))
    return sites


@register("C05")
def c05_data_attr_sites(repo_root, tier):
    repo = Repo(repo_root)
    obs = []
    sites = scan(repo)
    for m, qual, fn, n, var, ok in sites:
        if ok:
            continue
        obs.append({"oid": f"{m.name}:{qual}/site.data-attribute.{var}.{n.attr}", "status": "sat", "backend": "site", "key": None, "rule": "site", "witness": None,
                    "note": f"`{ast.unparse(n)}` at line {n.lineno}: `{var}` may hold caller data and no isinstance test dominates the access - an arbitrary object's `{n.attr}` would be read/called"})
    n_ok = sum(1 for s in sites if s[5])
    obs.append({"oid": "liquid2/site.data-attribute-accesses", "status": "unsat" if n_ok >= 20 else "sat", "backend": "site", "key": None, "rule": "site", "witness": None,
                "note": f"{len(sites)} attribute accesses on data-carrying locals/parameters in filters, expressions, nodes and the render context; {n_ok} are protocol hooks or dominated by an isinstance test"})
    return {"obligations": obs, "samples": [], "trusted": [], "functions": [],
            "assumptions": ["data-carrying variables: parameters typed object/Any (filters: all but the converted first parameter), locals bound from evaluate()/context.get/resolve/get_item and their elements; flow-insensitive except for re-binding through a converter"],
            "not_covered": []}


if __name__ == "__main__":
    import sys
    r = Repo(sys.argv[1] if len(sys.argv) > 1 else "/repo")
    ss = scan(r)
    print(len(ss), "sites;", sum(1 for s in ss if not s[5]), "unguarded")
    for m, qual, fn, n, var, ok in ss:
        if not ok:
            print(f"  {m.name}:{qual}@{n.lineno}: {ast.unparse(n)}")


def _reserved_keyword_obligations(repo_root):
    """The data-side rules treat the parameters `context` and `environment` of a filter as engine objects. That holds because a
    template cannot supply them: Filter.evaluate / evaluate_async refuse (LiquidTypeError) a keyword argument whose name is one
    the engine injects (the keywords of the functools.partial that RenderContext.filter returns), before the filter is called."""
    repo = Repo(repo_root)
    obs = []
    m = repo.module("liquid2.builtin.expressions")
    for name in ("evaluate", "evaluate_async"):
        fn = m.find(f"Filter.{name}") if m else None
        ok = False
        if fn is not None:
            body = [n for n in ast.walk(fn)]
            calls = [n for n in body if isinstance(n, ast.Call)]
            chk = [c for c in calls if ast.unparse(c.func) == "self._check_reserved_keywords" and [ast.unparse(a) for a in c.args] == ["func", "keyword_args"]]
            app = [c for c in calls if ast.unparse(c.func) == "func" and any(k.arg is None and ast.unparse(k.value) == "keyword_args" for k in c.keywords)]
            ok = len(chk) == 1 and len(app) == 1 and chk[0].lineno < app[0].lineno and not any(
                isinstance(g, (ast.If, ast.Try)) and any(x is chk[0] for x in ast.walk(g)) for g in body if g is not fn)
        obs.append({"oid": f"liquid2.builtin.expressions:Filter.{name}/site.injected-keywords-not-from-template", "status": "unsat" if ok else "sat", "backend": "site",
                    "note": "the template's keyword arguments are checked against the injected ones (unconditionally) before the filter is called" if ok
                    else "the filter is called with the template's keyword arguments without the reserved-name check: `context:` / `environment:` written in a template replace the injected objects, whose attributes and methods are then those of a data object"})
    fn = m.find("Filter._check_reserved_keywords") if m else None
    ok = False
    if fn is not None:
        src = ast.unparse(fn)
        ok = "isinstance(func, partial)" in src and "injected = func.keywords" in src and "raise LiquidTypeError" in src and any(
            isinstance(n, ast.Compare) and isinstance(n.ops[0], ast.In) and ast.unparse(n.comparators[0]) == "injected" for n in ast.walk(fn))
    obs.append({"oid": "liquid2.builtin.expressions:Filter._check_reserved_keywords/site.raises-for-injected-name", "status": "unsat" if ok else "sat", "backend": "site",
                "note": "raises LiquidTypeError for any template keyword that is a keyword of the injected partial" if ok else "the reserved-name check does not compare the template's keywords with the injected ones"})
    return obs


def _datetime_format_obligation(repo_root):
    """babel's format_datetime() calls .replace() on its `format` argument: the datetime filter hands it a value from the template
    (the `format:` keyword argument) only after testing that it is a string."""
    repo = Repo(repo_root)
    m = repo.module("liquid2.builtin.filters.babel")
    fn = m.find("DateTime.__call__") if m else None
    ok = False
    if fn is not None:
        tests = [g for g in ast.walk(fn) if isinstance(g, ast.If) and any(
            isinstance(c, ast.Call) and isinstance(c.func, ast.Name) and c.func.id == "isinstance" and len(c.args) == 2 and ast.unparse(c.args[0]) == "format" and ast.unparse(c.args[1]) == "str"
            for c in ast.walk(g.test))]
        ok = any(isinstance(g.test, ast.UnaryOp) and any(isinstance(x, ast.Raise) for st in g.body for x in ast.walk(st)) for g in tests)
    return [{"oid": "liquid2.builtin.filters.babel:DateTime.__call__/site.format-argument-is-a-string", "status": "unsat" if ok else "sat", "backend": "site",
             "note": "`format` is rejected (LiquidTypeError) unless isinstance(format, str)" if ok
             else "the `format:` argument reaches babel untested: a number fails with AttributeError, a data object has its .replace() called and the result used as the pattern"}]


@register("C05")
def c05_reserved_keywords(repo_root, tier):
    return {"obligations": _reserved_keyword_obligations(repo_root) + _datetime_format_obligation(repo_root), "samples": [], "trusted": [], "functions": [], "assumptions": []}


@register("C02")
def c02_reserved_keywords(repo_root, tier):
    return {"obligations": _reserved_keyword_obligations(repo_root) + _datetime_format_obligation(repo_root), "samples": [], "trusted": [], "functions": [], "assumptions": []}
