"""Operator semantics and assumed contracts of built-ins / library functions
(DESIGN 2.2, 8).  Every library model used by a run is recorded in
`ex.used_intrinsics` and ends up in the evidence's trusted base."""
from __future__ import annotations

import os
import ast
import builtins
import collections
import collections.abc
import decimal
import functools
import io
import itertools
import math
import operator
import sys

import z3

from .values import *  # noqa: F403


def _pow2(k):
    return 1 << k


# uninterpreted library functions ------------------------------------------------
F_utf8len = z3.Function("utf8len", StrSort, IntSort)
F_int2str = z3.Function("int2str", IntSort, StrSort)
F_real2str = z3.Function("real2str", RealSort, StrSort)
F_str2int = z3.Function("str2int", StrSort, IntSort)
F_str2real = z3.Function("str2real", StrSort, RealSort)
P_is_int_str = z3.Function("is_int_str", StrSort, BoolSort)
P_is_float_str = z3.Function("is_float_str", StrSort, BoolSort)
F_float_class = z3.Function("float_class", StrSort, IntSort)  # 0 finite, 1 +inf, 2 -inf, 3 nan
F_round_he = z3.Function("round_half_even", RealSort, IntSort)
F_round_nd = z3.Function("round_ndigits", RealSort, IntSort, RealSort)
F_fround = z3.Function("float_round", RealSort, RealSort)
F_sizeof = z3.Function("getsizeof", ObjSort, IntSort)
F_any_truth = z3.Function("any_truth", ObjSort, BoolSort)
F_nl_translate = z3.Function("nl_translate", StrSort, StrSort)
F_any_str = z3.Function("any_str", ObjSort, StrSort)
F_repr_str = z3.Function("repr_str", StrSort, StrSort)
F_lower = z3.Function("str_lower", StrSort, StrSort)
F_upper = z3.Function("str_upper", StrSort, StrSort)
F_strip = z3.Function("str_strip", StrSort, StrSort)
F_lstrip = z3.Function("str_lstrip", StrSort, StrSort)
F_rstrip = z3.Function("str_rstrip", StrSort, StrSort)
P_str_lt = z3.Function("str_lt", StrSort, StrSort, BoolSort)
P_isspace = z3.Function("str_isspace", StrSort, BoolSort)

import re as _re_mod

PURE_EXTERNALS = {
    _re_mod.compile,
    len, ord, chr, int, float, str, bool, min, max, abs, round, repr, sum, any, all, sorted, tuple,
    math.ceil, math.floor, math.isinf, math.isnan, math.isfinite, divmod, pow, hash,
    decimal.Decimal, operator.mul, operator.add, isinstance, issubclass, range, frozenset,
}


class Intrinsics:
    def __init__(self, ex):
        self.ex = ex

    def use(self, name):
        self.ex.used_intrinsics.add(name)

    # ------------------------------------------------------------------ ops
    def binop(self, op, a, b):
        ex = self.ex
        if ex.is_concrete(a) and ex.is_concrete(b) and not isinstance(a, (tuple,)) :
            fn = _PYOPS[type(op)]
            return ex.concrete_op(lambda: fn(a, b))
        if isinstance(a, tuple) and isinstance(b, tuple) and isinstance(op, ast.Add) and not isinstance(a, Tagged) and not isinstance(b, Tagged):
            return a + b
        import decimal as _dec0

        num = (SInt, SBool, SReal, int, float, bool, _dec0.Decimal)
        if isinstance(a, num) and isinstance(b, num) and not isinstance(a, str) and not isinstance(b, str):
            return self.num_binop(op, a, b)
        strs = (SStr, str, SMarkup)
        if isinstance(a, strs) and isinstance(b, strs):
            if isinstance(op, ast.Add):
                if isinstance(a, SMarkup) or isinstance(b, SMarkup):
                    raise Unsupported("Markup concatenation (modelled by the C04 site rules)")
                t = z3.Concat(ex.to_str_term(a), ex.to_str_term(b))
                return SStr(t)
            if isinstance(op, ast.Mod):
                return self.str_percent(a, b)
        if isinstance(a, strs) and isinstance(op, ast.Mod):
            return self.str_percent(a, b)
        if isinstance(a, strs) and isinstance(b, (SInt, int)) and isinstance(op, ast.Mult):
            return self.str_repeat(a, b)
        if isinstance(a, (HList, SSeq)) and isinstance(b, (HList, SSeq)) and isinstance(op, ast.Add):
            if isinstance(a, HList) and isinstance(b, HList) and a.items is not None and b.items is not None:
                return HList(items=a.items + b.items)
            sa, sb = self.seq_term(a), self.seq_term(b)
            elem = (a.sym.elem if isinstance(a, HList) and a.sym is not None else getattr(a, "elem", None)) or \
                   (b.sym.elem if isinstance(b, HList) and b.sym is not None else getattr(b, "elem", None))
            if sa is None:
                return HList(sym=SSeq(sb, elem))
            if sb is None:
                return HList(sym=SSeq(sa, elem))
            return HList(sym=SSeq(z3.Concat(sa, sb), elem))
        if isinstance(op, ast.BitOr) and is_tagged(a, "set") and is_tagged(b, "set"):
            return Tagged("set", a[1] + tuple(b[1]))
        raise Unsupported(f"binary {type(op).__name__} on {a!r}, {b!r}")

    def str_repeat(self, a, b):
        ex = self.ex
        if isinstance(a, str) and len(a) == 1:
            # " " * n : a run of n copies; modelled by an uninterpreted string with known length
            n = ex.to_int_term(b)
            r = ex.fresh("rep", "str")
            ex.assume(z3.Length(r.t) == z3.If(n > 0, n, 0))
            self.use("str.__mul__ (length only)")
            return r
        raise Unsupported("str * int")

    def str_percent(self, a, b):
        raise Unsupported("%-formatting")

    def num_binop(self, op, a, b):
        ex = self.ex
        real = isinstance(a, (SReal, float)) or isinstance(b, (SReal, float))
        import decimal as _dec

        def _nonfinite(v):
            if isinstance(v, float):
                return v != v or v in (float("inf"), float("-inf"))
            if isinstance(v, _dec.Decimal):
                return not v.is_finite()
            return False

        if _nonfinite(a) or _nonfinite(b):
            # inf/nan with a symbolic number: an opaque number, or (Decimal) an arithmetic error
            if ex.pure:
                raise Unsupported("arithmetic with inf/nan in a specification")
            if isinstance(a, _dec.Decimal) or isinstance(b, _dec.Decimal) or isinstance(op, (ast.Mod, ast.FloorDiv, ast.Div)):
                if ex.decide(ex.fresh("arith_fails", "bool").t):
                    ex.raise_builtin("ArithmeticError", "arithmetic on a non-finite number")
            return ex.over_approximate("nonfinite_result", "any", "arithmetic with inf/nan read as an opaque number")
        real = real or isinstance(a, _dec.Decimal) or isinstance(b, _dec.Decimal)
        if real:
            for v in (a, b):
                if isinstance(v, float) and (v != v or v in (float("inf"), float("-inf"))):
                    raise Unsupported("arithmetic mixing symbolic numbers with inf/nan")
            ta = self.real_term(a)
            tb = self.real_term(b)
            numk = "decimal" if (isinstance(a, SReal) and a.num == "decimal") or (isinstance(b, SReal) and b.num == "decimal") else "float"
            ex.assumptions_used.add("float/Decimal arithmetic read as exact real arithmetic on finite values")
            if isinstance(op, ast.Add):
                return SReal(ta + tb, numk)
            if isinstance(op, ast.Sub):
                return SReal(ta - tb, numk)
            if isinstance(op, ast.Mult):
                return SReal(ta * tb, numk)
            if isinstance(op, ast.Div):
                ex.require(tb != 0, "ZeroDivisionError", "division by zero")
                return SReal(ta / tb, numk)
            if isinstance(op, ast.Mod):
                ex.require(tb != 0, "ZeroDivisionError", "modulo by zero")
                r = ex.fresh("rmod", "real", numk)
                return r
            if isinstance(op, ast.FloorDiv):
                ex.require(tb != 0, "ZeroDivisionError", "division by zero")
                return SReal(z3.ToReal(z3.ToInt(ta / tb)), numk)
            raise Unsupported(f"real {type(op).__name__}")
        ta = ex.to_int_term(a)
        tb = ex.to_int_term(b)
        if isinstance(op, ast.Add):
            return SInt(ta + tb)
        if isinstance(op, ast.Sub):
            return SInt(ta - tb)
        if isinstance(op, ast.Mult):
            return SInt(ta * tb)
        if isinstance(op, ast.FloorDiv):
            ex.require(tb != 0, "ZeroDivisionError", "integer division by zero")
            return SInt(py_floordiv(ta, tb))
        if isinstance(op, ast.Mod):
            ex.require(tb != 0, "ZeroDivisionError", "integer modulo by zero")
            return SInt(ta - tb * py_floordiv(ta, tb))
        if isinstance(op, ast.Div):
            ex.require(tb != 0, "ZeroDivisionError", "division by zero")
            ex.assumptions_used.add("int / int read as exact real division")
            return SReal(z3.ToReal(ta) / z3.ToReal(tb))
        if isinstance(op, ast.LShift):
            if isinstance(b, int) and not isinstance(b, bool) and 0 <= b <= 256:
                return SInt(ta * _pow2(b))
            raise Unsupported("<< by symbolic amount")
        if isinstance(op, ast.RShift):
            if isinstance(b, int) and 0 <= b <= 256:
                return SInt(ta / _pow2(b))  # z3 int div floors for positive divisors, as Python's >>
            raise Unsupported(">> by symbolic amount")
        if isinstance(op, ast.BitAnd):
            for x, tx in ((b, ta), (a, tb)):
                if isinstance(x, int) and x >= 0 and (x + 1) & x == 0:
                    return SInt(tx % (x + 1))  # z3 mod with positive modulus is Python's & mask
            raise Unsupported("& with a non-mask operand")
        if isinstance(op, ast.BitOr):
            # constant with few set bits: c | x == x + sum over set bits b of 2^b * (1 - bit_b(x)), bit_b(x) = (x div 2^b) mod 2
            # (floor division: exact for every Python int, negative ones included)
            for c, tx in ((a, tb), (b, ta)):
                if isinstance(c, int) and not isinstance(c, bool) and c >= 0 and bin(c).count("1") <= 8:
                    self.use("c | x for a constant c by per-bit arithmetic with div/mod by constants (exact)")
                    acc = tx
                    for bit in range(c.bit_length()):
                        if (c >> bit) & 1:
                            acc = acc + _pow2(bit) * (1 - (tx / _pow2(bit)) % 2)
                    return SInt(acc)
            for k in (4, 10, 8, 16, 6, 5, 3, 2, 1, 12):
                m = _pow2(k)
                if ex.prove_now(z3.And(ta % m == 0, tb >= 0, tb < m)):
                    return SInt(ta + tb)
                if ex.prove_now(z3.And(tb % m == 0, ta >= 0, ta < m)):
                    return SInt(ta + tb)
            # not provably disjoint: split on disjointness (cheap sum on one side, exact encoding on the other)
            for k in (4, 10, 8, 16):
                m = _pow2(k)
                if ex.prove_now(z3.And(tb >= 0, tb < m, ta >= 0)) and not ex.pure:
                    if ex.decide(ta % m == 0):
                        return SInt(ta + tb)
                    break
            for bits in (8,):
                lim = _pow2(bits)
                if ex.prove_now(z3.And(ta >= 0, ta < lim, tb >= 0, tb < lim)):
                    self.use("a | b on small non-negative ints by bit decomposition with div/mod by constants (exact)")
                    acc = z3.IntVal(0)
                    for i in range(bits):
                        ba = (ta / _pow2(i)) % 2
                        bb = (tb / _pow2(i)) % 2
                        acc = acc + z3.If(z3.Or(ba == 1, bb == 1), _pow2(i), 0)
                    return SInt(acc)
            if not ex.pure:
                r = ex.over_approximate("bitor", "int", "a | b with overlapping bit ranges read as an unconstrained int >= max(a, b)")
                ex.assume(z3.And(r.t >= ta, r.t >= tb, r.t <= ta + tb))
                return r
            raise Unsupported("| without provable disjoint bit ranges")
        if isinstance(op, ast.Pow):
            if isinstance(b, int) and 0 <= b <= 8:
                r = z3.IntVal(1)
                for _ in range(b):
                    r = r * ta
                return SInt(r)
            raise Unsupported("** with symbolic exponent")
        raise Unsupported(f"int {type(op).__name__}")

    def real_term(self, v):
        if isinstance(v, SReal):
            return v.t
        if isinstance(v, (SInt, SBool)) or isinstance(v, (bool, int)):
            return z3.ToReal(self.ex.to_int_term(v))
        if isinstance(v, float):
            return z3.RealVal(repr(v))
        import decimal as _dec1

        if isinstance(v, _dec1.Decimal) and v.is_finite():
            return z3.RealVal(str(v))
        raise Unsupported(f"real term of {v!r}")

    def compare(self, op, a, b):
        ex = self.ex
        if isinstance(op, (ast.Is, ast.IsNot)):
            r = self.identical(a, b)
            if isinstance(op, ast.IsNot):
                r = (not r) if isinstance(r, bool) else z3.Not(r)
            return ex.to_bool_value(r)
        if isinstance(op, (ast.In, ast.NotIn)):
            r = self.contains(b, a)
            if isinstance(op, ast.NotIn):
                r = (not r) if isinstance(r, bool) else z3.Not(r)
            return ex.to_bool_value(r)
        if ex.is_concrete(a) and ex.is_concrete(b):
            fn = _PYCMP[type(op)]
            return ex.concrete_op(lambda: fn(a, b))
        if isinstance(op, (ast.Eq, ast.NotEq)):
            r = self.equal(a, b)
            if isinstance(op, ast.NotEq):
                r = (not r) if isinstance(r, bool) else z3.Not(r)
            return ex.to_bool_value(r)
        num = (SInt, SBool, SReal, int, float, bool)
        if isinstance(a, num) and isinstance(b, num):
            for v in (a, b):
                if isinstance(v, float) and v != v:
                    return False
            if isinstance(a, float) and a in (float("inf"), float("-inf")) or isinstance(b, float) and b in (float("inf"), float("-inf")):
                # comparison of a finite symbolic number with an infinity
                inf_is_a = isinstance(a, float) and a in (float("inf"), float("-inf"))
                infv = a if inf_is_a else b
                pos = infv > 0
                if isinstance(op, (ast.Lt, ast.LtE)):
                    return (not pos) if inf_is_a else pos
                return pos if inf_is_a else (not pos)
            if isinstance(a, (SReal, float)) or isinstance(b, (SReal, float)):
                ta, tb = self.real_term(a), self.real_term(b)
            else:
                ta, tb = ex.to_int_term(a), ex.to_int_term(b)
            r = {ast.Lt: ta < tb, ast.LtE: ta <= tb, ast.Gt: ta > tb, ast.GtE: ta >= tb}[type(op)]
            return ex.to_bool_value(r)
        strs = (SStr, str, SMarkup)
        if isinstance(a, strs) and isinstance(b, strs):
            ta, tb = ex.to_str_term(a), ex.to_str_term(b)
            self.use("str ordering (uninterpreted total order str_lt)")
            lt = P_str_lt(ta, tb)
            gt = P_str_lt(tb, ta)
            eq = ta == tb
            r = {ast.Lt: lt, ast.LtE: z3.Or(lt, eq), ast.Gt: gt, ast.GtE: z3.Or(gt, eq)}[type(op)]
            return ex.to_bool_value(r)
        if (isinstance(a, num) and isinstance(b, strs + (type(None),))) or (isinstance(a, strs + (type(None),)) and isinstance(b, num)):
            ex.raise_builtin("TypeError", "ordering of unlike types")
        raise Unsupported(f"comparison {type(op).__name__} on {a!r}, {b!r}")

    def identical(self, a, b):
        if b is None or a is None:
            other = a if b is None else b
            if other is None:
                return True
            if isinstance(other, SAny):
                return F_is_none(other.t)
            return False
        for x, y in ((a, b), (b, a)):
            if isinstance(y, bool):
                if isinstance(x, SBool):
                    return x.t if y else z3.Not(x.t)
                if isinstance(x, bool):
                    return x is y
                if isinstance(x, SAny):
                    return F_is_true(x.t) if y else F_is_false(x.t)
                return False
        if isinstance(a, (HObj, HList, HDict, HJoin, HSpecList)) or isinstance(b, (HObj, HList, HDict, HJoin, HSpecList)):
            return getattr(a, "orig", a) is getattr(b, "orig", b)
        if isinstance(a, SAny) and isinstance(b, SAny):
            if a.t.eq(b.t):
                return True
            self.use("identity of opaque values read as equality of their denotations")
            return a.t == b.t
        if isinstance(a, EnumVal) and isinstance(b, EnumVal):
            return a == b
        if isinstance(a, ExternalRef) and isinstance(b, ExternalRef):
            return a.obj is b.obj
        if isinstance(a, SV) and isinstance(b, SV) and type(a) is type(b):
            if a.t.eq(b.t):
                return True
            return a.t == b.t  # immutable values: identity read as equality
        if self.ex.is_concrete(a) and self.ex.is_concrete(b):
            return a is b or (type(a) is type(b) and a == b and isinstance(a, (int, str)))
        if isinstance(a, SV) and isinstance(b, SV) and type(a) is not type(b):
            return False     # values of different kinds (an int and a float, a str and an int) are never the same object
        if (isinstance(a, float) and isinstance(b, (SInt, SStr, SBool))) or (isinstance(b, float) and isinstance(a, (SInt, SStr, SBool))):
            return False     # inf / nan constants against a symbolic int, str or bool
        for x, y in ((a, b), (b, a)):
            if isinstance(x, float) and isinstance(y, SReal):
                import math as _m
                if not _m.isfinite(x):
                    return False   # symbolic reals stand for finite numbers
                return y.t == z3.RealVal(repr(x))
        raise Unsupported(f"identity of {a!r} and {b!r}")

    def equal(self, a, b):
        ex = self.ex
        if isinstance(a, HListView):
            a = SSeq(a.seq, "any")
        if isinstance(b, HListView):
            b = SSeq(b.seq, "any")
        if a is None or b is None:
            o = b if a is None else a
            if o is None:
                return True
            if isinstance(o, SAny):
                return F_is_none(o.t)
            return False
        num = (SInt, SBool, SReal, int, float, bool)
        if isinstance(a, num) and isinstance(b, num) and not isinstance(a, str):
            for v in (a, b):
                if isinstance(v, float) and (v != v or v in (float("inf"), float("-inf"))):
                    return False
            if isinstance(a, (SReal, float)) or isinstance(b, (SReal, float)):
                return self.real_term(a) == self.real_term(b)
            return ex.to_int_term(a) == ex.to_int_term(b)
        strs = (SStr, str, SMarkup)
        if isinstance(a, strs) and isinstance(b, strs):
            return ex.to_str_term(a) == ex.to_str_term(b)
        if isinstance(a, num + strs) and isinstance(b, num + strs):
            return False  # number vs string
        if isinstance(a, EnumVal) or isinstance(b, EnumVal):
            if isinstance(a, EnumVal) and isinstance(b, EnumVal):
                return a == b
            o = b if isinstance(a, EnumVal) else a
            e = a if isinstance(a, EnumVal) else b
            if isinstance(o, SAny):
                return o.t == ex.lift(e)[0]
            return False
        if isinstance(a, tuple) and isinstance(b, tuple):
            if len(a) != len(b):
                return False
            parts = [self.equal(x, y) for x, y in zip(a, b)]
            if any(p is False for p in parts):
                return False
            parts = [p for p in parts if p is not True]
            return z3.And(*parts) if parts else True
        if isinstance(a, SAny) and isinstance(b, SAny):
            return a.t == b.t
        prim = (SInt, SBool, SReal, SStr, SMarkup, int, float, bool, str)
        if (isinstance(a, (HList, HDict)) and isinstance(b, prim)) or (isinstance(b, (HList, HDict)) and isinstance(a, prim)):
            return False   # a list/dict never equals a number or a string
        if isinstance(a, (HList, SSeq)) and isinstance(b, (HList, SSeq)):
            sa, sb = self.seq_term(a), self.seq_term(b)
            if sa is None or sb is None:
                la = a.items if isinstance(a, HList) else None
                lb = b.items if isinstance(b, HList) else None
                if la is not None and lb is not None:
                    return self.equal(tuple(la), tuple(lb))
                if (la is not None and not la) or (lb is not None and not lb):
                    other = sb if sa is None else sa
                    if other is not None:
                        return z3.Length(other) == 0
                raise Unsupported("equality of lists with unknown element kind")
            if sa.sort() != sb.sort():
                return False
            return sa == sb
        if isinstance(a, HDict) and isinstance(b, HDict):
            if a.concrete is not None and b.concrete is not None:
                if set(a.concrete) != set(b.concrete):
                    return False
                parts = [self.equal(a.concrete[k], b.concrete[k]) for k in a.concrete]
                if any(p is False for p in parts):
                    return False
                parts = [p for p in parts if p is not True]
                return z3.And(*parts) if parts else True
            if a.concrete is None and b.concrete is None and a.ksort == b.ksort and a.vkind == b.vkind:
                # extensional: same key set and same values on it
                k = z3.Const("k!ext", ELEM_SORT[a.ksort])
                same = z3.ForAll([k], z3.And(z3.Select(a.has, k) == z3.Select(b.has, k),
                                             z3.Implies(z3.Select(a.has, k), z3.Select(a.val, k) == z3.Select(b.val, k))))
                if a.has.eq(b.has) and a.val.eq(b.val):
                    same = True
                if a.order is not None and b.order is not None:
                    return z3.And(same, a.order == b.order) if same is not True else a.order == b.order
                return same
            raise Unsupported("equality of concrete and symbolic dict")
        if (isinstance(a, SAny) and isinstance(b, (HObj, HDict, HList))) or (isinstance(b, SAny) and isinstance(a, (HObj, HDict, HList))):
            # an opaque value against a heap object: equal iff it denotes that very object
            # (content equality of an unknown object cannot be established: conservative)
            o, h = (a, b) if isinstance(a, SAny) else (b, a)
            return o.t == ex.box(h)
        if isinstance(a, (HObj,)) or isinstance(b, (HObj,)):
            o, other = (a, b) if isinstance(a, HObj) else (b, a)
            r = self.obj_eq(o, other)
            if r is not NotImplemented:
                return r
        if isinstance(a, ExternalRef) and isinstance(b, ExternalRef):
            return a.obj == b.obj
        raise Unsupported(f"equality of {a!r} and {b!r}")

    def seq_term(self, v):
        """z3 Seq term of a list/sequence value (None if the element kind is unknown)."""
        ex = self.ex
        if isinstance(v, SSeq):
            return v.t
        if isinstance(v, HList):
            if v.sym is not None:
                return v.sym.t
            if not v.items:
                return None
            units = []
            for x in v.items:
                t, k = ex.lift(x)
                units.append(z3.Unit(t))
            return units[0] if len(units) == 1 else z3.Concat(*units)
        return None

    def obj_eq(self, o, other):
        ex = self.ex
        r = ex.repo.find_method(o.cls.mod, o.cls.node, "__eq__") if o.cls.node is not None else None
        if r and r[0] == "func":
            v = ex.call_repo_function(FuncRef(r[1], r[3], cls=(r[1], r[2]), qual=f"{r[2].name}.__eq__"), [o, other], {}, o, None)
            return ex.truth(v)
        return o is other

    def contains(self, container, item):
        ex = self.ex
        if isinstance(container, HSet):
            if container.kind is None:
                return False
            t, k = ex.lift(item)
            return z3.Select(container.has, t) if k == container.kind else False
        if is_tagged(container, "pathparts"):
            if item == "..":
                return container[1].pardir
            if item == "/" and getattr(container[1], "text", None) is not None:
                # '/' is a part exactly when the anchor is a single slash: an absolute POSIX path whose anchor is '//' (exactly two
                # leading slashes, which pathlib keeps) has the part '//' instead - so this test implies is_absolute(), not conversely
                from .intrinsics_lib import P_abs
                P_slash = z3.Function("path_has_single_slash_anchor", StrSort, BoolSort)
                t = container[1].text
                ex.assume(z3.Implies(P_slash(t), P_abs(t)))
                self.use("'/' in Path(s).parts: true only for absolute s; false for an absolute s anchored at '//' (pathlib keeps exactly two leading slashes)")
                return P_slash(t)
            raise Unsupported("membership in Path.parts of something other than os.pardir")
        if is_tagged(container, "set"):
            container = container[1]
        if isinstance(container, HList) and container.items is not None:
            container = tuple(container.items)
        if isinstance(container, (frozenset, set)):
            container = tuple(sorted(container, key=repr))
        if isinstance(container, tuple):
            parts = []
            for c in container:
                e = self.equal(item, c)
                if e is True:
                    return True
                if e is not False:
                    parts.append(e)
            return z3.Or(*parts) if parts else False
        if isinstance(container, (SStr, str)) and isinstance(item, (SStr, str)):
            if isinstance(container, str) and isinstance(item, str):
                return item in container
            return z3.Contains(ex.to_str_term(container), ex.to_str_term(item))
        if isinstance(container, HDict):
            if isinstance(item, (HList, HDict, HSet)):
                ex.raise_builtin("TypeError", "unhashable type in a mapping membership test")
            return self.dict_has(container, item)
        if isinstance(container, HList) and container.sym is not None:
            # a symbolic list: membership of the (boxed) item among its elements
            if container.sym.elem == "any":
                if isinstance(item, (SAny, HObj, HDict, HList)) or item is None:
                    return z3.Contains(container.sym.t, z3.Unit(ex.box(item)))
                self.use("x in <list of opaque values> for a primitive x: an unconstrained boolean")
                return ex.fresh("member", "bool").t
            t, k = ex.lift(item)
            return z3.Contains(container.sym.t, z3.Unit(t)) if k == container.sym.elem else False
        if isinstance(container, HObj):
            r = ex.repo.find_method(container.cls.mod, container.cls.node, "__contains__")
            if r and r[0] == "func":
                v = ex.call_repo_function(FuncRef(r[1], r[3], cls=(r[1], r[2]), qual=f"{r[2].name}.__contains__"), [container, item], {}, container, None)
                return ex.truth(v)
        if isinstance(container, SSeq):
            t, k = ex.lift(item)
            return z3.Contains(container.t, z3.Unit(t))
        raise Unsupported(f"membership in {container!r}")

    # ------------------------------------------------------------ subscript
    def norm_index(self, idx, ln, what):
        """Python index normalisation with IndexError fork; returns z3 Int position."""
        ex = self.ex
        i = ex.to_int_term(idx)
        ex.require(z3.And(i >= -ln, i < ln), "IndexError", f"{what} index out of range")
        if isinstance(idx, int):
            return z3.IntVal(idx) if idx >= 0 else ln + idx
        if ex.pure:
            return z3.If(i >= 0, i, ln + i)
        if ex.decide(i >= 0):
            return i
        return ln + i

    def slice_bounds(self, lo, hi, ln):
        ex = self.ex

        def norm(v, default):
            if v is None:
                return default
            t = ex.to_int_term(v)
            if isinstance(v, int):
                if v >= 0:
                    return z3.If(z3.IntVal(v) <= ln, z3.IntVal(v), ln)
                return z3.If(ln + v >= 0, ln + v, z3.IntVal(0))
            return z3.If(t < 0, z3.If(t + ln < 0, z3.IntVal(0), t + ln), z3.If(t > ln, ln, t))

        l = norm(lo, z3.IntVal(0))
        h = norm(hi, ln)
        return l, h

    def subscript(self, obj, key):
        ex = self.ex
        if isinstance(key, SLazy) and not isinstance(obj, HDict):
            key = ex.resolve_lazy(key)
        if isinstance(obj, HSpecList):
            if "__getitem__" in obj.hooks:
                return obj.hooks["__getitem__"](ex, obj, [key], {})
            raise Unsupported(f"subscript of the abstracted list {obj.name}")
        if isinstance(obj, HListView):
            return self.subscript(SSeq(obj.seq, "any"), key)
        if isinstance(key, tuple) and key and key[0] == "slice":
            _, lo, hi, step = key
            if step is not None:
                if ex.is_concrete(obj) and all(ex.is_concrete(x) for x in (lo, hi, step)):
                    return ex.concrete_op(lambda: obj[lo:hi:step])
                raise Unsupported("slice with step")
            if ex.is_concrete(obj) and ex.is_concrete(lo) and ex.is_concrete(hi) and not isinstance(obj, tuple):
                return ex.concrete_op(lambda: obj[lo:hi])
            if isinstance(obj, tuple) and ex.is_concrete(lo) and ex.is_concrete(hi):
                return obj[lo:hi]
            if isinstance(obj, HList) and obj.items is not None and ex.is_concrete(lo) and ex.is_concrete(hi):
                return HList(items=obj.items[lo:hi])
            if isinstance(obj, (SStr, str)):
                t = ex.to_str_term(obj)
                ln = z3.Length(t)
                l, h = self.slice_bounds(lo, hi, ln)
                r = z3.SubSeq(t, l, z3.If(h - l > 0, h - l, 0))
                # constant-width slices: the (valid) element-wise facts the sequence solver does not find alone
                if lo is not None and hi is not None and not ex.pure:
                    lt, ht = ex.to_int_term(lo), ex.to_int_term(hi)
                    w = z3.simplify(ht - lt)
                    if z3.is_int_value(w) and 1 <= w.as_long() <= 12:
                        k = w.as_long()
                        key = ("slice-facts", r.sexpr())
                        if key not in ex.facts_seen:
                            ex.facts_seen.add(key)
                            ex.assume(z3.Implies(z3.And(lt >= 0, ht <= ln),
                                                 z3.And(z3.Length(r) == k, *[r[i] == t[lt + i] for i in range(k)])))
                return SStr(r)
            seq = ex.as_symbolic_seq(obj)
            if seq is not None:
                ln = z3.Length(seq.t)
                l, h = self.slice_bounds(lo, hi, ln)
                return SSeq(z3.SubSeq(seq.t, l, z3.If(h - l > 0, h - l, 0)), seq.elem)
            if isinstance(obj, range):
                # a slice of a range is a range (not a list): list(..) of it is a list of ints
                self.use("range[a:b] with symbolic bounds: a range object (opaque), whose list() is a list of ints")
                return Tagged("rangeslice", obj)
            raise Unsupported(f"slice of {obj!r}")
        if isinstance(obj, (SStr,)) or (isinstance(obj, str) and not ex.is_concrete(key)):
            t = ex.to_str_term(obj)
            if not isinstance(key, (SInt, int, SBool)):
                ex.raise_builtin("TypeError", "str index type")
            pos = self.norm_index(key, z3.Length(t), "string")
            return SStr(z3.SubSeq(t, pos, z3.IntVal(1)))
        if isinstance(obj, tuple):
            if isinstance(key, int):
                return ex.concrete_op(lambda: obj[key])
            if isinstance(key, (SInt, SBool)) and not obj:
                ex.raise_builtin("IndexError", "tuple index out of range")
            if isinstance(key, (SInt, SBool)):
                pos = self.norm_index(key, z3.IntVal(len(obj)), "tuple")
                for i in range(len(obj)):
                    if ex.decide(pos == i):
                        return obj[i]
                raise PathEnd("tuple index")
            raise Unsupported("tuple subscript")
        if isinstance(obj, HList):
            if obj.items is not None:
                if isinstance(key, int):
                    return ex.concrete_op(lambda: obj.items[key])
                if isinstance(key, (SInt, SBool)):
                    if not obj.items:
                        ex.raise_builtin("IndexError", "list index out of range")
                    pos = self.norm_index(key, z3.IntVal(len(obj.items)), "list")
                    for i in range(len(obj.items)):
                        if ex.decide(pos == i):
                            return obj.items[i]
                    raise PathEnd("list index")
                ex.raise_builtin("TypeError", "list index type")
            if not isinstance(key, (SInt, int, SBool)):
                ex.raise_builtin("TypeError", "list index type")
            pos = self.norm_index(key, z3.Length(obj.sym.t), "list")
            return ex.seq_at(obj.sym, pos)
        if isinstance(obj, SSeq):
            pos = self.norm_index(key, z3.Length(obj.t), "sequence")
            return ex.seq_at(obj, pos)
        if isinstance(obj, HDict):
            return self.dict_get(obj, key, raise_missing=True)
        if isinstance(obj, HObj):
            r = ex.repo.find_method(obj.cls.mod, obj.cls.node, "__getitem__") if obj.cls.node is not None else None
            if r and r[0] == "func":
                return ex.call_repo_function(FuncRef(r[1], r[3], cls=(r[1], r[2]), qual=f"{r[2].name}.__getitem__"), [obj, key], {}, obj, None)
            if "__getitem__" in obj.fields:
                return ex.call(obj.fields["__getitem__"], [key], {}, None)
            raise Unsupported(f"subscript of object {obj!r}")
        if isinstance(obj, SAny):
            return self.any_getitem(obj, key)
        if ex.is_concrete(obj) and ex.is_concrete(key):
            return ex.concrete_op(lambda: obj[key])
        if isinstance(obj, ExternalRef):  # typing subscript e.g. list[str]
            return obj
        if isinstance(obj, (SInt, SBool, SReal)) or obj is None or isinstance(obj, (int, float, bool)):
            ex.raise_builtin("TypeError", "object is not subscriptable")
        raise Unsupported(f"subscript of {obj!r}")

    def any_getitem(self, obj, key):
        """obj[key] on opaque data: may raise KeyError/IndexError/TypeError, else an opaque value.
        This is the only operation the engine lets code apply to template data (C05)."""
        ex = self.ex
        if ex.contract.obj_protocol == "mapping":
            # the opaque object is a Mapping: m[k] returns map_at(m, k) iff map_has(m, k), else KeyError
            self.use("m[k] on an opaque Mapping: map_at(m,k) if map_has(m,k) else KeyError (uninterpreted)")
            kt, kk = ex.lift(key)
            has = z3.Function(f"map_has_{kk}", ObjSort, ELEM_SORT[kk], BoolSort)(obj.t, kt)
            at = z3.Function(f"map_at_{kk}", ObjSort, ELEM_SORT[kk], ObjSort)(obj.t, kt)
            if ex.pure:
                return SAny(at)
            if ex.decide(has):
                return SAny(at)
            ex.raise_builtin("KeyError", "m[k]")
        self.use("obj[key] on opaque data: returns an opaque value or raises KeyError/IndexError/TypeError")
        ex.trace_event("getitem", obj, key)
        o = ex.fresh("getitem_outcome", "int")
        if not ex.pure:
            if ex.decide(o.t == 1):
                ex.raise_builtin("KeyError", "obj[key]")
            if ex.decide(o.t == 2):
                ex.raise_builtin("IndexError", "obj[key]")
            if ex.decide(o.t == 3):
                ex.raise_builtin("TypeError", "obj[key]")
        return ex.fresh("item", "any")

    def store_subscript(self, obj, key, val):
        ex = self.ex
        if isinstance(obj, HDict):
            return self.dict_set(obj, key, val)
        if isinstance(obj, HList) and obj.items is not None and isinstance(key, int):
            try:
                obj.items[key] = val
            except IndexError:
                ex.raise_builtin("IndexError", "list assignment")
            return
        if isinstance(obj, HObj):
            r = ex.repo.find_method(obj.cls.mod, obj.cls.node, "__setitem__") if obj.cls.node is not None else None
            if r and r[0] == "func":
                return ex.call_repo_function(FuncRef(r[1], r[3], cls=(r[1], r[2]), qual=f"{r[2].name}.__setitem__"), [obj, key, val], {}, obj, None)
        raise Unsupported(f"subscript store on {obj!r}")

    def del_subscript(self, obj, key):
        if isinstance(obj, HDict):
            return self.dict_del(obj, key)
        raise Unsupported(f"del subscript on {obj!r}")

    # ----------------------------------------------------------------- dict
    def _ksort_of(self, key):
        t, k = self.ex.lift(key)
        return t, k

    def dict_symbolize(self, d: HDict, ktemplate, vtemplate=None):
        """Turn a concrete dict into the symbolic (has,val) representation."""
        ex = self.ex
        if d.concrete is None:
            return
        _, kk = ex.lift(ktemplate)
        ks = ELEM_SORT[kk]
        vals = list(d.concrete.values())
        vk = None
        for v in vals + ([vtemplate] if vtemplate is not None else []):
            try:
                _, vk = ex.lift(v)
                break
            except Unsupported:
                raise Unsupported("symbolic dict with heap values")
        if vk is None:
            raise Unsupported("symbolic key into empty concrete dict: value kind unknown")
        has = z3.K(ks, z3.BoolVal(False))
        val = z3.K(ks, NONE_OBJ if vk == "any" else ex.lift(_default_of(vk))[0])
        for k, v in d.concrete.items():
            kt, _ = ex.lift(k)
            has = z3.Store(has, kt, z3.BoolVal(True))
            val = z3.Store(val, kt, ex.lift(v)[0])
        d.concrete = None
        d.ksort, d.vkind, d.has, d.val = kk, vk, has, val

    def dict_has(self, d: HDict, key):
        ex = self.ex
        if d.concrete is not None:
            if ex.is_concrete(key):
                return key in d.concrete
            parts = []
            for k in d.concrete:
                e = self.equal(key, k)
                if e is True:
                    return True
                if e is not False:
                    parts.append(e)
            return z3.Or(*parts) if parts else False
        kt, kk = ex.lift(key)
        if kk != d.ksort:
            return False
        return z3.Select(d.has, kt)

    def dict_get(self, d: HDict, key, raise_missing=False, default=None):
        ex = self.ex
        if isinstance(key, SLazy):
            from .api import Const

            if d.concrete is not None and all(isinstance(a, Const) and a.value in d.concrete for a in key.alts):
                # every alternative is a key: the result is one of the corresponding values (no fork)
                r = ex.fresh("lookup", "any")
                opts = []
                for i, a in enumerate(key.alts):
                    vt, _ = ex.lift(d.concrete[a.value])
                    opts.append(z3.And(key.tag == i, r.t == vt))
                ex.assume(z3.Or(*opts))
                return r
            key = ex.resolve_lazy(key)
        if d.concrete is not None:
            if ex.is_concrete(key):
                if key in d.concrete:
                    return d.concrete[key]
                if raise_missing:
                    ex.raise_builtin("KeyError", "dict key")
                return default
            if len(d.concrete) > 6 and not ex.pure:
                # a symbolic key into a large constant table: one if-then-else term over the entries
                # (exact, and no path per entry)
                try:
                    kt, kk = ex.lift(key)
                    entries = [(ex.lift(k)[0], ex.lift(v)[0]) for k, v in d.concrete.items() if ex.lift(k)[1] == kk]
                    if all(z3.is_expr(vt) and vt.sort() == ObjSort for _, vt in entries):
                        present = z3.Or(*[kt == k for k, _ in entries]) if entries else z3.BoolVal(False)
                        if ex.decide(present):
                            term = entries[-1][1]
                            for k, vt in reversed(entries[:-1]):
                                term = z3.If(kt == k, vt, term)
                            return SAny(term)
                        if raise_missing:
                            ex.raise_builtin("KeyError", "dict key")
                        return default
                except Unsupported:
                    pass
            for k, v in d.concrete.items():
                e = self.equal(key, k)
                if e is True or (e is not False and ex.decide(e)):
                    return v
            if raise_missing:
                ex.raise_builtin("KeyError", "dict key")
            return default
        kt, kk = ex.lift(key)
        if getattr(d, "list_default", False) and raise_missing and kk == d.ksort:
            # defaultdict(list): a missing key is created with an empty list (representation invariant:
            # absent keys hold the empty sequence); the result aliases the stored list
            if not ex.pure:
                d.has = z3.Store(d.has, kt, z3.BoolVal(True))
            return HListView(d, kt)
        present = z3.Select(d.has, kt) if kk == d.ksort else z3.BoolVal(False)
        if ex.pure:
            return wrap(z3.Select(d.val, kt), d.vkind)
        if ex.decide(present):
            return wrap(z3.Select(d.val, kt), d.vkind)
        if raise_missing:
            ex.raise_builtin("KeyError", "dict key")
        return default

    def dict_set(self, d: HDict, key, val):
        ex = self.ex
        if d.concrete is not None:
            if ex.is_concrete(key):
                d.concrete[key] = val
                return
            self.dict_symbolize(d, key, val)
        kt, kk = ex.lift(key)
        vt, vk = ex.lift(val)
        if kk == d.ksort and vk != d.vkind and (d.vkind == "any" or vk == "any"):
            # a dict of opaque values that also holds ints / strings: those are boxed (injected into the opaque sort)
            from .engine import BOX_INT, BOX_STR
            if d.vkind in ("int", "str"):
                d.val = z3.Map(BOX_INT if d.vkind == "int" else BOX_STR, d.val)
                d.vkind = "any"
            if vk != "any":
                vt, vk = ex.box(val), "any"
        if kk != d.ksort or vk != d.vkind:
            raise Unsupported("heterogeneous symbolic dict")
        if d.order is not None:
            present = z3.Select(d.has, kt)
            d.order = z3.If(present, d.order, z3.Concat(d.order, z3.Unit(kt)))
        d.has = z3.Store(d.has, kt, z3.BoolVal(True))
        d.val = z3.Store(d.val, kt, vt)

    def dict_del(self, d: HDict, key):
        ex = self.ex
        if d.concrete is not None and ex.is_concrete(key):
            if key not in d.concrete:
                ex.raise_builtin("KeyError", "del dict key")
            del d.concrete[key]
            return
        if d.concrete is not None:
            self.dict_symbolize(d, key)
        kt, kk = ex.lift(key)
        ex.require(z3.Select(d.has, kt), "KeyError", "del dict key")
        if d.order is not None:
            raise Unsupported("del on ordered symbolic dict")
        d.has = z3.Store(d.has, kt, z3.BoolVal(False))

    def dict_nonempty(self, d: HDict):
        if d.order is not None:
            return z3.Length(d.order) > 0
        k = z3.Const("k!ne", ELEM_SORT[d.ksort])
        return z3.Exists([k], z3.Select(d.has, k))

    def havoc_dict(self, name, d: HDict):
        ex = self.ex
        if d.concrete is not None:
            # a table with fixed keys (e.g. tag_namespace): havoc what its entries hold
            for k, v in list(d.concrete.items()):
                if isinstance(v, (HDict, HList, HJoin, HSpecList)):
                    ex.havoc_heap(f"{name}[{k!r}]", v, None)
                else:
                    d.concrete[k] = ex.havoc_value(f"{name}[{k!r}]", v)
            return
        ks = ELEM_SORT[d.ksort]
        d.has = z3.Const(f"{name}.has!{ex.fresh_n}", z3.ArraySort(ks, BoolSort))
        ex.fresh_n += 1
        d.val = z3.Const(f"{name}.val!{ex.fresh_n}", z3.ArraySort(ks, ELEM_SORT[d.vkind]))
        ex.fresh_n += 1
        if d.order is not None:
            d.order = z3.Const(f"{name}.order!{ex.fresh_n}", z3.SeqSort(ks))
            ex.fresh_n += 1

    # ------------------------------------------------------------ attributes
    def getattr(self, obj, attr, frame):
        ex = self.ex
        if isinstance(obj, Tagged) and obj and obj[0] == "pyclass-of":
            if attr in ("__name__", "__qualname__"):
                self.use("type(x).__name__ (an unconstrained string; only used in messages)")
                return ex.fresh("clsname", "str")
            raise Unsupported(f"attribute {attr} of a class object")
        if attr == "__class__" and isinstance(obj, (SAny, HList, HDict, HJoin, SStr, SMarkup, SInt, SBool, SReal)) or (attr == "__class__" and obj is None):
            return Tagged("pyclass-of", obj)
        if isinstance(obj, HSpecList):
            if attr in obj.hooks:
                return PyCallable(lambda ex_, a, k, _l=obj, _h=obj.hooks[attr]: _h(ex_, _l, a, k), f"{obj.name}.{attr}")
            raise Unsupported(f"operation .{attr} on the abstracted list {obj.name}")
        if isinstance(obj, HObj) and obj.cls.name == "re.Match":
            from .regex_model import match_getattr

            return match_getattr(self, obj, attr)
        if isinstance(obj, HObj):
            if attr in obj.fields:
                v = obj.fields[attr]
                if isinstance(v, SLazy):
                    v = ex.resolve_lazy(v)
                    obj.fields[attr] = v
                return v
            if attr == "__class__":
                return obj.cls
            return self.class_attr(obj, obj.cls, attr)
        if isinstance(obj, SuperRef):
            r = ex.repo.find_method(obj.cls[0], obj.cls[1], attr, after=obj.cls)
            if r is None:
                raise Unsupported(f"super().{attr} not found")
            if r[0] == "func":
                return BoundMethod(obj.self_val, FuncRef(r[1], r[3], cls=(r[1], r[2]), qual=f"{r[2].name}.{attr}"))
            if r[0] == "external":
                return BoundIntrinsic(obj.self_val, r[1], attr)
            raise Unsupported(f"super().{attr}")
        if isinstance(obj, ExternalRef):
            try:
                v = builtins.getattr(obj.obj, attr)
                if isinstance(v, (str, int, float, bool, type(None))) and not isinstance(obj.obj, (str, int, float)):
                    return v  # plain constant of a module/class (os.path.pardir, sys.maxsize, ...)
                return ExternalRef(v, f"{obj.qual}.{attr}")
            except AttributeError:
                raise Unsupported(f"external attribute {obj.qual}.{attr}")
        if isinstance(obj, ModuleRef):
            return ex.module_name(obj.mod, attr)
        if isinstance(obj, ClassRef):
            if obj.node is None:
                return ExternalRef(builtins.getattr(obj.pyobj, attr), f"{obj.name}.{attr}")
            if attr == "__name__":
                return obj.name
            if self.is_enum(obj):
                for st in obj.node.body:
                    if isinstance(st, ast.Assign) and any(isinstance(t, ast.Name) and t.id == attr for t in st.targets):
                        return EnumVal(obj.name, attr)
            r = ex.repo.find_method(obj.mod, obj.node, attr)
            if r and r[0] == "func":
                return FuncRef(r[1], r[3], cls=(r[1], r[2]), qual=f"{r[2].name}.{attr}")
            if r and r[0] == "assign":
                return self.class_constant(r[1], r[2], attr, r[3])
            raise Unsupported(f"class attribute {obj.name}.{attr}")
        from .intrinsics_lib import SPath, path_getattr

        if isinstance(obj, SPath):
            return path_getattr(self, obj, attr)
        if isinstance(obj, (SStr, str, SMarkup)):
            if attr == "__class__":
                import markupsafe

                return ExternalRef(markupsafe.Markup if isinstance(obj, SMarkup) else str, "str")
            return BoundIntrinsic(obj, "str", attr)
        if isinstance(obj, HSet):
            return BoundIntrinsic(obj, "set", attr)
        if isinstance(obj, HListView):
            return BoundIntrinsic(obj, "listview", attr)
        if isinstance(obj, (HList, HJoin)):
            return BoundIntrinsic(obj, "list", attr)
        if isinstance(obj, HDict):
            return BoundIntrinsic(obj, "dict", attr)
        if isinstance(obj, ExcVal):
            if attr in obj.attrs:
                return obj.attrs[attr]
            if attr == "args":
                return tuple(obj.args)
            if attr == "__class__":
                return ClassRef(obj.cls)
            raise Unsupported(f"exception attribute {attr}")
        if isinstance(obj, EnumVal):
            if attr == "name":
                return obj.member
            raise Unsupported(f"enum attribute {attr}")
        if isinstance(obj, tuple) and not isinstance(obj, Tagged):
            return BoundIntrinsic(obj, "tuple", attr)
        if isinstance(obj, FuncRef):
            return self.func_attr(obj, attr)
        if isinstance(obj, SAny):
            if attr in ex.contract.obj_fields:
                from .specs import field_fn

                kind = ex.contract.obj_fields[attr]
                if kind.startswith("="):   # alias of another field (Token.start is Token.index)
                    attr = kind[1:]
                    kind = ex.contract.obj_fields[attr]
                if attr in ex.contract.mutable_fields:
                    v = z3.Select(ex.heap_field_array(attr), obj.t)
                    return ex.unbox(v) if kind == "any" else wrap(v, kind)
                return wrap(field_fn(attr, kind)(obj.t), kind)
            if attr in ex.contract.opaque_methods:
                rt = ex.contract.opaque_methods[attr]
                self.use(f"dynamic dispatch {attr}(): opaque call on an AST node of any subclass")
                if isinstance(rt, tuple) and rt[0] == "cm":
                    pc = PyCallable(lambda ex_, a, k, _o=obj, _m=attr, _h=rt[1]: _h(ex_, _o, _m, list(a), k), attr)
                    pc.is_cm = True
                    return pc
                if callable(rt) and not hasattr(rt, "fresh"):
                    return PyCallable(lambda ex_, a, k, _o=obj, _m=attr, _h=rt: _h(ex_, _o, _m, list(a), **({"kwargs": k} if getattr(_h, "wants_kwargs", False) else {})), attr)
                return PyCallable(lambda ex_, a, k, _m=attr, _t=rt: (_t.fresh(ex_, f"{_m}_result") if _t is not None else None), attr)
            if attr == "get" and ex.contract.obj_protocol == "mapping":
                # Mapping.get(k, d=None): map_at(m, k) if map_has(m, k) else d  (same uninterpreted view as m[k])
                def _get(ex_, a, k, _o=obj):
                    self.use("m.get(k, d) on an opaque Mapping: map_at(m,k) if map_has(m,k) else d")
                    kt, kk = ex_.lift(a[0])
                    has = z3.Function(f"map_has_{kk}", ObjSort, ELEM_SORT[kk], BoolSort)(_o.t, kt)
                    at = z3.Function(f"map_at_{kk}", ObjSort, ELEM_SORT[kk], ObjSort)(_o.t, kt)
                    if ex_.decide(has):
                        return SAny(at)
                    return a[1] if len(a) > 1 else k.get("default")
                return PyCallable(_get, "get")
            if attr in ("items", "keys", "values"):
                self.use("Mapping.items()/keys()/values() of opaque data: an opaque iterable, empty iff the mapping is falsy")
                return PyCallable(lambda ex_, a, k, _o=obj: Tagged("opaque-iter", _o), attr)
            if attr in ex.contract.obj_methods:
                return PyCallable(lambda ex_, a, k, _o=obj, _m=attr: ex_.contract.obj_methods[_m](ex_, _o, a, k), f"{attr}")
            raise Unsupported(f"attribute .{attr} of opaque data")
        if isinstance(obj, (SInt, SBool, SReal)):
            if attr == "__class__":
                return ExternalRef({"int": int, "bool": bool, "real": float}[obj.kind], obj.kind)
            raise Unsupported(f"attribute {attr} of number")
        if ex.is_concrete(obj):
            try:
                v = builtins.getattr(obj, attr)
            except AttributeError:
                ex.raise_builtin("AttributeError", f".{attr}")
            if isinstance(v, (str, int, float, bool, type(None), tuple, range)):
                return v
            return ExternalRef(v, f"{type(obj).__name__}.{attr}")
        raise Unsupported(f"attribute {attr} of {obj!r}")

    def func_attr(self, f: FuncRef, attr):
        raise Unsupported(f"function attribute {attr}")

    def is_enum(self, cref: ClassRef):
        for b in cref.node.bases:
            if isinstance(b, ast.Name) and b.id in ("Enum", "IntEnum", "StrEnum"):
                return True
        return False

    def class_attr(self, obj: HObj, cref: ClassRef, attr):
        ex = self.ex
        if cref.node is None:
            return BoundIntrinsic(obj, cref.name, attr)
        r = ex.repo.find_method(cref.mod, cref.node, attr)
        if r is None:
            if obj.fields.get("__open__"):
                raise Unsupported(f"field {attr} of {cref.name} not given in the contract's Rec type")
            ex.raise_builtin("AttributeError", f"{cref.name}.{attr}")
        if r[0] == "func":
            fn = r[3]
            decos = [ast.unparse(d) for d in fn.decorator_list]
            f = FuncRef(r[1], fn, cls=(r[1], r[2]), qual=f"{r[2].name}.{attr}")
            if "property" in decos:
                return ex.call_repo_function(_strip_deco(f), [obj], {}, obj, None)
            if "staticmethod" in decos:
                return f
            return BoundMethod(obj, f)
        if r[0] == "assign":
            return self.class_constant(r[1], r[2], attr, r[3])
        if r[0] == "external":
            return BoundIntrinsic(obj, r[1], attr)
        raise Unsupported(f"class attribute {cref.name}.{attr}")

    def class_constant(self, mod, cls, attr, expr):
        ex = self.ex
        key = ("classconst", mod.name, cls.name, attr)
        if key in ex.sym_names:
            return ex.sym_names[key]
        import re as _re

        try:
            v = ex.eval(expr, _frame_for(ex, mod))
        except Unsupported:
            v = _from_native(ex.native_constant(mod.name, f"{cls.name}.{attr}"))
        if isinstance(v, _re.Pattern):
            ex.pattern_names[attr] = v
        if ex.is_concrete(v) or isinstance(v, (ClassRef, ExternalRef, EnumVal)):
            ex.sym_names[key] = v
        return v

    def obj_truth(self, o: HObj):
        ex = self.ex
        if o.cls.node is not None:
            for name in ("__bool__", "__len__"):
                r = ex.repo.find_method(o.cls.mod, o.cls.node, name)
                if r and r[0] == "func":
                    v = ex.call_repo_function(FuncRef(r[1], r[3], cls=(r[1], r[2]), qual=f"{r[2].name}.{name}"), [o], {}, o, None)
                    return ex.truth(v)
                if r and r[0] == "external":
                    raise Unsupported(f"truth of {o!r} via external {name}")
        return True

    def any_truth(self, v: SAny):
        self.use("truthiness of opaque data (uninterpreted)")
        return F_any_truth(v.t)

    # ----------------------------------------------------------- isinstance
    def type_names(self, t):
        ex = self.ex
        if isinstance(t, tuple):
            return [x for e in t for x in self.type_names(e)]
        if isinstance(t, ClassRef):
            return [t]
        if isinstance(t, ExternalRef):
            return [t]
        raise Unsupported(f"isinstance type {t!r}")

    def isinstance_(self, v, t):
        ex = self.ex
        res = False
        for ty in self.type_names(t):
            r = self.isinstance1(v, ty)
            if r is True:
                return True
            if r is not False:
                res = r if res is False else z3.Or(res, r)
        return res

    def isinstance1(self, v, ty):
        ex = self.ex
        rep = _REP.get(type(v))
        if isinstance(v, SReal):
            rep = decimal.Decimal(0) if v.num == "decimal" else 0.0
        if isinstance(v, SMarkup):
            import markupsafe

            rep = markupsafe.Markup("")
        if isinstance(ty, ExternalRef):
            pt = ty.obj
            if not isinstance(pt, type):
                pt = getattr(pt, "__origin__", None)  # typing.Mapping -> collections.abc.Mapping
            if not isinstance(pt, type):
                raise Unsupported(f"isinstance against {ty.qual}")
            if rep is not None:
                return isinstance(rep, pt)
            if is_tagged(v, "gen", "genfunc"):
                return issubclass(collections.abc.Iterator, pt) or pt in (collections.abc.Iterable,)
            if is_tagged(v, "rangeslice"):
                return isinstance(range(0), pt)
            if isinstance(v, (HList, HJoin)):
                return isinstance([], pt)
            if isinstance(v, SSeq) and v.elem != "char":
                return isinstance([], pt)       # a slice of a list is a list
            if isinstance(v, HDict):
                return isinstance({}, pt)
            if isinstance(v, HObj):
                if v.cls.node is None:
                    return issubclass(v.cls.pyobj, pt) if v.cls.pyobj else False
                for m, c in ex.repo.class_mro(v.cls.mod, v.cls.node):
                    if m is None:
                        try:
                            base = ex.external(c).obj if "." in c else builtins.__dict__.get(c) or ex.module_name(v.cls.mod, c).obj
                        except Exception:  # noqa: BLE001
                            continue
                        if isinstance(base, type) and issubclass(base, pt):
                            return True
                # abc structural checks (Sized, Iterable...) through dunder methods
                hook = {"Sized": "__len__", "Iterable": "__iter__", "Container": "__contains__", "Hashable": "__hash__"}.get(pt.__name__)
                if hook and ex.repo.find_method(v.cls.mod, v.cls.node, hook):
                    return True
                return False
            if isinstance(v, ExcVal):
                return pt.__name__ in ex.exc_ancestors(v)
            if isinstance(v, SAny):
                self.use("dynamic type tests on opaque data (uninterpreted predicates)")
                return z3.Function(f"isinstance_{pt.__name__}", ObjSort, BoolSort)(v.t)
            if isinstance(v, EnumVal):
                return False
            if isinstance(v, (FuncRef, BoundMethod)):
                return pt in (collections.abc.Callable,)
            if ex.is_concrete(v):
                return isinstance(v, pt)
            raise Unsupported(f"isinstance of {v!r}")
        # repo class
        if isinstance(v, HObj) and v.cls.node is not None:
            for m, c in ex.repo.class_mro(v.cls.mod, v.cls.node):
                if m is not None and c.name == ty.name and m.name == ty.mod.name:
                    return True
            return False
        if isinstance(v, ExcVal):
            return ty.name in ex.exc_ancestors(v)
        if isinstance(v, EnumVal):
            return v.enum == ty.name
        if isinstance(v, SAny):
            self.use("dynamic type tests on opaque data (uninterpreted predicates)")
            return z3.Function(f"isinstance_{ty.name}", ObjSort, BoolSort)(v.t)
        return False

    def hasattr_(self, v, name):
        ex = self.ex
        if not isinstance(name, str):
            raise Unsupported("hasattr with symbolic name")
        rep = _REP.get(type(v))
        if isinstance(v, SReal):
            rep = 0.0
        if rep is not None:
            return hasattr(rep, name)
        if isinstance(v, SMarkup):
            import markupsafe

            return hasattr(markupsafe.Markup(""), name)
        if isinstance(v, HObj):
            if name in v.fields:
                return True
            if v.cls.node is None:
                return hasattr(v.cls.pyobj, name) if v.cls.pyobj else False
            return ex.repo.find_method(v.cls.mod, v.cls.node, name) is not None
        if isinstance(v, (HList, HJoin)):
            return hasattr([], name)
        if isinstance(v, HDict):
            return hasattr({}, name)
        if isinstance(v, SAny):
            self.use("hasattr on opaque data (uninterpreted predicate per protocol name)")
            return z3.Function(f"hasattr_{name}", ObjSort, BoolSort)(v.t)
        if isinstance(v, (FuncRef, BoundMethod)):
            return False
        if isinstance(v, EnumVal):
            return name in ("name", "value")
        if ex.is_concrete(v):
            return hasattr(v, name)
        raise Unsupported(f"hasattr on {v!r}")

    # -------------------------------------------------------- str / repr
    def str_(self, v):
        ex = self.ex
        from .intrinsics_lib import SPath, P_abs, P_pardir, P_noname, P_suffix

        if isinstance(v, SPath):
            s = ex.fresh("pathstr", "str")
            ex.assume(z3.And(P_abs(s.t) == v.abs, P_pardir(s.t) == v.pardir, P_noname(s.t) == v.noname, P_suffix(s.t) == v.suffix))
            return s
        if isinstance(v, (SStr, str)):
            return v
        if isinstance(v, SMarkup):
            return v
        if isinstance(v, (SInt,)):
            self.use("str(int) (uninterpreted int2str; CPython's 4300-digit conversion limit is not modelled: integers are taken below 10**4300)")
            return SStr(F_int2str(v.t))
        if isinstance(v, SBool):
            if ex.pure:
                return SStr(z3.If(v.t, str_const("True"), str_const("False")))
            return "True" if ex.decide(v.t) else "False"
        if isinstance(v, SReal):
            self.use("str(float|Decimal) (uninterpreted real2str)")
            return SStr(F_real2str(v.t))
        if isinstance(v, SAny):
            self.use("str(opaque) (uninterpreted)")
            return SStr(F_any_str(v.t))
        if isinstance(v, EnumVal):
            return f"{v.enum}.{v.member}"
        if isinstance(v, HObj):
            r = ex.repo.find_method(v.cls.mod, v.cls.node, "__str__") if v.cls.node is not None else None
            if r and r[0] == "func":
                return ex.call_repo_function(FuncRef(r[1], r[3], cls=(r[1], r[2]), qual=f"{r[2].name}.__str__"), [v], {}, v, None)
            return ex.fresh("objstr", "str")
        if isinstance(v, (HList, HDict, ExcVal, tuple, ClassRef, FuncRef)):
            return ex.fresh("str", "str")
        if ex.is_concrete(v):
            return ex.concrete_op(lambda: str(v))
        raise Unsupported(f"str of {v!r}")

    def repr_(self, v):
        ex = self.ex
        if ex.is_concrete(v):
            return repr(v)
        if isinstance(v, SStr):
            return SStr(F_repr_str(v.t))
        if isinstance(v, SInt):
            return SStr(F_int2str(v.t))
        return ex.fresh("repr", "str")

    # ------------------------------------------------------------ construct
    def construct(self, cref: ClassRef, args, kwargs, frame):
        ex = self.ex
        if cref.node is None:
            return self.call(ExternalRef(cref.pyobj, cref.name), args, kwargs, frame)
        # exceptions: construction is total; fields from LiquidError.__init__
        mro = ex.repo.class_mro(cref.mod, cref.node)
        names = []
        for m, c in mro:
            names.append(c.name if m is not None else c.split(".")[-1])
        if any(n in _BUILTIN_EXC_NAMES for n in names):
            attrs = {"token": kwargs.get("token"), "template_name": kwargs.get("template_name")}
            for k, v in kwargs.items():
                attrs[k] = v
            return ExcVal(cref.name, args, attrs, clsref=cref)
        if self.is_enum(cref):
            raise Unsupported("enum construction by value")
        decos = [ast.unparse(d) for d in cref.node.decorator_list]
        if cref.name in ex.contract.opaque_classes:
            return self.construct_opaque(cref, args, kwargs, frame)
        obj = HObj(cref, {})
        if any(d.startswith("dataclass") for d in decos):
            self.dataclass_init(obj, cref, args, kwargs, frame)
            return obj
        if any(isinstance(b, ast.Name) and b.id == "NamedTuple" for b in cref.node.bases):
            # typing.NamedTuple: positional/keyword fields in declaration order (read through attribute names)
            self.use("typing.NamedTuple construction: fields in declaration order, read by name")
            self.dataclass_init(obj, cref, args, kwargs, frame)
            return obj
        r = ex.repo.find_method(cref.mod, cref.node, "__init__")
        if r is None:
            return obj
        if r[0] == "func":
            ex.call_repo_function(FuncRef(r[1], r[3], cls=(r[1], r[2]), qual=f"{r[2].name}.__init__"), [obj] + list(args), kwargs, obj, frame)
            return obj
        if r[0] == "external":
            if (r[1], "__init__") not in _METHODS and not args and not kwargs:
                return obj  # object.__init__
            self.external_method(obj, r[1], "__init__", args, kwargs)
            return obj
        raise Unsupported(f"constructor of {cref.name}")

    def construct_opaque(self, cref, args, kwargs, frame):
        """Instance of a (data)class as an opaque object of the component heap: a fresh reference,
        distinct from every object the function received, with its declared fields initialised."""
        ex = self.ex
        tmp = HObj(cref, {})
        self.dataclass_init(tmp, cref, args, kwargs, frame)
        o = ex.fresh(f"new_{cref.name}", "any")
        ex.assume(z3.Function("is_fresh_object", ObjSort, BoolSort)(o.t))
        self.use(f"{cref.name}(...): a fresh object, distinct from all objects reachable before the call")
        from .specs import field_fn

        for fname, val in tmp.fields.items():
            kind = ex.contract.obj_fields.get(fname)
            if kind is None or kind == "sink":
                continue
            if fname in ex.contract.mutable_fields:
                arr = ex.heap_field_array(fname)
                ex.heap_fields[fname] = z3.Store(arr, o.t, ex.to_field_term(val, kind))
            else:
                ex.assume(field_fn(fname, kind)(o.t) == ex.to_field_term(val, kind))
        return o

    def dataclass_init(self, obj, cref, args, kwargs, frame):
        ex = self.ex
        fields = []
        for m, c in reversed(ex.repo.class_mro(cref.mod, cref.node)):
            if m is None:
                continue
            for st in c.body:
                if isinstance(st, ast.AnnAssign) and isinstance(st.target, ast.Name):
                    ann = ast.unparse(st.annotation)
                    if ann.startswith("ClassVar"):
                        continue
                    fields = [f for f in fields if f[0] != st.target.id] + [(st.target.id, st.value, m)]
        args = list(args)
        for name, default, m in fields:
            if args:
                obj.fields[name] = args.pop(0)
            elif name in kwargs:
                obj.fields[name] = kwargs.pop(name)
            elif default is not None:
                dv = default
                if isinstance(dv, ast.Call) and ast.unparse(dv.func) == "field":
                    kw = {k.arg: k.value for k in dv.keywords}
                    if "default_factory" in kw:
                        obj.fields[name] = ex.call(ex.eval(kw["default_factory"], _frame_for(ex, m)), [], {}, frame)
                    elif "default" in kw:
                        obj.fields[name] = ex.eval(kw["default"], _frame_for(ex, m))
                    else:
                        ex.raise_builtin("TypeError", f"missing dataclass field {name}")
                else:
                    obj.fields[name] = ex.eval(dv, _frame_for(ex, m))
            else:
                ex.raise_builtin("TypeError", f"missing dataclass field {name}")
        if kwargs:
            ex.raise_builtin("TypeError", f"unexpected dataclass fields {sorted(kwargs)}")

    # ----------------------------------------------------------- decorators
    def apply_decorators(self, fref, decos, args, kwargs, self_val, frame):
        ex = self.ex
        names = [ast.unparse(d) for d in decos]
        for n in names:
            base = n.split("(")[0]
            if base in ("staticmethod", "classmethod", "property", "abstractmethod", "overload", "contextmanager",
                        "with_context", "with_environment", "wraps"):
                continue
            if base in ("string_filter", "sequence_filter", "math_filter", "liquid_filter"):
                if getattr(fref, "undecorated", False):
                    continue
                # compose with the real wrapper from liquid2/filter.py
                deco = ex.module_name(fref.mod, base)
                inner = FuncRef(fref.mod, fref.node, cls=fref.cls, closure=fref.closure, qual=fref.qual)
                inner.undecorated = True
                wrapper_factory_frame = Frame_(deco.mod, fname=base)
                wrapper_factory_frame.locals[deco.node.args.args[0].arg] = inner
                wrapper_factory_frame.fnode = deco.node
                try:
                    ex.exec_block(deco.node.body, wrapper_factory_frame)
                    wrapper = None
                except ReturnSig as r:
                    wrapper = r.value
                if not isinstance(wrapper, FuncRef):
                    raise Unsupported(f"decorator {base} did not return a function")
                return ex.call(wrapper, args, kwargs, frame)
            if base.startswith("functools.lru_cache") or base.startswith("lru_cache") or base in ("cache", "functools.cache"):
                ex.assumptions_used.add(f"memoising decorator {base} on {fref.qual} treated as transparent")
                continue
            raise Unsupported(f"decorator {n} on {fref.qual}")
        return NotImplemented

    # ------------------------------------------------------ context managers
    def context_manager(self, fv, args, kwargs, frame):
        ex = self.ex
        f = None
        selfv = None
        if isinstance(fv, BoundMethod) and isinstance(ex.contract.opaque_methods.get(fv.func.node.name), tuple):
            hook = ex.contract.opaque_methods[fv.func.node.name][1]

            def cm_hook(body, _o=fv.self_val, _a=args, _k=kwargs, _m=fv.func.node.name):
                body(hook(ex, _o, _m, list(_a), _k))

            return cm_hook
        if isinstance(fv, BoundMethod):
            f, selfv = fv.func, fv.self_val
            args = [selfv] + list(args)
        elif isinstance(fv, FuncRef):
            f = fv
        if isinstance(fv, PyCallable) and getattr(fv, "is_cm", False):
            # an opaque context manager (contract hook): enter is the hook, the body runs, exit does nothing observable
            def cm_opaque(body, _fv=fv, _a=args, _k=kwargs):
                v = _fv.fn(ex, _a, _k)
                body(v)

            return cm_opaque
        if isinstance(fv, ExternalRef) and fv.qual.endswith("suppress"):
            names = [a.obj.__name__ if isinstance(a, ExternalRef) else a.name for a in args]
            self.use("contextlib.suppress(E): swallows exceptions of class E raised by the body")

            def cm(body):
                try:
                    body(None)
                except RaiseSig as rs:
                    if not any(n in ex.exc_ancestors(rs.exc) for n in names):
                        raise

            return cm
        if f is not None and any(ast.unparse(d) == "contextmanager" for d in f.node.decorator_list):
            target = ex.target_of(f)
            if target:
                ex.inlined.add(target)
            return lambda body: ex.run_generator_cm(f, args, kwargs, selfv, body)
        return None

    # ---------------------------------------------------------------- calls
    def call(self, fv, args, kwargs, frame):
        ex = self.ex
        if isinstance(fv, BoundIntrinsic):
            return self.method(fv.recv, fv.tname, fv.mname, args, kwargs)
        obj = fv.obj
        import re as _re

        if isinstance(getattr(obj, "__self__", None), _re.Pattern) and obj.__name__ in ("match", "fullmatch", "search"):
            from .regex_model import regex_match

            return regex_match(self, obj.__self__, args, kwargs, obj.__name__)
        h = _EXT.get(_key(obj))
        if h is not None:
            return h(self, args, kwargs)
        all_conc = all(ex.is_concrete(a) for a in args) and all(ex.is_concrete(a) for a in kwargs.values())
        if all_conc and (_hashable(obj) and obj in PURE_EXTERNALS):
            return ex.concrete_op(lambda: obj(*args, **kwargs))
        if isinstance(obj, type) and issubclass(obj, BaseException):
            return ExcVal(obj.__name__, args)
        if all_conc and getattr(obj, "__self__", None) is not None and isinstance(obj.__self__, (str, int, float, tuple, frozenset, bytes)):
            return ex.concrete_op(lambda: obj(*args, **kwargs))
        raise Unsupported(f"call to external {fv.qual}")

    def external_method(self, recv, base, name, args, kwargs):
        return self.method(recv, base, name, args, kwargs)

    def method(self, recv, tname, mname, args, kwargs):
        ex = self.ex
        if tname == "re.Match":
            from .regex_model import match_method

            return match_method(self, recv, mname, args, kwargs)
        if isinstance(recv, (str, int, float, tuple, range, frozenset)) and not isinstance(recv, Tagged) and all(ex.is_concrete(a) for a in args) and all(ex.is_concrete(a) for a in kwargs.values()):
            return ex.concrete_op(lambda: builtins.getattr(recv, mname)(*args, **kwargs))
        h = _METHODS.get((tname, mname))
        if h is None:
            if ex.is_concrete(recv) and all(ex.is_concrete(a) for a in args):
                return ex.concrete_op(lambda: builtins.getattr(recv, mname)(*args, **kwargs))
            raise Unsupported(f"method {tname}.{mname}")
        return h(self, recv, args, kwargs)


# helpers ---------------------------------------------------------------------
from .engine import Frame as Frame_  # noqa: E402


def _from_native(v):
    """Values folded natively -> engine values (enum members, containers)."""
    import enum

    if isinstance(v, enum.Enum):
        return EnumVal(type(v).__name__, v.name)
    if isinstance(v, dict):
        return HDict(concrete={_from_native(k): _from_native(x) for k, x in v.items()})
    if isinstance(v, list):
        return HList(items=[_from_native(x) for x in v])
    if isinstance(v, tuple):
        return tuple(_from_native(x) for x in v)
    if isinstance(v, frozenset):
        return Tagged("set", tuple(sorted((_from_native(x) for x in v), key=repr)))
    return v


def _frame_for(ex, mod):
    return Frame_(mod, fname=f"<module {mod.name}>")


def _strip_deco(f: FuncRef):
    g = FuncRef(f.mod, f.node, cls=f.cls, closure=f.closure, qual=f.qual)
    return g


def _hashable(o):
    try:
        hash(o)
        return True
    except TypeError:
        return False


def _key(obj):
    try:
        hash(obj)
        return obj
    except TypeError:
        return id(obj)


def _default_of(kind):
    return {"int": 0, "str": "", "bool": False}.get(kind, 0)


def py_floordiv(a, b):
    q = a / b  # z3: a = b*q + r with 0 <= r < |b|
    return z3.If(b > 0, q, z3.If(a % b == 0, q, q - 1))


NONE_OBJ = z3.Const("box.None", ObjSort)   # the one denotation of None among opaque values


def F_is_none(t):
    return t == NONE_OBJ
F_is_true = z3.Function("is_true", ObjSort, BoolSort)
F_is_false = z3.Function("is_false", ObjSort, BoolSort)

_BUILTIN_EXC_NAMES = {n for n, o in vars(builtins).items() if isinstance(o, type) and issubclass(o, BaseException)}

_REP = {SInt: 0, SBool: True, SStr: "", int: 0, bool: True, str: "", float: 0.0, type(None): None, tuple: ()}

_PYOPS = {
    ast.Add: operator.add, ast.Sub: operator.sub, ast.Mult: operator.mul, ast.Div: operator.truediv,
    ast.FloorDiv: operator.floordiv, ast.Mod: operator.mod, ast.Pow: operator.pow, ast.LShift: operator.lshift,
    ast.RShift: operator.rshift, ast.BitAnd: operator.and_, ast.BitOr: operator.or_, ast.BitXor: operator.xor,
}
_PYCMP = {
    ast.Eq: operator.eq, ast.NotEq: operator.ne, ast.Lt: operator.lt, ast.LtE: operator.le,
    ast.Gt: operator.gt, ast.GtE: operator.ge,
}

_EXT: dict = {}
_METHODS: dict = {}


def ext(*objs):
    def deco(fn):
        for o in objs:
            _EXT[_key(o)] = fn
        return fn

    return deco


def meth(tname, *names):
    def deco(fn):
        for n in names:
            _METHODS[(tname, n)] = fn
        return fn

    return deco


from . import intrinsics_lib  # noqa: E402,F401  (registers handlers)
