"""Assumed contract of `re` (DESIGN 8): a match at `pos` spans [pos, end] with
pos + minwidth <= end <= len(source), group() == source[pos:end]; per-pattern
minimum widths, the names of top-level alternatives (lastgroup) and the text of
purely literal alternatives are *derived on every run* from the compiled pattern
with re._parser; optional single-character marker groups range over
{None, '', '-', '+', '~'}."""
from __future__ import annotations

import re
import re._constants as C
import re._parser as P

import z3

from .values import *  # noqa: F403

_INFO_CACHE: dict = {}


def _literal_of(alt):
    """The literal text of an alternative that is a named group around plain characters."""
    data = alt.data
    if len(data) == 1 and data[0][0] == C.SUBPATTERN:
        data = data[0][1][3].data
    out = []
    for op, arg in data:
        if op == C.LITERAL:
            out.append(chr(arg))
        else:
            return None
    return "".join(out)


def _is_integer_pattern(t):
    """Is the whole pattern `-?[0-9]+` (an optional minus sign and one or more ASCII digits)? Every match is then a string int() accepts."""
    data = list(t.data)
    if data and data[0][0] == C.MAX_REPEAT and data[0][1][0] == 0 and data[0][1][1] == 1 and list(data[0][1][2].data) == [(C.LITERAL, ord("-"))]:
        data = data[1:]
    if len(data) != 1 or data[0][0] != C.MAX_REPEAT:
        return False
    lo, hi, body = data[0][1]
    if lo < 1 or len(body.data) != 1:
        return False
    op, arg = body.data[0]
    return op == C.IN and list(arg) == [(C.RANGE, (ord("0"), ord("9")))]


def pattern_info(p: re.Pattern):
    key = (p.pattern, p.flags)
    if key in _INFO_CACHE:
        return _INFO_CACHE[key]
    t = P.parse(p.pattern, p.flags)
    lo, hi = t.getwidth()
    alts = []
    if len(t.data) == 1 and t.data[0][0] == C.BRANCH:
        rev = {v: k for k, v in p.groupindex.items()}
        for alt in t.data[0][1][1]:
            name = None
            if len(alt.data) == 1 and alt.data[0][0] == C.SUBPATTERN:
                name = rev.get(alt.data[0][1][0])
            alts.append({"name": name, "min": alt.getwidth()[0], "literal": _literal_of(alt)})
    info = {"min": lo, "max": hi if hi < 10 ** 9 else None, "alts": alts, "groups": dict(p.groupindex), "ngroups": p.groups,
            "int_str": _is_integer_pattern(t)}
    _INFO_CACHE[key] = info
    return info


MARKERS = (None, "", "-", "+", "~")


def is_marker_group(p: re.Pattern, name_or_index):
    """A group whose whole body is `[\\-+~]?` (optional whitespace-control marker)."""
    t = P.parse(p.pattern, p.flags)
    gid = p.groupindex.get(name_or_index) if isinstance(name_or_index, str) else name_or_index

    def walk(items):
        for op, arg in items:
            if op == C.SUBPATTERN:
                if arg[0] == gid:
                    body = arg[3].data
                    if len(body) == 1 and body[0][0] in (C.MAX_REPEAT, C.MIN_REPEAT):
                        mn, mx, sub = body[0][1]
                        if (mn, mx) == (0, 1) and len(sub.data) == 1 and sub.data[0][0] == C.IN:
                            chars = {chr(a) for o, a in sub.data[0][1] if o == C.LITERAL}
                            return chars <= {"-", "+", "~"}
                    return False
                r = walk(arg[3].data)
                if r is not None:
                    return r
            elif op == C.BRANCH:
                for alt in arg[1]:
                    r = walk(alt.data)
                    if r is not None:
                        return r
            elif op in (C.MAX_REPEAT, C.MIN_REPEAT):
                r = walk(arg[2].data)
                if r is not None:
                    return r
            elif op in (C.ASSERT, C.ASSERT_NOT):
                r = walk(arg[1].data)
                if r is not None:
                    return r
        return None

    return bool(walk(t.data))


def regex_match(I, pattern: re.Pattern, args, kw, mode="match"):
    """pattern.match(source, pos) on a symbolic source."""
    ex = I.ex
    src = args[0]
    pos = args[1] if len(args) > 1 else kw.get("pos", 0)
    if ex.is_concrete(src) and ex.is_concrete(pos) and mode in ("match", "fullmatch"):
        m = getattr(pattern, mode)(src, pos) if mode == "match" else pattern.fullmatch(src)
        return None if m is None else ExternalRef(m, "re.Match")
    if mode != "match":
        raise Unsupported(f"re {mode} on a symbolic string")
    info = pattern_info(pattern)
    st = ex.to_str_term(src)
    pt = ex.to_int_term(pos)
    n = z3.Length(st)
    I.use(f"re: /{pattern.pattern[:40]}{'...' if len(pattern.pattern) > 40 else ''}/.match(s, pos) spans [pos, end], pos+{info['min']} <= end <= len(s); group() = s[pos:end]")
    matched = ex.fresh("re_matched", "bool")
    always = ex.contract.regex_total.get(_pattern_name(ex, pattern))
    if always:
        # declared regex fact (validated by the bounded regex check): the pattern matches at every pos < len
        ex.used_intrinsics.add(f"regex fact: {always}")
        ex.assume(z3.Implies(z3.And(pt >= 0, pt < n), matched.t))
    if info["min"] > 0:
        ex.assume(z3.Implies(pt + info["min"] > n, z3.Not(matched.t)))
    if not ex.decide(matched.t):
        return None
    end = ex.fresh("re_end", "int")
    ex.assume(z3.And(end.t >= pt + info["min"], end.t <= n, pt >= 0))
    if info["max"] is not None:
        ex.assume(end.t <= pt + info["max"])
    m = HObj(ClassRef("re.Match"), {"_pattern": pattern, "_src": src, "_pos": pos, "_end": end, "_kind": None})
    if info.get("int_str"):
        from .intrinsics import P_is_int_str
        I.use("re: a match of /-?[0-9]+/ is a string int() accepts (is_int_str)")
        ex.assume(P_is_int_str(z3.SubSeq(st, pt, end.t - pt)))
    names = [a["name"] for a in info["alts"] if a["name"]]
    if names and len(names) == len(info["alts"]):
        kind = ex.fresh("re_lastgroup", "str")
        ex.assume(z3.Or(*[kind.t == str_const(nm) for nm in names]))
        for a in info["alts"]:
            k = kind.t == str_const(a["name"])
            ex.assume(z3.Implies(k, end.t >= pt + a["min"]))
            if a["literal"] is not None:
                ex.assume(z3.Implies(k, z3.And(end.t == pt + len(a["literal"]), z3.SubSeq(st, pt, len(a["literal"])) == str_const(a["literal"]))))
        m.fields["_kind"] = kind
    return m


def _pattern_name(ex, pattern):
    for k, v in ex.pattern_names.items():
        if v is pattern:
            return k
    return None


def match_getattr(I, m: HObj, attr):
    if attr == "lastgroup":
        return m.fields["_kind"]
    if attr in ("group", "start", "end", "groups", "span"):
        return BoundIntrinsic(m, "re.Match", attr)
    raise Unsupported(f"re.Match.{attr}")


def match_method(I, m: HObj, name, args, kw):
    ex = I.ex
    p = m.fields["_pattern"]
    st = ex.to_str_term(m.fields["_src"])
    pt = ex.to_int_term(m.fields["_pos"])
    end = m.fields["_end"]
    if name == "start" and not args:
        return m.fields["_pos"]
    if name == "end" and not args:
        return end
    if name == "group":
        g = args[0] if args else 0
        if g == 0:
            return SStr(z3.SubSeq(st, pt, end.t - pt))
        if is_marker_group(p, g):
            I.use("re: an optional marker group `[\\-+~]?` yields None, '', '-', '+' or '~'")
            key = ("group", id(m), g)
            if key not in ex.shared:
                tag = ex.fresh(f"marker_{g}", "int").t
                from .api import Const

                lz = SLazy(tag, [Const(v) for v in MARKERS], f"group({g!r})")
                lz.defer = True
                ex.shared[key] = lz
            return ex.shared[key]  # resolved lazily (a dict lookup that covers all five values does not fork)
        if isinstance(g, (str, int)):
            I.use("re: a text group that takes part in the alternative handled is a substring of the match")
            key = ("group", id(m), g)
            if key not in ex.shared:
                a = ex.fresh(f"g_{g}_lo", "int").t
                b = ex.fresh(f"g_{g}_hi", "int").t
                ex.assume(z3.And(pt <= a, a <= b, b <= end.t))
                ex.shared[key] = (a, b)
            a, b = ex.shared[key]
            return SStr(z3.SubSeq(st, a, b - a))
    raise Unsupported(f"re.Match.{name}{tuple(args)}")
