"""Index of the repository source: the verified text is re-read from the working
tree on every run (no copy of repository code lives under /verif)."""
from __future__ import annotations

import ast
import hashlib
import os
from typing import Optional


class ModuleInfo:
    def __init__(self, repo: "Repo", name: str, path: str):
        self.repo = repo
        self.name = name
        self.path = path
        with open(path, "r", encoding="utf-8") as fd:
            self.source = fd.read()
        self.tree = ast.parse(self.source, filename=path)
        if not os.environ.get("PYVC_NO_ALPHA"):
            from .alpha import normalise_module

            # locals renamed back to the names the contracts were written against (alpha-conversion, see pyvc/alpha.py)
            self.renamed = []
            normalise_module(self.tree, name, self.renamed)
        self.functions: dict[str, ast.AST] = {}
        self.classes: dict[str, ast.ClassDef] = {}
        self.assigns: dict[str, ast.expr] = {}
        self.imports: dict[str, tuple[str, Optional[str]]] = {}
        self._scan(self.tree.body)

    def _scan(self, body):
        for st in body:
            if isinstance(st, (ast.FunctionDef, ast.AsyncFunctionDef)):
                self.functions[st.name] = st
            elif isinstance(st, ast.ClassDef):
                self.classes[st.name] = st
            elif isinstance(st, ast.Assign):
                for t in st.targets:
                    if isinstance(t, ast.Name):
                        self.assigns[t.id] = st.value
            elif isinstance(st, ast.AnnAssign) and st.value is not None:
                if isinstance(st.target, ast.Name):
                    self.assigns[st.target.id] = st.value
            elif isinstance(st, ast.Import):
                for a in st.names:
                    # `import a.b` binds the name `a` to the package a; `import a.b as c` binds c to the submodule
                    self.imports[a.asname or a.name.split(".")[0]] = (a.name if a.asname else a.name.split(".")[0], None)
            elif isinstance(st, ast.ImportFrom):
                mod = self._abs_module(st.module, st.level)
                for a in st.names:
                    self.imports[a.asname or a.name] = (mod, a.name)
            elif isinstance(st, ast.If):
                # `if TYPE_CHECKING:` imports are dropped (typing only).
                test = st.test
                if isinstance(test, ast.Name) and test.id == "TYPE_CHECKING":
                    continue
                self._scan(st.body)
                self._scan(st.orelse)
            elif isinstance(st, ast.Try):
                self._scan(st.body)

    def _abs_module(self, module: Optional[str], level: int) -> str:
        if not level:
            return module or ""
        parts = self.name.split(".")
        is_pkg = os.path.basename(self.path) == "__init__.py"
        base = parts if is_pkg else parts[:-1]
        if level > 1:
            base = base[: len(base) - (level - 1)]
        return ".".join(base + ([module] if module else []))

    def find(self, qualname: str):
        """Locate `func`, `Class.method`, `func.inner`, `Class.method.inner`."""
        parts = qualname.split(".")
        body = self.tree.body
        node = None
        for p in parts:
            node = None
            for st in _walk_defs(body):
                if isinstance(st, (ast.FunctionDef, ast.AsyncFunctionDef, ast.ClassDef)) and st.name == p:
                    node = st  # last definition wins (overloads come first)
            if node is None:
                return None
            body = node.body
        return node

    def segment(self, node) -> str:
        return ast.get_source_segment(self.source, node) or ""


def _walk_defs(body):
    for st in body:
        if isinstance(st, (ast.FunctionDef, ast.AsyncFunctionDef, ast.ClassDef)):
            yield st
        elif isinstance(st, ast.If):
            yield from _walk_defs(st.body)
            yield from _walk_defs(st.orelse)
        elif isinstance(st, ast.Try):
            yield from _walk_defs(st.body)


class Repo:
    def __init__(self, root: str = "/repo"):
        self.root = os.path.abspath(root)
        self._mods: dict[str, Optional[ModuleInfo]] = {}

    def module_path(self, name: str) -> Optional[str]:
        rel = name.replace(".", "/")
        for cand in (rel + ".py", rel + "/__init__.py"):
            p = os.path.join(self.root, cand)
            if os.path.isfile(p):
                return p
        return None

    def module(self, name: str) -> Optional[ModuleInfo]:
        if name not in self._mods:
            p = self.module_path(name)
            self._mods[name] = ModuleInfo(self, name, p) if p else None
        return self._mods[name]

    def is_repo_module(self, name: str) -> bool:
        return self.module_path(name) is not None

    def all_modules(self, package: str = "liquid2") -> list[ModuleInfo]:
        out = []
        base = os.path.join(self.root, package)
        for dirpath, dirnames, filenames in os.walk(base):
            dirnames[:] = sorted(d for d in dirnames if d != "__pycache__")
            for fn in sorted(filenames):
                if fn.endswith(".py"):
                    rel = os.path.relpath(os.path.join(dirpath, fn), self.root)[:-3]
                    name = rel.replace(os.sep, ".")
                    if name.endswith(".__init__"):
                        name = name[: -len(".__init__")]
                    m = self.module(name)
                    if m:
                        out.append(m)
        return out

    def resolve(self, target: str):
        """'liquid2.output:LimitedStringIO.write' -> (ModuleInfo, node)."""
        modname, _, qual = target.partition(":")
        qual = qual.split("#")[0]          # "mod:func#label" is a second (bounded) contract on the same function
        mod = self.module(modname)
        if mod is None:
            return None, None
        return mod, mod.find(qual)

    def resolve_name(self, mod: ModuleInfo, name: str, depth: int = 0):
        """Follow imports of `name` in `mod` to its defining repo module.
        Returns ('func'|'class'|'assign', ModuleInfo, node) or ('external', qualified, None) or None."""
        if depth > 8:
            return None
        if name in mod.functions:
            return ("func", mod, mod.functions[name])
        if name in mod.classes:
            return ("class", mod, mod.classes[name])
        if name in mod.assigns:
            return ("assign", mod, mod.assigns[name])
        if name in mod.imports:
            m, attr = mod.imports[name]
            if attr is None:
                return ("external", m, None) if not self.is_repo_module(m) else ("module", self.module(m), None)
            target = self.module(m)
            if target is None:
                return ("external", f"{m}.{attr}", None)
            r = self.resolve_name(target, attr, depth + 1)
            if r is None:
                sub = self.module(f"{m}.{attr}")
                if sub is not None:
                    return ("module", sub, None)
            return r
        return None

    def class_mro(self, mod: ModuleInfo, cls: ast.ClassDef):
        """Linearised list of (ModuleInfo|None, ClassDef|str) — repo classes as nodes,
        external bases as dotted names. Simple DFS left-to-right without duplicates
        (adequate for the single-inheritance-plus-mixin shapes in this repository)."""
        out = []
        seen = set()

        def visit(m, c):
            key = (m.name, c.name)
            if key in seen:
                return
            seen.add(key)
            out.append((m, c))
            for b in c.bases:
                bname = None
                if isinstance(b, ast.Name):
                    bname = b.id
                elif isinstance(b, ast.Subscript) and isinstance(b.value, ast.Name):
                    bname = b.value.id
                elif isinstance(b, ast.Attribute):
                    out.append((None, ast.unparse(b)))
                    continue
                if bname is None:
                    continue
                r = self.resolve_name(m, bname)
                if r and r[0] == "class":
                    visit(r[1], r[2])
                elif r and r[0] == "external":
                    out.append((None, r[1]))
                else:
                    out.append((None, bname))

        visit(mod, cls)
        return out

    def find_method(self, mod: ModuleInfo, cls: ast.ClassDef, name: str, after=None):
        """Resolve method `name` through the MRO; `after=(mod,cls)` starts after that class (super())."""
        mro = self.class_mro(mod, cls)
        started = after is None
        for m, c in mro:
            if not started:
                if m is not None and (m.name, c.name) == (after[0].name, after[1].name):
                    started = True
                continue
            if m is None:
                if not _external_has(c, name):
                    continue
                return ("external", c, name)
            found = None
            for st in c.body:
                if isinstance(st, (ast.FunctionDef, ast.AsyncFunctionDef)) and st.name == name:
                    found = st
            if found is not None:
                return ("func", m, c, found)
            for st in c.body:
                if isinstance(st, ast.Assign):
                    for t in st.targets:
                        if isinstance(t, ast.Name) and t.id == name:
                            return ("assign", m, c, st.value)
                if isinstance(st, ast.AnnAssign) and isinstance(st.target, ast.Name) and st.target.id == name and st.value is not None:
                    return ("assign", m, c, st.value)
        return None


def source_hash(mod: ModuleInfo, node) -> str:
    return hashlib.sha256(mod.segment(node).encode()).hexdigest()[:16]


def _external_has(qual: str, name: str) -> bool:
    """Does the external class `qual` (dotted, or a bare builtin name) define attribute `name`?
    Unknown classes are assumed to (conservative)."""
    import builtins
    import importlib

    parts = qual.split(".")
    if len(parts) == 1:
        obj = getattr(builtins, qual, None)
        if obj is None:
            for modname in ("typing", "collections.abc", "abc", "io", "enum"):
                try:
                    obj = getattr(importlib.import_module(modname), qual)
                    break
                except AttributeError:
                    continue
        if obj is None:
            return True
        return hasattr(obj, name)
    for i in range(len(parts) - 1, 0, -1):
        try:
            obj = importlib.import_module(".".join(parts[:i]))
        except Exception:  # noqa: BLE001
            continue
        try:
            for p in parts[i:]:
                obj = getattr(obj, p)
        except AttributeError:
            return True
        if name in ("__bool__",) and not isinstance(obj, type):
            obj = getattr(obj, "__origin__", obj)
        return hasattr(obj, name)
    return True
