"""Bounded native probe for C17 (labelled *bounded*): LiquidError._error_context(text, index) of the tree under verification is
compared, for a fixed set of texts and every index inside them, with an independent reference for line and column (the line the
character at `index` sits on, counted with str.splitlines semantics; the column is its offset in that line)."""
import json

TEXTS = ["a", "ab\ncd\nef", "line one\n{% nosuchtag %}\n", "a\r\nb\r\n c", "\n\nx", "x\n", "é\nüber\n", "a\rb", "a\x0bb\x0cc", "tab\tx\n  y"]


import re

LINE_END = re.compile("\r\n|[\n\r\x0b\x0c\x1c\x1d\x1e\x85\u2028\u2029]")


def reference(text, index):
    """Line starts are 0 and the position after every line terminator (str.splitlines' set, \\r\\n being one terminator);
    the character at `index` is on the last line that starts at or before it."""
    starts = [0] + [m.end() for m in LINE_END.finditer(text)]
    k = max(i for i, s in enumerate(starts) if s <= index)
    return k + 1, index - starts[k]


def run():
    out = {"violations": [], "checked": 0, "error": None}
    try:
        from liquid2.exceptions import LiquidError

        err = LiquidError.__new__(LiquidError)
        for text in TEXTS:
            for index in range(len(text)):
                out["checked"] += 1
                try:
                    got = err._error_context(text, index)
                except Exception as e:  # noqa: BLE001
                    out["violations"].append({"text": text, "index": index, "outcome": f"raised {type(e).__name__}: {e}"})
                    continue
                want = reference(text, index)
                if (got[0], got[1]) != want:
                    out["violations"].append({"text": text, "index": index, "outcome": f"line:col {got[0]}:{got[1]}, expected {want[0]}:{want[1]}"})
            try:
                got = err._error_context(text, len(text))      # end-of-input errors: must not raise, line within the text
                if not (1 <= got[0] <= max(1, len(text.splitlines()))):
                    out["violations"].append({"text": text, "index": len(text), "outcome": f"line {got[0]} outside the text"})
            except Exception as e:  # noqa: BLE001
                out["violations"].append({"text": text, "index": len(text), "outcome": f"raised {type(e).__name__}: {e}"})
    except Exception as e:  # noqa: BLE001
        out["error"] = f"{type(e).__name__}: {e}"
    return out


if __name__ == "__main__":
    print(json.dumps(run()))
