"""Bounded native probe for C17 (labelled *bounded*): LiquidError._error_context(text, index) of the tree under verification is
compared, for a fixed set of texts and every index inside them, with an independent reference for line and column (the line the
character at `index` sits on, counted with str.splitlines semantics; the column is its offset in that line)."""
import json

TEXTS = ["a", "ab\ncd\nef", "line one\n{% nosuchtag %}\n", "a\r\nb\r\n c", "\n\nx", "x\n", "é\nüber\n", "a\rb", "a\x0bb\x0cc", "tab\tx\n  y"]


import re

LINE_END = re.compile("\r\n|[\n\r\x0b\x0c\x1c\x1d\x1e\x85\u2028\u2029]")


def reference(text, index):
    """Line starts are 0 and the position after every line terminator (str.splitlines' set, \\r\\n being one terminator);
    the character at `index` is on the last line that starts at or before it."""
    starts = [0] + [m.end() for m in LINE_END.finditer(text)]
    k = max(i for i, s in enumerate(starts) if s <= index)
    return k + 1, index - starts[k]


SOURCES = [
    "plain text",
    "a {{ b }} c",
    "{{ 'x${y}z' }}",
    "{{ \"a ${ b | upcase } c ${ d.e[0] }\" }}",
    "{% assign t = 'p${ q }r${s}' %}{{ t }}",
    "{% if a == 'u${v}' and b %}x{% endif %}",
    "{% liquid\n  assign x = 'k${ l }m'\n  echo x\n%}",
    "{{ (1..n) | join: '${sep}' }}",
    "{# c #}{% comment %}x{% endcomment %}{% raw %}{{ r }}{% endraw %}{{ 'a${ 'b${c}' }' }}",
    "é{{ 'ü${ x }ö' }}\n{%- for i in a.b['c d'] -%}{{ i }}{%- endfor ~%}",
]


def _children(tok):
    """(child tokens in source order, description) of a token that owns tokens."""
    for name in ("expression", "template", "statements"):
        v = getattr(tok, name, None)
        if isinstance(v, list) and v and all(hasattr(x, "start") and hasattr(x, "stop") for x in v):
            return v, name
    if hasattr(tok, "range_start") and hasattr(tok, "range_stop"):
        return [tok.range_start, tok.range_stop], "range"
    return [], ""


def _check_template_string(tok, src, out, path):
    """The pieces of an interpolated string cover its text: between two consecutive pieces (and before the first / after the
    last) lies nothing but the interpolation brackets `${` and `}` - no character of the literal is left out of every piece."""
    cursor = tok.start
    for p in tok.template:
        gap = src[cursor:p.start]
        out["checked"] += 1
        if gap not in ("", "${", "}", "}${"):
            out["violations"].append({"text": src, "index": cursor, "outcome": f"{gap!r} between the pieces of the template string in {path} belongs to no piece (only `${{` and `}}` may)"})
        cursor = p.stop
    tail = src[cursor:tok.stop]
    out["checked"] += 1
    if tail not in ("'", '"', "}'", '}"'):
        out["violations"].append({"text": src, "index": cursor, "outcome": f"{tail!r} after the last piece of the template string in {path} belongs to no piece"})


def _check_nesting(tok, src, out, path):
    if type(tok).__name__ == "TemplateStringToken":
        _check_template_string(tok, src, out, path)
    kids, what = _children(tok)
    prev = None
    for k in kids:
        out["checked"] += 1
        if not (tok.start <= k.start and k.stop <= tok.stop and k.start <= k.stop):
            out["violations"].append({"text": src, "index": k.start, "outcome": f"{type(k).__name__} [{k.start},{k.stop}) in {path}.{what} lies outside its {type(tok).__name__} [{tok.start},{tok.stop})"})
        if prev is not None and k.start < prev.stop:
            out["violations"].append({"text": src, "index": k.start, "outcome": f"{type(k).__name__} [{k.start},{k.stop}) in {path}.{what} starts before its predecessor ends ({prev.stop})"})
        prev = k
        _check_nesting(k, src, out, f"{path}.{what}")


def run_tokens(out):
    """Top-level tokens tile the source; the tokens a token owns nest inside its span, in order (recursively, template strings included)."""
    from liquid2 import Environment
    from liquid2.lexer import tokenize

    env = Environment()
    for src in SOURCES:
        try:
            toks = tokenize(env, src)
        except Exception as e:  # noqa: BLE001
            out["violations"].append({"text": src, "index": 0, "outcome": f"tokenize raised {type(e).__name__}: {e}"})
            continue
        pos = 0
        for t in toks:
            out["checked"] += 1
            if t.start != pos or t.stop < t.start:
                out["violations"].append({"text": src, "index": t.start, "outcome": f"{type(t).__name__} [{t.start},{t.stop}) does not continue the tiling at {pos}"})
            pos = t.stop
            _check_nesting(t, src, out, type(t).__name__)
        if pos != len(src):
            out["violations"].append({"text": src, "index": pos, "outcome": f"tokens end at {pos}, the source at {len(src)}"})


def run():
    out = {"violations": [], "checked": 0, "error": None}
    try:
        run_tokens(out)
    except Exception as e:  # noqa: BLE001
        out["error"] = f"{type(e).__name__}: {e}"
        return out
    try:
        from liquid2.exceptions import LiquidError

        err = LiquidError.__new__(LiquidError)
        for text in TEXTS:
            for index in range(len(text)):
                out["checked"] += 1
                try:
                    got = err._error_context(text, index)
                except Exception as e:  # noqa: BLE001
                    out["violations"].append({"text": text, "index": index, "outcome": f"raised {type(e).__name__}: {e}"})
                    continue
                want = reference(text, index)
                if (got[0], got[1]) != want:
                    out["violations"].append({"text": text, "index": index, "outcome": f"line:col {got[0]}:{got[1]}, expected {want[0]}:{want[1]}"})
            try:
                got = err._error_context(text, len(text))      # end-of-input errors: must not raise, line within the text
                if not (1 <= got[0] <= max(1, len(text.splitlines()))):
                    out["violations"].append({"text": text, "index": len(text), "outcome": f"line {got[0]} outside the text"})
                # ... and point to the end of the text: the position just after its last character (for a text that ends in a
                # line terminator, the end of that last line is accepted as well)
                want = reference(text, len(text))
                lines_ = text.splitlines(keepends=True)
                alt = (len(lines_), len(lines_[-1])) if lines_ else (1, 0)
                out["checked"] += 1
                if (got[0], got[1]) != want and (got[0], got[1]) != alt:
                    out["violations"].append({"text": text, "index": len(text), "outcome": f"end of input reported at line:col {got[0]}:{got[1]}, expected {want[0]}:{want[1]}"})
            except Exception as e:  # noqa: BLE001
                out["violations"].append({"text": text, "index": len(text), "outcome": f"raised {type(e).__name__}: {e}"})
    except Exception as e:  # noqa: BLE001
        out["error"] = f"{type(e).__name__}: {e}"
    return out


if __name__ == "__main__":
    print(json.dumps(run()))
