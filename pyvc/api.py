"""Contract language (sidecar contracts, DESIGN 3)."""
from __future__ import annotations

import itertools
from typing import Any, Callable, Optional

import z3

from .values import *  # noqa: F403

REGISTRY: dict[str, "Contract"] = {}


def _uniq(ex, name, fixed):
    """Symbols of parameters are named after the parameter (fixed); every other instance is unique."""
    if fixed:
        return name
    ex.fresh_n += 1
    return f"{name}!{ex.fresh_n}"


class Type:
    """Parameter type: how to make a fresh symbolic value and how to read it from a model."""

    label = "?"

    def fresh(self, ex, name, fixed=False):
        raise NotImplementedError

    def cases(self):
        return [self]

    def from_model(self, model, name, ex):
        raise NotImplementedError


class _Prim(Type):
    def __init__(self, kind, num="float"):
        self.kind = kind
        self.num = num
        self.label = kind if kind != "real" else num

    def fresh(self, ex, name, fixed=False):
        return ex.sym(name, self.kind, self.num) if fixed else ex.fresh(name, self.kind, self.num)

    def __repr__(self):
        return self.label


Int = _Prim("int")
Bool = _Prim("bool")
Str = _Prim("str")
Float = _Prim("real", "float")
Dec = _Prim("real", "decimal")
Any_ = _Prim("any")
MarkupT = _Prim("markup")


class Const(Type):
    def __init__(self, value, label=None):
        self.value = value
        self.label = label or repr(value)

    def fresh(self, ex, name, fixed=False):
        return self.value

    def __repr__(self):
        return self.label


NoneT = Const(None, "None")
TrueT = Const(True, "True")
FalseT = Const(False, "False")
PosInf = Const(float("inf"), "inf")
NegInf = Const(float("-inf"), "-inf")
NaN = Const(float("nan"), "nan")


class Union(Type):
    def __init__(self, *alts):
        self.alts = []
        for a in alts:
            self.alts.extend(a.cases())
        self.label = "|".join(a.label for a in self.alts)

    def cases(self):
        return list(self.alts)

    def fresh(self, ex, name, fixed=False):
        # nested unions (record fields) are resolved lazily, on first read
        name = _uniq(ex, name, fixed)
        fixed = True
        tag = z3.Int(f"{name}#case")
        return SLazy(tag, self.alts, name)


def Opt(t):
    return Union(NoneT, t)


Number = Union(Int, Float)
AnyNumber = Union(Int, Float, PosInf, NegInf, NaN)


class Rec(Type):
    """Instance of a repository class with typed fields (the symbolic heap shape)."""

    def __init__(self, cls: str, _module: Optional[str] = None, **fields):
        self.cls = cls
        self.module = _module
        self.fields = fields
        self.label = cls

    def fresh(self, ex, name, fixed=False):
        name = _uniq(ex, name, fixed)
        fixed = True
        cref = ex_class(ex, self.cls, self.module)
        o = HObj(cref, {}, label=name)
        for k, t in self.fields.items():
            o.fields[k] = t.fresh(ex, f"{name}.{k}", fixed)
        o.fields["__open__"] = True
        return o


def ex_class(ex, cls, module=None):
    if module:
        m = ex.repo.module(module)
        if m and cls in m.classes:
            return ClassRef(cls, m, m.classes[cls])
    tm, _ = ex.repo.resolve(ex.contract.target)
    r = ex.repo.resolve_name(tm, cls) if tm else None
    if r and r[0] == "class":
        return ClassRef(cls, r[1], r[2])
    for m in ex.repo.all_modules():
        if cls in m.classes:
            return ClassRef(cls, m, m.classes[cls])
    return ClassRef(cls)


class Shared(Type):
    """The same heap object reachable through several parameters/fields (aliasing
    that the code relies on, e.g. `self.env is self.template.env`)."""

    def __init__(self, key, inner):
        self.key = key
        self.inner = inner
        self.label = inner.label

    def cases(self):
        return [Shared(self.key, c) for c in self.inner.cases()]

    def fresh(self, ex, name, fixed=False):
        if self.key not in ex.shared:
            ex.shared[self.key] = self.inner.fresh(ex, self.key, fixed)
        return ex.shared[self.key]


class ListOf(Type):
    def __init__(self, elem: str):
        self.elem = elem
        self.label = f"list[{elem}]"

    def fresh(self, ex, name, fixed=False):
        s = ex.sym(name, ("seq", self.elem)) if fixed else ex.fresh(name, ("seq", self.elem))
        return HList(sym=s)


class SeqOf(Type):
    def __init__(self, elem: str):
        self.elem = elem
        self.label = f"seq[{elem}]"

    def fresh(self, ex, name, fixed=False):
        return ex.sym(name, ("seq", self.elem)) if fixed else ex.fresh(name, ("seq", self.elem))


class TupleOf(Type):
    def __init__(self, *elts):
        self.elts = elts
        self.label = "tuple"

    def fresh(self, ex, name, fixed=False):
        name = _uniq(ex, name, fixed)
        return tuple(t.fresh(ex, f"{name}.{i}", True) for i, t in enumerate(self.elts))


class DictOf(Type):
    def __init__(self, k: str, v: str, ordered=False):
        self.k, self.v, self.ordered = k, v, ordered
        self.label = f"dict[{k},{v}]"

    def fresh(self, ex, name, fixed=False):
        name = _uniq(ex, name, fixed)
        ks, vs = ELEM_SORT[self.k], ELEM_SORT[self.v]
        d = HDict(ksort=self.k, vkind=self.v,
                  has=z3.Const(f"{name}.has", z3.ArraySort(ks, BoolSort)),
                  val=z3.Const(f"{name}.val", z3.ArraySort(ks, vs)))
        if self.ordered:
            d.order = z3.Const(f"{name}.order", z3.SeqSort(ks))
        return d


class DictOfLists(Type):
    """defaultdict(list) keyed by str: every key maps to a sequence of objects (absent keys: empty)."""

    label = "defaultdict(list)"

    def fresh(self, ex, name, fixed=False):
        name = _uniq(ex, name, fixed)
        ks, vs = ELEM_SORT["str"], ELEM_SORT["seq_any"]
        d = HDict(ksort="str", vkind="seq_any", has=z3.Const(f"{name}.has", z3.ArraySort(ks, BoolSort)),
                  val=z3.Const(f"{name}.val", z3.ArraySort(ks, vs)))
        d.list_default = True
        # representation invariant of the view: a key that is absent maps to the empty list
        k = z3.Const("k!dl", ks)
        ex.assume(z3.ForAll([k], z3.Implies(z3.Not(z3.Select(d.has, k)), z3.Select(d.val, k) == z3.Empty(vs))))
        return d


class ConcreteList(Type):
    """A python list of fixed length with typed elements."""

    def __init__(self, *elts):
        self.elts = elts
        self.label = f"list{len(elts)}"

    def fresh(self, ex, name, fixed=False):
        name = _uniq(ex, name, fixed)
        return HList(items=[t.fresh(ex, f"{name}[{i}]", True) for i, t in enumerate(self.elts)])


class Opaque(Type):
    """An engine-level value supplied by a python factory (e.g. a callback)."""

    def __init__(self, factory, label="opaque"):
        self.factory = factory
        self.label = label

    def fresh(self, ex, name, fixed=False):
        return self.factory(ex, _uniq(ex, name, fixed))


class Contract:
    def __init__(self, target, props, params, pre=(), post=(), raises=None, post_exc=None, modifies=(),
                 returns=None, loops=None, unroll=None, inline=(), locals_=None, globals_=None,
                 build=None, always_inline=False, assume_noraise=False, any_raises=None, note="",
                 ghost_pre=(), checks=None, max_cases=400, enter=(), obj_fields=None, obj_protocol=None, ghost=None, mutable_fields=(), obj_methods=None, opaque_methods=None, aliases=None, regex_total=None, lemmas=(), assumed=None, opaque_classes=(), post_internal=(), partial_domain=None):
        self.target = target
        self.props = list(props)
        self.params = dict(params)
        self.pre = list(pre)
        self.post = list(post)
        # raises: {ExcName: condition-string (iff) | None (may raise)}; classes not listed must not escape
        self.raises = dict(raises or {})
        self.post_exc = dict(post_exc or {})
        self.modifies = list(modifies)
        self.returns = returns
        self.loops = loops or {}
        self.unroll = unroll or {}
        self.inline = set(inline)
        self.locals_ = locals_ or {}
        self.globals_ = globals_ or {}
        self.build = build
        self.always_inline = always_inline
        self.note = note
        self.checks = checks or []
        self.max_cases = max_cases
        self.enter = list(enter)
        self.obj_fields = dict(obj_fields or {})
        self.obj_protocol = obj_protocol
        self.ghost = dict(ghost or {})
        self.mutable_fields = set(mutable_fields)
        self.obj_methods = dict(obj_methods or {})
        self.opaque_methods = dict(opaque_methods or {})
        self.aliases = dict(aliases or {})
        self.regex_total = dict(regex_total or {})
        self.lemmas = list(lemmas)
        self.opaque_classes = set(opaque_classes)
        # postconditions over ghost state of the function's own run: proved, but not assumed at call sites
        self.post_internal = list(post_internal)
        self.partial_domain = partial_domain   # reason why some normal exits are outside the parameter domain of this contract
        self.assumed = assumed   # reason: the contract is used at call sites but its function is NOT verified
        self._alias_map = None
        REGISTRY[target] = self

    @property
    def base(self):
        """the function under contract ("mod:qual"), without the "#label" of a second contract on the same function"""
        return self.target.split("#")[0]

    @property
    def qual(self):
        return self.target.split(":")[1].split("#")[0]

    def loops_for(self, fname):
        if fname == self.qual:
            return {k: v for k, v in self.loops.items() if isinstance(k, int)}
        return {k[1]: v for k, v in self.loops.items() if isinstance(k, tuple) and k[0] == fname}

    def unroll_for(self, fname):
        if fname == self.qual:
            return {k: v for k, v in self.unroll.items() if isinstance(k, int)}
        return {k[1]: v for k, v in self.unroll.items() if isinstance(k, tuple) and k[0] == fname}

    def resolve_aliases(self, fn_node):
        """Role-based names for locals, recomputed from the current AST so that contracts do not
        depend on incidental variable names: 'empty-list-local', 'while-var'."""
        import ast

        out = {}
        for alias, role in self.aliases.items():
            cands = []
            if role == "empty-list-local":
                for n in ast.walk(fn_node):
                    tgt = None
                    if isinstance(n, ast.Assign) and len(n.targets) == 1:
                        tgt, val = n.targets[0], n.value
                    elif isinstance(n, ast.AnnAssign) and n.value is not None:
                        tgt, val = n.target, n.value
                    if tgt is not None and isinstance(tgt, ast.Name) and isinstance(val, ast.List) and not val.elts:
                        cands.append(tgt.id)
            elif role == "while-var":
                for n in ast.walk(fn_node):
                    if isinstance(n, ast.While):
                        stored = {x.id for b in n.body for x in ast.walk(b) if isinstance(x, ast.Name) and isinstance(x.ctx, ast.Store)}
                        cands = [x.id for x in ast.walk(n.test) if isinstance(x, ast.Name) and x.id in stored]
                        break
            cands = sorted(set(cands))
            if len(cands) == 1:
                out[alias] = cands[0]
        self._alias_map = out
        return out

    def local_kind(self, fname, var):
        if self._alias_map:
            for alias, real in self._alias_map.items():
                if real == var and alias in self.locals_:
                    return self.locals_[alias]
        v = self.locals_.get(var)
        if isinstance(v, dict):
            return v.get(fname)
        return v

    def checks_at(self, where):
        return self.enter if where == "enter" else []

    def type_cases(self):
        names = list(self.params)
        alts = [self.params[n].cases() for n in names]
        for combo in itertools.product(*alts):
            yield dict(zip(names, combo))


def contract(target, props, params, **kw) -> Contract:
    return Contract(target, props, params, **kw)
