"""C11 - static analysis is a sound description of rendering: per-class obligations relating the two hand-maintained
traversals (what `render_to_output`/`evaluate` touches at run time vs what `expressions()`/`children()`/`*_scope()` report),
span construction sites of static_analysis.py, and the async twin. Everything is recomputed from the current source."""
from __future__ import annotations

import ast

from .repo import Repo
from .frame import own_nodes, class_bases
from .structural import register

EVAL_METHODS = {"evaluate", "evaluate_async"}
RENDER_METHODS = {"render", "render_async", "render_to_output", "render_to_output_async"}
RUN_NODE = ("render_to_output", "render_to_output_async")
RUN_EXPR = ("evaluate", "evaluate_async")


def _ob(obs, oid, ok, note, witness=None, backend="site"):
    obs.append({"oid": oid, "status": "unsat" if ok else "sat", "backend": backend, "note": note, "witness": witness, "key": None, "rule": "site"})


def _self_attrs(node):
    """names a such that `self.a` occurs in node"""
    return {n.attr for n in ast.walk(node) if isinstance(n, ast.Attribute) and isinstance(n.value, ast.Name) and n.value.id == "self"}


def _methods(repo, mod, cls):
    """name -> (defining module, defining class, FunctionDef) through the MRO (repo classes only); first definition wins."""
    out = {}
    for m, c in repo.class_mro(mod, cls):
        if m is None:
            continue
        for st in c.body:
            if isinstance(st, (ast.FunctionDef, ast.AsyncFunctionDef)) and st.name not in out:
                out[st.name] = (m, c, st)
    return out


class Roots:
    """Flow-insensitive provenance of locals: which `self.<field>`s a local name may hold (parts of)."""

    def __init__(self, fn, methods, seed=None, depth=0):
        self.fn = fn
        self.methods = methods
        self.depth = depth
        self.map = dict(seed or {})
        changed = True
        while changed:
            changed = False
            for n in ast.walk(fn):
                pairs = []
                if isinstance(n, ast.Assign):
                    for t in n.targets:
                        pairs.append((t, n.value))
                elif isinstance(n, ast.AnnAssign) and n.value is not None:
                    pairs.append((n.target, n.value))
                elif isinstance(n, ast.NamedExpr):
                    pairs.append((n.target, n.value))
                elif isinstance(n, (ast.For, ast.AsyncFor)):
                    pairs.append((n.target, n.iter))
                elif isinstance(n, ast.comprehension):
                    pairs.append((n.target, n.iter))
                elif isinstance(n, (ast.With, ast.AsyncWith)):
                    for it in n.items:
                        if it.optional_vars is not None:
                            pairs.append((it.optional_vars, it.context_expr))
                for tgt, val in pairs:
                    src = self.of(val)
                    if not src:
                        continue
                    for name in [x.id for x in ast.walk(tgt) if isinstance(x, ast.Name)]:
                        cur = self.map.setdefault(name, set())
                        if not src <= cur:
                            cur |= src
                            changed = True

    PROPAGATE = {"list", "tuple", "dict", "set", "enumerate", "zip", "reversed", "sorted", "iter", "next", "chain", "islice", "cast", "filter", "map"}

    def of(self, expr):
        """self-fields the value of `expr` may be (a part of). Subscript indices, arguments of calls on other
        objects and comparison operands do not carry the field into the result."""
        if expr is None:
            return set()
        if isinstance(expr, ast.Attribute):
            if isinstance(expr.value, ast.Name) and expr.value.id == "self":
                return set() if expr.attr in self.methods else {expr.attr}
            return self.of(expr.value)
        if isinstance(expr, ast.Name):
            return set(self.map.get(expr.id, ()))
        if isinstance(expr, ast.Subscript):
            return self.of(expr.value)
        if isinstance(expr, ast.Await):
            return self.of(expr.value)
        if isinstance(expr, ast.Starred):
            return self.of(expr.value)
        if isinstance(expr, ast.Call):
            f = expr.func
            if isinstance(f, ast.Name):
                if f.id in self.PROPAGATE:
                    out = set()
                    for a in expr.args:
                        out |= self.of(a)
                    return out
                return set()
            if isinstance(f, ast.Attribute):
                if isinstance(f.value, ast.Name) and f.value.id == "self" and f.attr in self.methods:
                    # a helper of the same class: whatever fields it reads, plus what it is given
                    out = _self_attrs(self.methods[f.attr][2]) - set(self.methods)
                    for a in expr.args:
                        out |= self.of(a)
                    return out
                return self.of(f.value)
            return set()
        if isinstance(expr, (ast.BoolOp,)):
            out = set()
            for v in expr.values:
                out |= self.of(v)
            return out
        if isinstance(expr, ast.IfExp):
            return self.of(expr.body) | self.of(expr.orelse)
        if isinstance(expr, (ast.Tuple, ast.List, ast.Set)):
            out = set()
            for v in expr.elts:
                out |= self.of(v)
            return out
        if isinstance(expr, ast.Dict):
            out = set()
            for v in expr.values:
                out |= self.of(v)
            return out
        if isinstance(expr, (ast.ListComp, ast.GeneratorExp, ast.SetComp)):
            return self.of(expr.elt)
        if isinstance(expr, ast.DictComp):
            return self.of(expr.value)
        if isinstance(expr, ast.NamedExpr):
            return self.of(expr.value)
        return set()


def used_fields(repo, mod, cls, entry_names, methods, call_names):
    """Fields of `self` whose (parts) receive a call to one of `call_names` while one of the entry methods runs,
    following calls to the class's own helper methods (self.helper(...)) with argument provenance."""
    used = {}
    seen = set()

    def scan(fname, seed, depth):
        key = (fname, tuple(sorted((k, tuple(sorted(v))) for k, v in (seed or {}).items())))
        if key in seen or depth > 4 or fname not in methods:
            return
        seen.add(key)
        m, c, fn = methods[fname]
        roots = Roots(fn, methods, seed)
        for n in ast.walk(fn):
            if not isinstance(n, ast.Call):
                continue
            f = n.func
            if isinstance(f, ast.Attribute) and f.attr in call_names:
                if isinstance(f.value, ast.Name) and f.value.id == "self":
                    continue   # self.evaluate(...) - recursion on the node itself
                if isinstance(f.value, ast.Call) and isinstance(f.value.func, ast.Name) and f.value.func.id == "super":
                    continue
                for a in roots.of(f.value):
                    used.setdefault(a, f"{c.name}.{fname}@{n.lineno}: {ast.unparse(f)[:60]}")
            # helper methods of the same class
            if isinstance(f, ast.Attribute) and isinstance(f.value, ast.Name) and f.value.id == "self" and f.attr in methods and f.attr not in entry_names:
                hm, hc, hfn = methods[f.attr]
                params = [p.arg for p in hfn.args.args[1:]]
                seed2 = {}
                for p, a in zip(params, n.args):
                    r = roots.of(a)
                    if r:
                        seed2[p] = r
                for kw in n.keywords:
                    if kw.arg:
                        r = roots.of(kw.value)
                        if r:
                            seed2[kw.arg] = r
                scan(f.attr, seed2, depth + 1)

    for e in entry_names:
        scan(e, None, 0)
    return used


def reported_fields(methods, names):
    out = set()
    for nm in names:
        if nm in methods:
            out |= _self_attrs(methods[nm][2])
            # helpers called from the reporting method
            for n in ast.walk(methods[nm][2]):
                if isinstance(n, ast.Call) and isinstance(n.func, ast.Attribute) and isinstance(n.func.value, ast.Name) and n.func.value.id == "self" and n.func.attr in methods:
                    out |= _self_attrs(methods[n.func.attr][2])
    return out


def node_classes(repo, base):
    for m in repo.all_modules():
        for cname, c in m.classes.items():
            bases = class_bases(repo, m, cname)
            if base in bases[1:]:
                yield m, c


def _strings(fn):
    return {n.value for n in ast.walk(fn) if isinstance(n, ast.Constant) and isinstance(n.value, str)}


def _reach(methods, entries):
    """entry methods plus the class's own helpers they call (transitively)."""
    out, todo = [], [e for e in entries if e in methods]
    while todo:
        n = todo.pop()
        if n in out:
            continue
        out.append(n)
        for c in ast.walk(methods[n][2]):
            if isinstance(c, ast.Call) and isinstance(c.func, ast.Attribute) and isinstance(c.func.value, ast.Name) and c.func.value.id == "self" and c.func.attr in methods:
                todo.append(c.func.attr)
    return out


TERNARY_PROGRAM = """
from liquid2 import Environment
env = Environment()
applied = []
real = env.filters["upcase"]
def spy(val, *a, **k):
    applied.append("upcase")
    return real(val, *a, **k)
env.filters["upcase"] = spy
t = env.from_string("{{ a | upcase if b else c }}")
out = t.render(a="q", b=True, c="w")
reported = sorted(t.analyze().filters)
VIOLATES = bool(applied) and "upcase" not in reported
OBSERVED = "render applied %s (output %r); analyze().filters reports %s" % (applied, out, reported)
"""


def sm_extract_src(repo):
    sm = repo.module("liquid2.static_analysis")
    fn = sm.find("_extract_filters") if sm else None
    return ast.unparse(fn) if fn is not None else ""


def _shared_with_reporting_parent(repo, mod, cls, field):
    """`field` of expression class `cls` is deliberately left out of children(): accepted when every construction site passes,
    for that field, a local that the same function also hands to a node constructor whose expressions() reports it."""
    init = next((st for st in cls.body if isinstance(st, ast.FunctionDef) and st.name == "__init__"), None)
    if init is None:
        return False, "no __init__"
    params = [a.arg for a in init.args.args[1:]]
    if field not in params:
        return False, f"{field} is not a constructor parameter"
    idx = params.index(field)
    sites = 0
    for m in repo.all_modules():
        for fn in [n for n in ast.walk(m.tree) if isinstance(n, (ast.FunctionDef, ast.AsyncFunctionDef))]:
            for call in [c for c in ast.walk(fn) if isinstance(c, ast.Call) and isinstance(c.func, ast.Name) and c.func.id == cls.name]:
                sites += 1
                arg = call.args[idx] if idx < len(call.args) else next((k.value for k in call.keywords if k.arg == field), None)
                if not isinstance(arg, ast.Name):
                    return False, f"{m.name}@{call.lineno}: {field} is not a plain local"
                ok = False
                for other in [c for c in ast.walk(fn) if isinstance(c, ast.Call) and c is not call]:
                    tgt = ast.unparse(other.func)
                    if not (tgt == "self.node_class" or tgt.endswith("Node")):
                        continue
                    if tgt.endswith("Node") and tgt in ("BlockNode",):
                        continue
                    passed = [a for a in other.args if isinstance(a, ast.Name) and a.id == arg.id] + [k.value for k in other.keywords if isinstance(k.value, ast.Name) and k.value.id == arg.id]
                    if not passed:
                        continue
                    # which class, which parameter, is that parameter's field reported?
                    ncls = None
                    if tgt == "self.node_class":
                        owner = next((c for c in ast.walk(m.tree) if isinstance(c, ast.ClassDef) and fn in c.body), None)
                        for st in (owner.body if owner else []):
                            if isinstance(st, ast.Assign) and ast.unparse(st.targets[0]) == "node_class":
                                ncls = ast.unparse(st.value)
                    else:
                        ncls = tgt
                    r = repo.resolve_name(m, ncls) if ncls else None
                    if not r or r[0] != "class":
                        continue
                    nmeth = _methods(repo, r[1], r[2])
                    ninit = nmeth.get("__init__")
                    if ninit is None:
                        continue
                    nparams = [a.arg for a in ninit[2].args.args[1:]] + [a.arg for a in ninit[2].args.kwonlyargs]
                    pname = None
                    for i, a in enumerate(other.args):
                        if isinstance(a, ast.Name) and a.id == arg.id and i < len(nparams):
                            pname = nparams[i]
                    for k in other.keywords:
                        if isinstance(k.value, ast.Name) and k.value.id == arg.id:
                            pname = k.arg
                    # parameter p is stored as self.<f> = p
                    fld = None
                    for st in ast.walk(ninit[2]):
                        if isinstance(st, ast.Assign) and isinstance(st.value, ast.Name) and st.value.id == pname and isinstance(st.targets[0], ast.Attribute):
                            fld = st.targets[0].attr
                    if fld and fld in reported_fields(nmeth, ("expressions",)):
                        ok = True
                if not ok:
                    return False, f"{m.name}@{call.lineno}: no reporting node receives `{arg.id}`"
    return sites > 0, f"{sites} construction site(s), each shares the operand with a node whose expressions() reports it"


@register("C11")
def c11_sites(repo_root, tier):
    repo = Repo(repo_root)
    obs = []
    n_nodes = n_exprs = 0
    # ---- (1) nodes: what render evaluates / renders is what expressions() / children() report
    for m, c in node_classes(repo, "Node"):
        n_nodes += 1
        meth = _methods(repo, m, c)
        ue = used_fields(repo, m, c, RUN_NODE, meth, EVAL_METHODS)
        uc = used_fields(repo, m, c, RUN_NODE, meth, RENDER_METHODS)
        rep_e = reported_fields(meth, ("expressions",))
        rep_c = reported_fields(meth, ("children",))
        rep_ca = reported_fields(meth, ("children_async",)) if "children_async" in meth and meth["children_async"][1].name != "Node" else rep_c
        # an expression evaluated through a child node (self.whens[i].expression) is reported by that child, which is visited
        miss = sorted(a for a in ue if a not in rep_e and a not in rep_c)
        _ob(obs, f"{m.name}:{c.name}/site.evaluated-expressions-reported", not miss,
            f"evaluates parts of {sorted(ue)}; expressions() reports {sorted(rep_e)}, children() {sorted(rep_c - {'children'})}" if not miss
            else f"render evaluates self.{miss[0]} ({ue[miss[0]]}) but neither expressions() nor children() mentions it",
            witness=None if not miss else {"class": c.name, "field": miss, "site": [ue[a] for a in miss]})
        miss = sorted(a for a in uc if a not in rep_c or a not in rep_ca)
        _ob(obs, f"{m.name}:{c.name}/site.rendered-children-reported", not miss,
            f"renders parts of {sorted(uc)}; children() reports {sorted(rep_c - {'children'})}" if not miss
            else f"render renders self.{miss[0]} ({uc[miss[0]]}) but children()/children_async() does not mention it",
            witness=None if not miss else {"class": c.name, "field": miss})
        # ---- (3) scope methods name only what render binds; what render assigns is in template_scope
        run = _reach(meth, RUN_NODE)
        run_fields, run_strings = set(), set()
        for r in run:
            run_fields |= _self_attrs(meth[r][2])
            run_strings |= _strings(meth[r][2])
        for sm in ("template_scope", "block_scope", "partial_scope"):
            if sm not in meth or meth[sm][1].name == "Node":
                continue
            fn = meth[sm][2]
            flds = _self_attrs(fn) - {"token"} - set(meth)
            for call in ast.walk(fn):
                # Partial(name=<template name expression>, ...): the partial's name is not a scope name
                if isinstance(call, ast.Call) and isinstance(call.func, ast.Name) and call.func.id == "Partial":
                    for k in call.keywords:
                        if k.arg in ("name", "scope"):
                            flds -= _self_attrs(k.value)
            consts = set()
            for call in ast.walk(fn):
                if isinstance(call, ast.Call) and isinstance(call.func, ast.Name) and call.func.id == "Identifier" and call.args and isinstance(call.args[0], ast.Constant):
                    consts.add(call.args[0].value)
            bad = sorted(flds - run_fields) + sorted(x for x in consts if x not in run_strings)
            # a name put in scope by its literal spelling ("forloop") is bound by render whenever the *node* says so: every store of it
            # in render sits under conditions on the node alone - a store that also depends on the data (isinstance(val, Sequence))
            # means the name is sometimes not bound, and then it reads the outer / global variable of that name
            for k in sorted(consts):
                stores = []
                for r in run:
                    rfn = meth[r][2]
                    for st in ast.walk(rfn):
                        if isinstance(st, ast.Assign) and len(st.targets) == 1 and isinstance(st.targets[0], ast.Subscript) and isinstance(st.targets[0].slice, ast.Constant) \
                                and st.targets[0].slice.value == k:
                            data_guard = False
                            for g in ast.walk(rfn):
                                if isinstance(g, ast.If) and any(x is st for b in g.body for x in ast.walk(b)):
                                    if any(isinstance(n, ast.Name) and n.id not in ("self", "isinstance", "Sequence", "str", "len") for n in ast.walk(g.test)):
                                        data_guard = True
                            stores.append(data_guard)
                if stores and all(stores):
                    bad.append(f"{k!r} (bound by render only when the data has a certain shape)")
            _ob(obs, f"{m.name}:{c.name}.{sm}/site.scope-names-are-bound-by-render", not bad,
                f"{sm}() names {sorted(flds) + sorted(consts)}; all of them are read/bound by render" if not bad
                else f"{sm}() puts {bad} in scope but render never touches it: a name that is never bound would hide a global",
                witness=None if not bad else {"class": c.name, "names": bad})
        # a name that render binds only under a condition on the node (`if self.var:` ... namespace[key] = ..) is put in scope by
        # partial_scope()/block_scope() under that condition too - in scope unconditionally, it would hide a global that the
        # partial really reads when the condition is false
        def _guards(fn, node):
            g = set()
            for i in ast.walk(fn):
                if isinstance(i, ast.If) and any(x is node for st in i.body for x in ast.walk(st)):
                    g |= _self_attrs(i.test)
            return g
        render_guards = None
        for r in run:
            rfn = meth[r][2]
            for st in ast.walk(rfn):
                if isinstance(st, ast.Assign) and len(st.targets) == 1 and isinstance(st.targets[0], ast.Subscript) and isinstance(st.targets[0].value, ast.Name) \
                        and st.targets[0].value.id == "namespace" and isinstance(st.targets[0].slice, ast.Name):
                    g = _guards(rfn, st)
                    render_guards = g if render_guards is None else (render_guards & g)
        if render_guards:
            for sm in ("partial_scope", "block_scope"):
                if sm not in meth or meth[sm][1].name == "Node":
                    continue
                fn = meth[sm][2]
                bad = []
                for call in ast.walk(fn):
                    if isinstance(call, ast.Call) and isinstance(call.func, ast.Attribute) and call.func.attr == "append":
                        if not (render_guards <= _guards(fn, call)):
                            bad.append(f"line {call.lineno}: `{ast.unparse(call)[:60]}` is not under a test of self.{sorted(render_guards)[0]}")
                _ob(obs, f"{m.name}:{c.name}.{sm}/site.conditional-names-under-render-condition", not bad,
                    f"names that render binds only when self.{sorted(render_guards)} holds are put in scope under the same test" if not bad
                    else f"{sm}() puts a name in scope unconditionally that render binds only under a test of self.{sorted(render_guards)} ({bad[0]})")
        assigned = set()
        for r in run:
            for call in ast.walk(meth[r][2]):
                if isinstance(call, ast.Call) and isinstance(call.func, ast.Attribute) and call.func.attr in ("assign", "increment", "decrement") and ast.unparse(call.func.value) == "context" and call.args:
                    assigned |= _self_attrs(call.args[0])
        if assigned:
            ts = _self_attrs(meth["template_scope"][2]) if "template_scope" in meth else set()
            bad = sorted(assigned - ts)
            _ob(obs, f"{m.name}:{c.name}/site.assigned-names-in-template-scope", not bad,
                f"render binds {sorted(assigned)} in the template scope and template_scope() reports it" if not bad else f"render assigns self.{bad[0]} but template_scope() does not report it")
    # ---- (1c) children()/expressions() hand a part out whenever it exists: the only condition on reporting self.<f> is its presence
    #      (`if self.f:` / `is not None`), never a property of it (a blank else block still runs its assigns and captures)
    for m, c in node_classes(repo, "Node"):
        meth = _methods(repo, m, c)
        for rep in ("children", "children_async", "expressions"):
            if rep not in meth or meth[rep][1].name != c.name:
                continue
            fn = meth[rep][2]
            bad = []
            for g in ast.walk(fn):
                if isinstance(g, (ast.If, ast.IfExp)):
                    body = g.body if isinstance(g.body, list) else [g.body]
                    reports = any(isinstance(x, (ast.Yield, ast.YieldFrom, ast.Return)) or (isinstance(x, ast.Call) and isinstance(x.func, ast.Attribute) and x.func.attr in ("append", "extend"))
                                  for st in body for x in ast.walk(st))
                    if not reports:
                        continue
                    for a in ast.walk(g.test):
                        # self.f.<something> in the guard of a report: a property of the part decides whether it is reported
                        if isinstance(a, ast.Attribute) and isinstance(a.value, ast.Attribute) and isinstance(a.value.value, ast.Name) and a.value.value.id == "self" \
                                and a.attr not in ("children", "expressions"):
                            bad.append(f"`{ast.unparse(g.test)}` (line {g.lineno})")
                    # ... or another field of the node decides it (`if not self.required: yield self.block`): a guard on self.<f> may
                    # only protect the report of that same self.<f>
                    tested = _self_attrs(g.test)
                    reported = set()
                    for st in body:
                        reported |= _self_attrs(st)
                    if tested - reported:
                        bad.append(f"`{ast.unparse(g.test)}` (line {g.lineno}) tests self.{sorted(tested - reported)[0]}, which is not what is reported under it")
            if any(isinstance(g, (ast.If, ast.IfExp)) for g in ast.walk(fn)):
                _ob(obs, f"{m.name}:{c.name}.{rep}/site.reported-whenever-present", not bad,
                    "parts are reported under presence tests only" if not bad
                    else f"{rep}() reports a part only if {bad[0]}: the part is rendered regardless, so what it uses is missing from the analysis")
    # ---- (1b) a node that evaluates a *part* of one of its expressions (self.expression.cols.evaluate(..)) relies on that
    #      expression's children() to report the part
    expr_classes = {c.name: (m, c) for m, c in node_classes(repo, "Expression")}
    n_parts = 0
    for m, c in node_classes(repo, "Node"):
        meth = _methods(repo, m, c)
        init = meth.get("__init__")
        ann = {}
        if init is not None:
            for a in init[2].args.args + init[2].args.kwonlyargs:
                if a.annotation is not None:
                    ann[a.arg] = ast.unparse(a.annotation)
        for r in RUN_NODE:
            if r not in meth or meth[r][1].name != c.name:
                continue
            for call in ast.walk(meth[r][2]):
                if isinstance(call, ast.Call) and isinstance(call.func, ast.Attribute) and call.func.attr in EVAL_METHODS:
                    recv = call.func.value
                    if isinstance(recv, ast.Attribute) and isinstance(recv.value, ast.Attribute) and isinstance(recv.value.value, ast.Name) and recv.value.value.id == "self":
                        field, part = recv.value.attr, recv.attr
                        n_parts += 1
                        owners = [n for n in expr_classes if n in ann.get(field, "")]
                        ok = bool(owners)
                        why = f"self.{field} has no annotated expression class"
                        for o in owners:
                            om, oc = expr_classes[o]
                            ometh = _methods(repo, om, oc)
                            rep = reported_fields(ometh, ("children",))
                            if part not in rep:
                                ok = False
                                why = f"{o}.children() does not report self.{part}"
                        _ob(obs, f"{m.name}:{c.name}.{r}/site.evaluated-part-reported.{field}.{part}", ok,
                            f"self.{field}.{part} is evaluated by the node and reported by {owners}.children()" if ok
                            else f"render evaluates self.{field}.{part}, but {why}: variables used there are never reported")
    _ob(obs, "liquid2/site.evaluated-parts.count", n_parts >= 2, f"{n_parts} parts of expressions evaluated directly by nodes")
    # ---- (2) expressions: what evaluate evaluates is what children() reports
    for m, c in node_classes(repo, "Expression"):
        n_exprs += 1
        meth = _methods(repo, m, c)
        ue = used_fields(repo, m, c, RUN_EXPR, meth, EVAL_METHODS)
        rep = reported_fields(meth, ("children",))
        miss = sorted(a for a in ue if a not in rep)
        note = f"evaluates parts of {sorted(ue)}; children() reports {sorted(rep)}"
        still = []
        for a in miss:
            ok, why = _shared_with_reporting_parent(repo, m, c, a)
            if ok:
                note += f"; self.{a} is reported by the enclosing node ({why})"
            else:
                still.append((a, why))
        _ob(obs, f"{m.name}:{c.name}/site.evaluated-subexpressions-reported", not still,
            note if not still else f"evaluate() evaluates self.{still[0][0]} ({ue[still[0][0]]}) which children() does not report ({still[0][1]})",
            witness=None if not still else {"class": c.name, "field": [a for a, _ in still]})
        # a sub-expression evaluated *as a whole* (self.f.evaluate(..)) owns filters / a path of its own: children() must hand out
        # self.f itself, not only self.f.children() - or _extract_filters must look into it explicitly
        if "children" in meth:
            chfn = meth["children"][2]
            whole = set()
            for en in RUN_EXPR:
                if en in meth and meth[en][1].name == c.name:
                    for call in ast.walk(meth[en][2]):
                        if isinstance(call, ast.Call) and isinstance(call.func, ast.Attribute) and call.func.attr in EVAL_METHODS \
                                and isinstance(call.func.value, ast.Attribute) and isinstance(call.func.value.value, ast.Name) and call.func.value.value.id == "self":
                            whole.add(call.func.value.attr)
            for f in sorted(whole):
                bare = False
                for n in ast.walk(chfn):
                    if isinstance(n, ast.Attribute) and isinstance(n.value, ast.Name) and n.value.id == "self" and n.attr == f:
                        # is this occurrence the receiver of `.children()`?
                        par_is_children = any(isinstance(p, ast.Attribute) and p.value is n and p.attr == "children" for p in ast.walk(chfn))
                        if not par_is_children:
                            bare = True
                handled = False
                ef = sm_extract_src(repo)
                if f"expression.{f}.filters" in ef and c.name in ef:
                    handled = True
                shared, _why = (False, "")
                if not (bare or handled):
                    shared, _why = _shared_with_reporting_parent(repo, m, c, f)
                okw = bare or handled or shared
                wit = None
                if not okw and c.name == "TernaryFilteredExpression":
                    wit = {"program": TERNARY_PROGRAM, "class": c.name, "field": f}
                elif not okw:
                    wit = {"class": c.name, "field": f}
                _ob(obs, f"{m.name}:{c.name}/site.whole-subexpression-is-child.{f}", okw,
                    f"self.{f} is evaluated as a whole and is handed out by children() itself" + (" (or handled explicitly by _extract_filters)" if handled and not bare else "") if okw
                    else f"evaluate() evaluates self.{f} as a whole, but children() only hands out self.{f}.children(): filters applied by self.{f} itself are never reported",
                    witness=wit)
        if "scope" in meth and meth["scope"][1].name != "Expression":
            flds = _self_attrs(meth["scope"][2]) - set(meth)
            binders = set()
            for name in ("map", "map_async"):
                if name in meth:
                    binders |= _self_attrs(meth[name][2])
            bad = sorted(flds - binders)
            _ob(obs, f"{m.name}:{c.name}.scope/site.scope-names-are-bound", not bad, f"scope() names {sorted(flds)}, bound by map()" if not bad else f"scope() names {bad}, which map() never binds")
            # ... and no more of them than map() binds: map() unpacks `self.params[:n]` (the item and its index); scope() hands out
            # exactly that slice - a further parameter is never bound and reads the outer variable of that name
            if "map" in meth and c.name == "LambdaExpression":
                n_bound = 0
                for a in ast.walk(meth["map"][2]):
                    if isinstance(a, ast.Assign) and isinstance(a.targets[0], ast.Tuple) and ast.unparse(a.value).startswith("self.params[:"):
                        n_bound = max(n_bound, len(a.targets[0].elts))
                rets = [ast.unparse(r.value) for r in ast.walk(meth["scope"][2]) if isinstance(r, ast.Return) and r.value is not None]
                oks = n_bound >= 1 and rets == [f"self.params[:{n_bound}]"]
                _ob(obs, f"{m.name}:{c.name}.scope/site.scope-is-what-map-binds", oks,
                    f"scope() returns self.params[:{n_bound}], the parameters map() binds" if oks
                    else f"scope() returns {rets} while map() binds self.params[:{n_bound}]: parameters beyond that are reported as local although they read outer variables")
    _ob(obs, "liquid2/site.classes-found", n_nodes >= 25 and n_exprs >= 30, f"{n_nodes} Node classes and {n_exprs} Expression classes checked")
    # ---- (4)/(5) the visitor and the spans it builds
    sm = repo.module("liquid2.static_analysis")
    for fname in ("_analyze", "_analyze_async"):
        fn = sm.find(fname) if sm else None
        visit = next((st for st in (fn.body if fn else []) if isinstance(st, (ast.FunctionDef, ast.AsyncFunctionDef)) and st.name == "_visit"), None)
        if visit is None:
            _ob(obs, f"liquid2.static_analysis:{fname}/site.visitor", False, "_visit not found")
            continue
        src = ast.unparse(visit)
        child_loops = [n for n in ast.walk(visit) if isinstance(n, (ast.For, ast.AsyncFor)) and "node.children" in ast.unparse(n.iter)]
        ok = len(child_loops) == 2 and all(any(isinstance(c, ast.Call) and ast.unparse(c.func) == "_visit" and ast.unparse(c.args[0]) == ast.unparse(l.target) for c in ast.walk(l)) for l in child_loops)
        ok = ok and all("include_partials=include_partials" in ast.unparse(l.iter) for l in child_loops)
        _ob(obs, f"liquid2.static_analysis:{fname}/site.visits-every-child", ok, "both arms (partial / block scope) visit every node of node.children(static_context, include_partials=include_partials)")
        root = [st for st in fn.body if isinstance(st, ast.For) and ast.unparse(st.iter) == "template.nodes"]
        ok = len(root) == 1 and any(isinstance(c, ast.Call) and ast.unparse(c.func) == "_visit" and ast.unparse(c.args[0]) == ast.unparse(root[0].target) for c in ast.walk(root[0]))
        _ob(obs, f"liquid2.static_analysis:{fname}/site.visits-every-root-node", ok, "for node in template.nodes: _visit(node, template.name, root_scope)")
        eloop = [st for st in visit.body if isinstance(st, ast.For) and ast.unparse(st.iter) == "node.expressions()"]
        ok = len(eloop) == 1
        if ok:
            v = ast.unparse(eloop[0].target)
            # direct statements of the loop body (nothing guards them)
            direct = [ast.unparse(st).replace("\n", " ") for st in eloop[0].body]
            import re as _r
            direct = [_r.sub(r"\s+", " ", d) for d in direct]
            ok = (f"_analyze_variables({v}, template_name, scope, globals, variables)" in direct
                  and f"for name, span in _extract_filters({v}, template_name): filters[name].append(span)" in direct)
        _ob(obs, f"liquid2.static_analysis:{fname}/site.every-expression-analysed", ok, "every expression of node.expressions() goes through _analyze_variables and _extract_filters unconditionally")
        # tags: reported under the token's own name with the token's own span, for every node that is not a bare block wrapper
        tag_if = next((st for st in visit.body if isinstance(st, ast.If) and "tags[" in ast.unparse(st)), None)
        ok = tag_if is not None and ast.unparse(tag_if.body[0]) == "tags[node.token.name].append(Span(template_name, node.token.start, node.token.stop))"
        if ok:
            t = ast.unparse(tag_if.test)
            ok = t == "not isinstance(node, (BlockNode, ConditionalBlockNode, MultiExpressionBlockNode)) and (is_tag_token(node.token) or is_lines_token(node.token))"
        _ob(obs, f"liquid2.static_analysis:{fname}/site.tag-span", ok, "a tag is reported as tags[node.token.name] with Span(template_name, node.token.start, node.token.stop); only block wrappers (no tag of their own) are skipped")
        # early return only for partials already analysed
        rets = [n for n in ast.walk(visit) if isinstance(n, ast.Return)]
        ok = len(rets) == 1 and "if partial_name in seen:" in src
        _ob(obs, f"liquid2.static_analysis:{fname}/site.skips-only-analysed-partials", ok, "the only early exit of _visit is for a partial whose name is already in `seen`")
    if sm is not None:
        # every Span built in static_analysis.py takes start and stop from the token of the object whose name/path it reports
        bad = []
        n_spans = 0
        for call in [n for n in ast.walk(sm.tree) if isinstance(n, ast.Call) and isinstance(n.func, ast.Name) and n.func.id == "Span"]:
            n_spans += 1
            a = [ast.unparse(x) for x in call.args]
            if not (len(a) == 3 and a[0] == "template_name" and a[1].endswith(".token.start") and a[2].endswith(".token.stop") and a[1][:-len(".start")] == a[2][:-len(".stop")]):
                bad.append(f"@{call.lineno}: Span({', '.join(a)})")
        _ob(obs, "liquid2.static_analysis/site.spans-are-token-spans", not bad and n_spans >= 6, f"{n_spans} Span constructions, each Span(template_name, X.token.start, X.token.stop) for one X" if not bad else str(bad[:3]))
        fn = sm.find("_extract_filters")
        ok = False
        if fn is not None:
            src = ast.unparse(fn)
            ok = ("((f.name, Span(template_name, f.token.start, f.token.stop)) for f in expression.filters)" in src
                  and "((f.name, Span(template_name, f.token.start, f.token.stop)) for f in expression.tail_filters)" in src
                  and "for expr in expression.children():\n        yield from _extract_filters(expr, template_name)" in src)
        _ob(obs, "liquid2.static_analysis:_extract_filters/site.filters-and-children", ok, "filters and tail filters are reported under f.name with f.token's span, and every child expression is searched")
        fn = sm.find("_analyze_variables")
        ok = False
        if fn is not None:
            rec = [c for c in ast.walk(fn) if isinstance(c, ast.Call) and isinstance(c.func, ast.Name) and c.func.id == "_analyze_variables"]
            loops = [n for n in ast.walk(fn) if isinstance(n, ast.For) and ast.unparse(n.iter) == "expression.children()"]
            src = ast.unparse(fn)
            ok = (len(rec) == 2 and len(loops) == 2 and "variables.add(var)" in src and "if root not in scope:\n            globals.add(var)" in src
                  and "span=Span(template_name, expression.token.start, expression.token.stop)" in src and "scope.push(set(child_scope))" in src and src.count("scope.pop()") == 1)
        _ob(obs, "liquid2.static_analysis:_analyze_variables/site.paths-and-children", ok,
            "every Path is added to `variables` with its token's span and to `globals` unless its root is in scope; children are analysed in both arms; a lambda's scope is pushed only around its children")
    # ---- (6) async analysis is the await-erasure of the sync analysis (twin obligations, as in C03)
    from .twin import run_twin
    tw = run_twin(repo_root, tier)
    want = ("liquid2.static_analysis:_analyze/twin", "liquid2.template:Template.analyze/twin", "liquid2.ast:Node.children/twin")
    got = {o["oid"]: o for o in tw["obligations"]}
    for o in tw["obligations"]:
        if o["oid"] in want or (o["oid"].endswith(".children/twin")):
            obs.append(o)
    for w in want:
        if w not in got:
            _ob(obs, w, False, "twin pair not found")
    return {"obligations": obs, "samples": [{"obligation": o["oid"], "backend": o["backend"], "note": o["note"]} for o in obs[:3]],
            "trusted": ["token spans: start/stop of tag, filter-name and path tokens delimit exactly that text (C17 contracts: accept_token verified, accept_path assumed)",
                        "a sub-expression evaluated through a child node is reported by that child's own expressions() (each child class has its own obligation)"],
            "functions": [], "assumptions": ["provenance of evaluated/rendered objects is flow-insensitive over the method bodies and same-class helpers (pyvc/sites_c11.py)",
                                              "filters applied by name inside filter implementations and user-defined tags are outside the claim"],
            "not_covered": ["names looked up in the `else` block of a for loop are treated as the loop variable by the analysis (block scope spans the whole node)",
                            "classification of names as global across include/render boundaries is checked only through the per-class scope obligations",
                            "partial templates whose name is not a literal cannot be followed statically"]}


def explore(repo_root="/repo"):
    repo = Repo(repo_root)
    for m, c in node_classes(repo, "Node"):
        meth = _methods(repo, m, c)
        ue = used_fields(repo, m, c, RUN_NODE, meth, EVAL_METHODS)
        uc = used_fields(repo, m, c, RUN_NODE, meth, RENDER_METHODS)
        re_ = reported_fields(meth, ("expressions",))
        rc = reported_fields(meth, ("children", "children_async"))
        print(f"{m.name}:{c.name}  eval={sorted(ue)} reported={sorted(re_)}  render={sorted(uc)} children={sorted(rc)}",
              "MISSING-EXPR" if set(ue) - re_ else "", "MISSING-CHILD" if set(uc) - rc else "")
    for m, c in node_classes(repo, "Expression"):
        meth = _methods(repo, m, c)
        ue = used_fields(repo, m, c, RUN_EXPR, meth, EVAL_METHODS)
        rc = reported_fields(meth, ("children",))
        print(f"{m.name}:{c.name}  eval={sorted(ue)} children={sorted(rc)}", "MISSING" if set(ue) - rc else "")


if __name__ == "__main__":
    import sys
    explore(sys.argv[1] if len(sys.argv) > 1 else "/repo")
