"""Runs inside a subprocess with PYTHONPATH=<repo>: execute the real function on the
inputs of a counter-model and evaluate the contract clause natively."""
from __future__ import annotations

import ast
import copy
import importlib
import json
import sys
import traceback
from fractions import Fraction


def from_model(mv, default=None):
    if mv is None:
        return default
    if isinstance(mv, dict):
        if "str" in mv:
            return mv["str"]
        if "codepoints" in mv:
            return "".join(chr(c) for c in mv["codepoints"] if 0 <= c <= 0x10FFFF)
        if "fraction" in mv:
            return float(Fraction(*mv["fraction"]))
        return default
    return mv


def prim_default(label):
    return {"int": 0, "str": "", "bool": False, "float": 0.0, "decimal": 0.0, "any": None}.get(label)


class Old:
    pass


def eval_clause(clause, env, old_env):
    from pyvc import specs

    tree = ast.parse(clause, mode="eval")

    class R(ast.NodeTransformer):
        def visit_Call(self, node):
            if isinstance(node.func, ast.Name) and node.func.id == "old":
                val = eval(compile(ast.Expression(node.args[0]), "<old>", "eval"), dict(old_env))
                key = f"__old{len(env)}"
                env[key] = val
                return ast.copy_location(ast.Name(id=key, ctx=ast.Load()), node)
            return self.generic_visit(node)

    tree = ast.fix_missing_locations(R().visit(tree))
    g = dict(env)
    for name, fn in specs.REGISTRY.items():
        if fn.py is not None and name not in g:
            g[name] = fn.py
    return eval(compile(tree, "<clause>", "eval"), g)


def main():
    job = json.loads(sys.stdin.read())
    out = {"violates": False}
    try:
        if job["kind"] == "program":
            g = {}
            exec(job["program"], g)
            out["violates"] = bool(g.get("VIOLATES"))
            out["observed"] = str(g.get("OBSERVED", ""))[:500]
            print(json.dumps(out, default=str))
            return
        import contracts  # noqa: F401
        from pyvc.api import REGISTRY, Const, _Prim

        c = REGISTRY[job["target"]]
        case = None
        for cs in c.type_cases():
            label = ",".join(f"{k}:{t.label}" for k, t in cs.items())
            if label == job.get("case"):
                case = cs
        if case is None:
            out["error"] = "case not found"
            print(json.dumps(out))
            return
        model = job["model"]
        modname, _, qual = job["target"].partition(":")
        mod = importlib.import_module(modname)
        if c.build is not None:
            built = c.build(model, case, from_model)
            if built is None:
                out["error"] = "contract.build returned None (state not constructible)"
                print(json.dumps(out))
                return
            fn, args, kwargs, env = built
        else:
            env = {}
            for name, t in case.items():
                if isinstance(t, Const):
                    env[name] = t.value
                elif isinstance(t, _Prim) and t.kind != "any":
                    env[name] = from_model(model.get(name), prim_default(t.label))
                    if t.kind == "real" and t.num == "decimal":
                        import decimal

                        env[name] = decimal.Decimal(repr(env[name]))
                else:
                    out["error"] = f"parameter {name}: {t.label} needs contract.build"
                    print(json.dumps(out))
                    return
            obj = mod
            for p in qual.split("."):
                obj = getattr(obj, p)
            fn = obj
            args = [env[n] for n in case if not n.startswith("*")]
            kwargs = {}
        for k, v in vars(mod).items():
            env.setdefault(k, v)
        def _cp(v):
            try:
                return copy.deepcopy(v)
            except Exception:  # noqa: BLE001
                return v

        old_env = {k: _cp(v) if not callable(v) and not isinstance(v, type(sys)) else v for k, v in env.items() if k in case or k in ("self",)}
        for k, v in env.items():
            old_env.setdefault(k, v)
        out["inputs"] = {k: repr(env[k])[:300] for k in case if k in env}
        out["model"] = model
        observed = None
        try:
            result = fn(*args, **kwargs)
            observed = ("return", result)
        except BaseException as e:  # noqa: BLE001
            observed = ("raise", e)
        out["observed"] = f"{observed[0]} {observed[1]!r}"[:400] if observed[0] == "return" else f"raise {type(observed[1]).__name__}: {observed[1]}"[:400]
        kind = job["obligation"]
        if kind.startswith("post."):
            k = int(kind.split(".")[1])
            if observed[0] == "return":
                env["result"] = observed[1]
                ok = eval_clause(c.post[k], env, old_env)
                out["violates"] = not bool(ok)
        elif kind.startswith("escape."):
            name = kind.split(".", 1)[1]
            if observed[0] == "raise":
                mro = [k.__name__ for k in type(observed[1]).__mro__]
                out["violates"] = not any(r in mro for r in c.raises)
        elif kind.startswith("raises."):
            name = kind.split(".", 1)[1]
            if observed[0] == "raise" and name in [k.__name__ for k in type(observed[1]).__mro__]:
                cond = c.raises[name]
                ok = eval_clause(cond, dict(old_env), old_env)
                out["violates"] = not bool(ok)
        elif kind.startswith("noraise."):
            name = kind.split(".", 1)[1]
            if observed[0] == "return":
                cond = c.raises[name]
                ok = eval_clause(cond, dict(old_env), old_env)
                out["violates"] = bool(ok)
        elif kind.startswith("post_exc."):
            _, name, k = kind.split(".")
            if observed[0] == "raise" and name in [k_.__name__ for k_ in type(observed[1]).__mro__]:
                env["exc"] = observed[1]
                ok = eval_clause(c.post_exc[name][int(k)], env, old_env)
                out["violates"] = not bool(ok)
        else:
            out["error"] = f"obligation kind {kind} has no native replay (internal proof step)"
    except Exception:  # noqa: BLE001
        out["error"] = traceback.format_exc()[-800:]
    print(json.dumps(out, default=str))


main()
