"""Alpha-normalisation of local variable names.

Contracts (loop invariants) and site rules name some locals of the functions they talk about. Renaming a local is a
behaviour-preserving edit, so before anything looks at a function its locals are renamed *back* to the names recorded in
baseline/locals.json (written by bin/mklocals on the tree the contracts were written against): the k-th local bound in
the current function (structural order of first binding) gets the k-th recorded name. The renaming is applied only when
it is a bijection that cannot capture anything: same number of locals as recorded, no target name used for anything else
in the function. It changes no behaviour (alpha-conversion); evidence lists it as an assumption of the encoding."""
from __future__ import annotations

import ast
import json
import os

HERE = os.path.dirname(os.path.dirname(os.path.abspath(__file__)))
_BASELINE = None


def baseline():
    global _BASELINE
    if _BASELINE is None:
        p = os.path.join(HERE, "baseline", "locals.json")
        _BASELINE = json.load(open(p)) if os.path.exists(p) else {}
    return _BASELINE


def _preorder(node):
    yield node
    for ch in ast.iter_child_nodes(node):
        yield from _preorder(ch)


def binding_order(fn):
    """Local names of fn in the structural order of their first binding (Name in Store context), parameters and names
    declared global/nonlocal excluded. Names bound only by except/import/match clauses are not Names and are left alone."""
    a = fn.args
    params = {p.arg for p in a.posonlyargs + a.args + a.kwonlyargs}
    if a.vararg:
        params.add(a.vararg.arg)
    if a.kwarg:
        params.add(a.kwarg.arg)
    skip = set(params)
    for n in _preorder(fn):
        if isinstance(n, (ast.Global, ast.Nonlocal)):
            skip.update(n.names)
    out = []

    def rec(node, top):
        for ch in ast.iter_child_nodes(node):
            if isinstance(ch, (ast.FunctionDef, ast.AsyncFunctionDef, ast.ClassDef, ast.Lambda)):
                continue   # nested scopes bind their own names
            if isinstance(ch, ast.Name) and isinstance(ch.ctx, ast.Store) and ch.id not in skip and ch.id not in out:
                out.append(ch.id)
            rec(ch, False)

    rec(fn, True)
    return out


def _fixed_names(fn, locals_):
    """Every identifier the function uses that is not one of its renamable locals (globals, builtins, parameters,
    attribute names are not Names): a renaming target must not collide with these."""
    used = set()
    for n in _preorder(fn):
        if isinstance(n, ast.Name) and n.id not in locals_:
            used.add(n.id)
        elif isinstance(n, ast.arg):
            used.add(n.arg)
        elif isinstance(n, ast.ExceptHandler) and n.name:
            used.add(n.name)
        elif isinstance(n, ast.alias):
            used.add((n.asname or n.name).split(".")[0])
        elif isinstance(n, (ast.MatchAs, ast.MatchStar)) and getattr(n, "name", None):
            used.add(n.name)
        elif isinstance(n, (ast.FunctionDef, ast.AsyncFunctionDef, ast.ClassDef)) and n is not fn:
            used.add(n.name)
    return used


def _nested_rebinds(fn, names):
    """Does a nested scope (def / lambda / class) bind one of `names` itself?"""
    for n in _preorder(fn):
        if n is fn:
            continue
        if isinstance(n, (ast.FunctionDef, ast.AsyncFunctionDef, ast.Lambda)):
            a = n.args
            ps = {p.arg for p in a.posonlyargs + a.args + a.kwonlyargs}
            if a.vararg:
                ps.add(a.vararg.arg)
            if a.kwarg:
                ps.add(a.kwarg.arg)
            if ps & names:
                return True
            if not isinstance(n, ast.Lambda) and set(binding_order(n)) & names:
                return True
        if isinstance(n, ast.ClassDef):
            return True
    return False


def normalise_module(tree, modname, stats=None):
    base = baseline().get(modname)
    if not base:
        return tree

    def visit(body, prefix):
        for st in body:
            if isinstance(st, (ast.FunctionDef, ast.AsyncFunctionDef)):
                qual = prefix + st.name
                want = base.get(qual)
                if want is not None:
                    cur = binding_order(st)
                    if cur != want and len(cur) == len(want) and len(set(want)) == len(want):
                        ren = {c: w for c, w in zip(cur, want) if c != w}
                        fixed = _fixed_names(st, set(cur))
                        if not (set(ren.values()) & fixed) and not _nested_rebinds(st, set(ren) | set(ren.values())):
                            for n in _preorder(st):
                                if isinstance(n, ast.Name) and n.id in ren:
                                    n.id = ren[n.id]
                            if stats is not None:
                                stats.append(f"{modname}:{qual}: {ren}")
                visit(st.body, qual + ".")
            elif isinstance(st, ast.ClassDef):
                visit(st.body, prefix + st.name + ".")
            elif isinstance(st, (ast.If, ast.Try, ast.With, ast.For, ast.While)):
                for fld in ("body", "orelse", "finalbody"):
                    visit(getattr(st, fld, []) or [], prefix)
                for h in getattr(st, "handlers", []) or []:
                    visit(h.body, prefix)

    visit(tree.body, "")
    return tree


def collect(repo_root):
    """module -> qualname -> local names in binding order, for every function of the package."""
    out = {}
    base = os.path.join(repo_root, "liquid2")
    for dp, dn, fns in os.walk(base):
        dn[:] = sorted(d for d in dn if d != "__pycache__")
        for f in sorted(fns):
            if not f.endswith(".py"):
                continue
            p = os.path.join(dp, f)
            rel = os.path.relpath(p, repo_root)[:-3].replace(os.sep, ".")
            if rel.endswith(".__init__"):
                rel = rel[: -len(".__init__")]
            tree = ast.parse(open(p, encoding="utf-8").read())
            m = {}

            def visit(body, prefix):
                for st in body:
                    if isinstance(st, (ast.FunctionDef, ast.AsyncFunctionDef)):
                        names = binding_order(st)
                        if names:
                            m[prefix + st.name] = names
                        visit(st.body, prefix + st.name + ".")
                    elif isinstance(st, ast.ClassDef):
                        visit(st.body, prefix + st.name + ".")
                    elif isinstance(st, (ast.If, ast.Try, ast.With, ast.For, ast.While)):
                        for fld in ("body", "orelse", "finalbody"):
                            visit(getattr(st, fld, []) or [], prefix)
                        for h in getattr(st, "handlers", []) or []:
                            visit(h.body, prefix)

            visit(tree.body, "")
            if m:
                out[rel] = m
    return out


if __name__ == "__main__":
    import sys

    root = sys.argv[1] if len(sys.argv) > 1 else "/repo"
    os.makedirs(os.path.join(HERE, "baseline"), exist_ok=True)
    with open(os.path.join(HERE, "baseline", "locals.json"), "w") as fd:
        json.dump(collect(root), fd, indent=0, sort_keys=True)
    print("baseline/locals.json written")
