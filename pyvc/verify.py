"""Driver: contract -> paths -> obligations -> solvers -> verdicts."""
from __future__ import annotations

import ast
import hashlib
import json
import os
import subprocess
import sys
import tempfile
import time
import traceback
from fractions import Fraction

import z3

from .api import Contract, REGISTRY, Rec
from .engine import Exec, Frame, Obligation
from .repo import Repo, source_hash
from .values import *  # noqa: F403

Z3_TIMEOUT_MS = int(os.environ.get("PYVC_Z3_MS", "10000"))
CVC5_TIMEOUT_S = int(os.environ.get("PYVC_CVC5_S", "20"))


def seq_model_to_list(t):
    """z3 model value of Seq(Int) -> list[int] (None if not a ground value)."""
    if z3.is_app(t):
        k = t.decl().kind()
        if k == z3.Z3_OP_SEQ_EMPTY:
            return []
        if k == z3.Z3_OP_SEQ_UNIT:
            a = t.arg(0)
            if z3.is_int_value(a):
                return [a.as_long()]
            return None
        if k == z3.Z3_OP_SEQ_CONCAT:
            out = []
            for i in range(t.num_args()):
                p = seq_model_to_list(t.arg(i))
                if p is None:
                    return None
                out.extend(p)
            return out
    return None


def model_value(model, term):
    v = model.eval(term, model_completion=True)
    if z3.is_int_value(v):
        return v.as_long()
    if z3.is_true(v):
        return True
    if z3.is_false(v):
        return False
    if z3.is_rational_value(v):
        return {"fraction": [v.numerator_as_long(), v.denominator_as_long()]}
    if z3.is_seq(v):
        l = seq_model_to_list(v)
        if l is not None:
            try:
                return {"str": "".join(chr(c) if 0 <= c <= 0x10FFFF else "�" for c in l), "codepoints": l}
            except Exception:  # noqa: BLE001
                return {"codepoints": l}
    return {"term": str(v)[:200]}


def collect_consts(terms):
    seen = {}
    stack = list(terms)
    visited = set()
    while stack:
        t = stack.pop()
        if t.get_id() in visited:
            continue
        visited.add(t.get_id())
        if z3.is_const(t) and t.decl().kind() == z3.Z3_OP_UNINTERPRETED:
            seen[t.decl().name()] = t
        elif z3.is_app(t):
            stack.extend(t.children())
        elif z3.is_quantifier(t):
            stack.append(t.body())
    return seen


def discharge(ob: Obligation, z3_ms=None):
    """-> (status, backend, seconds, model|None, reason)"""
    z3_ms = z3_ms or Z3_TIMEOUT_MS
    if getattr(ob, "unsupported", None):
        return ("unknown", "none", 0.0, None, ob.unsupported)
    if z3.is_true(ob.goal) and not ob.pc:
        return ("unsat", "const", 0.0, None, "")
    s = z3.Solver()
    s.set("timeout", z3_ms)
    for c in ob.pc:
        s.add(c)
    s.add(z3.Not(ob.goal))
    t0 = time.time()
    r = timed_check(s, z3_ms)
    dt = time.time() - t0
    if r == z3.unsat:
        if os.environ.get("PYVC_CROSS") and ob.pc:
            # thorough tier: an independent second opinion on every discharged obligation. cvc5 answering `sat` where z3
            # answered `unsat` is a disagreement of the back ends (reported as a checker failure, never as held).
            smt = s.to_smt2().replace("seq.nth_i", "seq.nth").replace("seq.nth_u", "seq.nth")
            st, dt2, _ = run_cvc5(smt, (), tlimit_s=int(os.environ.get("PYVC_CROSS_S", "5")))
            CROSS[st if st in ("sat", "unsat") else "no-answer"] = CROSS.get(st if st in ("sat", "unsat") else "no-answer", 0) + 1
            if st == "sat":
                return ("unknown", "z3-vs-cvc5", dt + dt2, None, "BACK-END DISAGREEMENT: z3 unsat, cvc5 sat")
            return ("unsat", "z3+cvc5" if st == "unsat" else "z3", dt + dt2, None, "")
        return ("unsat", "z3", dt, None, "")
    if r == z3.sat:
        m = s.model()
        consts = collect_consts(list(ob.pc) + [ob.goal])
        mv = {}
        for name, t in consts.items():
            if "!" in name and not name.startswith(("ret_", "item", "getitem")):
                continue
            try:
                mv[name] = model_value(m, t)
            except Exception:  # noqa: BLE001
                pass
        return ("sat", "z3", dt, mv, "")
    # unknown -> bounded model search (a model under extra constraints is still a model)
    reason = s.reason_unknown()
    consts = collect_consts(list(ob.pc) + [ob.goal])
    # (sequence consts are replaced by explicit sequences of fresh elements of a fixed small length)
    for nlist, nstr in ((2, 1), (1, 1), (3, 1), (2, 2), (0, 1), (1, 2), (3, 2)):
        subst = []
        back = {}
        for name, t in consts.items():
            if not z3.is_seq(t):
                continue
            es = t.sort().basis()
            if z3.is_seq_sort(es) if hasattr(z3, "is_seq_sort") else isinstance(es, z3.SeqSortRef):
                elems = [z3.Unit(z3.Int(f"{name}@{i}@0")) if nstr == 1 else z3.Concat(z3.Unit(z3.Int(f"{name}@{i}@0")), z3.Unit(z3.Int(f"{name}@{i}@1"))) for i in range(nlist)]
                units = [z3.Unit(e) for e in elems]
                n = nlist
            elif es == z3.IntSort():
                units = [z3.Unit(z3.Int(f"{name}@{i}")) for i in range(nstr)]
                n = nstr
            else:
                units = [z3.Unit(z3.Const(f"{name}@{i}", es)) for i in range(nlist)]
                n = nlist
            expl = z3.Empty(t.sort()) if n == 0 else (units[0] if n == 1 else z3.Concat(*units))
            subst.append((t, expl))
            back[name] = expl
        if not subst:
            break
        sb = z3.Solver()
        sb.set("timeout", max(2000, z3_ms // 4))
        for c in ob.pc:
            sb.add(z3.substitute(c, *subst))
        sb.add(z3.Not(z3.substitute(ob.goal, *subst)))
        t0 = time.time()
        rb = timed_check(sb, max(2000, z3_ms // 4))
        dt += time.time() - t0
        if rb == z3.sat:
            m = sb.model()
            mv = {}
            for name, t in consts.items():
                if "!" in name and not name.startswith(("ret_", "item", "getitem")):
                    continue
                try:
                    mv[name] = model_value(m, back.get(name, t))
                except Exception:  # noqa: BLE001
                    pass
            return ("sat", "z3-bounded-model", dt, mv, "")
    # unknown -> cvc5
    smt = s.to_smt2().replace("seq.nth_i", "seq.nth").replace("seq.nth_u", "seq.nth")
    names = [n for n in consts if "!" not in n and "#" not in n and "." not in n and not z3.is_array(consts[n])]
    st, dt2, cmodel = run_cvc5(smt, names)
    if st == "unsat":
        return ("unsat", "cvc5", dt + dt2, None, "")
    if st == "sat":
        return ("sat", "cvc5", dt + dt2, cmodel, "")
    # one more z3 try with a different tactic / longer budget
    s2 = z3.Solver()
    s2.set("timeout", z3_ms * 4)
    for c in ob.pc:
        s2.add(c)
    s2.add(z3.Not(ob.goal))
    t0 = time.time()
    r2 = timed_check(s2, z3_ms * 4)
    dt3 = time.time() - t0
    if r2 == z3.unsat:
        return ("unsat", "z3", dt + dt2 + dt3, None, "")
    if r2 == z3.sat:
        m = s2.model()
        consts = collect_consts(list(ob.pc) + [ob.goal])
        mv = {}
        for name, t in consts.items():
            if "!" in name:
                continue
            try:
                mv[name] = model_value(m, t)
            except Exception:  # noqa: BLE001
                pass
        return ("sat", "z3", dt + dt2 + dt3, mv, "")
    return ("unknown", "z3+cvc5", dt + dt2 + dt3, None, f"z3: {reason}; cvc5: {st}")


CROSS = {}


def run_cvc5(smt2: str, names=(), tlimit_s=None):
    """-> (status, seconds, model dict | None).  z3's (check-sat) is replaced so that a model can be asked for."""
    t0 = time.time()
    model = None
    try:
        body = smt2.replace("(check-sat)", "")
        q = "(set-logic ALL)\n(set-option :produce-models true)\n" + body + "\n(check-sat)\n"
        if names:
            q += "(get-value (" + " ".join(f"|{n}|" if not n.isidentifier() else n for n in names) + "))\n"
        with tempfile.NamedTemporaryFile("w", suffix=".smt2", delete=False) as fd:
            fd.write(q)
            path = fd.name
        try:
            p = subprocess.run(
                ["/usr/bin/cvc5", "--strings-exp", f"--tlimit={(tlimit_s or CVC5_TIMEOUT_S) * 1000}", path],
                capture_output=True, text=True, timeout=(tlimit_s or CVC5_TIMEOUT_S) + 5,
            )
            out = p.stdout.strip().splitlines()
            st = out[0] if out else "error"
            if st not in ("sat", "unsat", "unknown", "timeout") and os.environ.get("PYVC_DEBUG"):
                sys.stderr.write("cvc5: " + (p.stdout + p.stderr)[:400] + "\n")
                import shutil
                shutil.copy(path, "/tmp/last_cvc5.smt2")
            if st == "sat" and len(out) > 1:
                model = parse_cvc5_values("\n".join(out[1:]))
        finally:
            os.unlink(path)
    except Exception as e:  # noqa: BLE001
        st = f"error:{type(e).__name__}"
    return st, time.time() - t0, model


def parse_cvc5_values(text):
    """Best-effort reading of `(get-value ...)`: ints, bools and sequences of ints."""
    import re

    out = {}
    for m in re.finditer(r"\(\|?([^\s|()]+)\|?\s+((?:\((?:[^()]|\([^()]*\))*\))|[^\s()]+)\)", text):
        name, val = m.group(1), m.group(2)
        if val in ("true", "false"):
            out[name] = val == "true"
        elif re.fullmatch(r"-?\d+", val):
            out[name] = int(val)
        elif re.fullmatch(r"\(- \d+\)", val):
            out[name] = -int(val[3:-1])
        elif "seq" in val:
            cps = [int(x) for x in re.findall(r"\(seq\.unit (\d+)\)", val)]
            if cps or "seq.empty" in val or "as seq.empty" in val:
                out[name] = {"str": "".join(chr(c) for c in cps if 0 <= c <= 0x10FFFF), "codepoints": cps}
            else:
                out[name] = {"term": val[:200]}
        else:
            out[name] = {"term": val[:200]}
    return out or None


def _own_stmts(fn):
    stack = list(fn.body)
    while stack:
        n = stack.pop()
        if isinstance(n, ast.Expr) and isinstance(n.value, ast.Constant):
            continue
        if isinstance(n, ast.stmt):
            yield n
        for ch in ast.iter_child_nodes(n):
            if isinstance(ch, (ast.FunctionDef, ast.AsyncFunctionDef, ast.ClassDef, ast.Lambda)):
                continue
            if isinstance(ch, (ast.stmt, ast.ExceptHandler, ast.match_case)):
                stack.append(ch)


class FunctionResult:
    def __init__(self, target):
        self.target = target
        self.status = "ok"  # ok | undecided | error
        self.reason = ""
        self.obligations = {}  # oid -> {"status","backend","queries","time", "notes"}
        self.violations = []  # {"oid","case","path","model","note"}
        self.undecided = []
        self.paths = 0
        self.cases = 0
        self.solver_s = 0.0
        self.wall_s = 0.0
        self.source_hash = ""
        self.inlined = set()
        self.used_contracts = set()
        self.intrinsics = set()
        self.assumptions = set()
        self.samples = []
        self.normal_paths = 0
        self.exc_paths = {}
        self.body_statements = 0
        self.body_covered = 0
        self.uncovered_lines = []

    def to_json(self):
        d = dict(self.__dict__)
        for k in ("inlined", "used_contracts", "intrinsics", "assumptions"):
            d[k] = sorted(d[k])
        return d


def match_raises(ex: Exec, c: Contract, exc: ExcVal):
    anc = ex.exc_ancestors(exc)
    for name in c.raises:
        if name == exc.cls:
            return name
    for name in c.raises:
        if name in anc:
            return name
    return None


def verify_contract(repo_root: str, target: str, z3_ms=None, budget_s=600.0) -> FunctionResult:
    t_start = time.time()
    res = FunctionResult(target)
    try:
        repo = Repo(repo_root)
        c = REGISTRY[target]
        mod, node = repo.resolve(target)
        if node is None:
            res.status = "error"
            res.reason = f"target {target} not found in {repo_root}"
            return res
        res.source_hash = source_hash(mod, node)
        c.resolve_aliases(node)
        cases = list(c.type_cases())
        if len(cases) > c.max_cases:
            res.status = "error"
            res.reason = f"{len(cases)} type cases"
            return res
        all_obs: list[Obligation] = []
        executed: set = set()
        for case in cases:
            label = ",".join(f"{k}:{t.label}" for k, t in case.items())
            ex = Exec(repo, c, REGISTRY, case_label=label, budget_s=budget_s)
            try:
                ex.explore(lambda: run_one_path(ex, repo, c, mod, node, case, res))
            except Unsupported as u:
                res.status = "undecided"
                res.reason = f"[{label}] unsupported: {u}"
                return res
            executed |= ex.executed
            dead = [t for t, (n, ok) in ex.callee_stats.items() if n > 0 and ok == 0]
            if dead:
                res.status = "undecided"
                res.reason = f"[{label}] assuming the contract of {dead[0]} makes every path through it infeasible (inconsistent contract or precondition)"
                return res
            res.paths += ex.paths
            res.cases += 1
            res.inlined |= ex.inlined
            res.used_contracts |= ex.used_contracts
            res.intrinsics |= ex.used_intrinsics
            res.assumptions |= ex.assumptions_used
            res.solver_s += ex.solver_time
            all_obs.extend(ex.obligations)
        # coverage canary: the body of the function under contract must actually have been executed
        body = [n for n in _own_stmts(node)]
        covered = [n for n in body if id(n) in executed]
        res.body_statements = len(body)
        res.body_covered = len(covered)
        if body and not covered:
            res.status = "error"
            res.reason = "vacuous: no statement of the function under contract was executed on any path"
            return res
        res.uncovered_lines = sorted({n.lineno for n in body if id(n) not in executed})[:12]
        # a `return` that no explored path reaches would make the postconditions vacuous for that exit: the contract must
        # say that its parameter domain excludes it (`partial_domain="why"`), otherwise the function is undecided
        dead_returns = [n.lineno for n in body if isinstance(n, ast.Return) and id(n) not in executed]
        dead_reason = None
        if dead_returns and not getattr(c, "partial_domain", None):
            dead_reason = (f"return statement(s) at line(s) {dead_returns[:4]} of {c.target} are never reached on any explored path: the postconditions would be "
                           "vacuous for that exit (declare partial_domain=... in the contract if the parameter domain excludes it on purpose)")
        # "nothing else escapes": one obligation per function, failed by any escape.* obligation
        if not any("/escape." in ob.oid for ob in all_obs):
            all_obs.append(Obligation(f"{c.target}/noescape", [], z3.BoolVal(True), "", f"no exception class outside {sorted(c.raises)} reaches the caller on any path", ""))
        # discharge
        for ob in all_obs:
            st, backend, dt, model, reason = discharge(ob, z3_ms)
            res.solver_s += dt
            rec = res.obligations.setdefault(ob.oid, {"status": "unsat", "backends": {}, "queries": 0, "time": 0.0, "note": ob.note})
            rec["queries"] += 1
            rec["time"] += dt
            rec["backends"][backend] = rec["backends"].get(backend, 0) + 1
            if st == "sat":
                rec["status"] = "sat"
                res.violations.append({"oid": ob.oid, "case": ob.case, "path": ob.path, "model": model, "note": ob.note,
                                       "goal": str(ob.goal)[:400], "imprecise": ob.imprecise, "backend": backend})
            elif st == "unknown":
                if rec["status"] != "sat":
                    rec["status"] = "unknown"
                res.undecided.append({"oid": ob.oid, "case": ob.case, "path": ob.path, "reason": reason, "note": ob.note})
            if len(res.samples) < 3 and st == "unsat" and backend != "const":
                res.samples.append({"obligation": ob.oid, "case": ob.case, "path": ob.path or "-",
                                    "assumptions": [str(p)[:160] for p in ob.pc[-4:]], "goal": str(ob.goal)[:300], "backend": backend})
        if dead_reason and not res.violations:
            # no obligation fails, but a normal exit was never explored: not a proof
            res.undecided.append({"oid": f"{c.target}/coverage.returns", "case": "", "path": "", "reason": dead_reason, "note": "every return statement is reached on some explored path"})
    except Exception as e:  # noqa: BLE001
        res.status = "error"
        res.reason = f"{type(e).__name__}: {e}\n{traceback.format_exc()[-1500:]}"
    res.wall_s = time.time() - t_start
    return res


def run_one_path(ex: Exec, repo, c: Contract, mod, node, case, res: FunctionResult):
    cls = None
    qual = c.qual
    parts = qual.split(".")
    if len(parts) >= 2 and parts[0] in mod.classes:
        cls = (mod, mod.classes[parts[0]])
    fref = FuncRef(mod, node, cls=cls, qual=qual)
    fr = Frame(mod, fname=qual)
    params = {}
    for name, ty in case.items():
        params[name] = ty.fresh(ex, name, fixed=True)
    fr.locals.update(params)
    ex.ghost_params = {}
    for name, ty in c.ghost.items():
        fr.locals[name] = ty.fresh(ex, name, fixed=True)
        ex.ghost_params[name] = fr.locals[name]
    fr.old = ex.snapshot(fr.locals)
    ex.entry_old = fr.old
    for clause in c.pre:
        ex.assume(ex.spec_bool(clause, fr))
    for clause in c.lemmas:
        # instances of definitional axioms of specification functions, at the entry state
        ex.used_intrinsics.add(f"definitional axiom instance: {clause}")
        ex.assume(ex.spec_bool(clause, fr))
    # vacuity: precondition must be satisfiable
    if ex.path_id == "" and c.pre:
        if ex.check_sat([]) == z3.unsat:
            ex.obligations.append(Obligation(f"{c.target}/vacuity.pre", [], z3.BoolVal(False), "", "precondition unsatisfiable", ex.case_label))
            raise PathEnd("vacuous")
    a = node.args
    pos_names = [p.arg for p in list(a.posonlyargs) + list(a.args)]
    args = []
    kwargs = {}
    extra_pos = []
    all_names = set(pos_names) | {p.arg for p in a.kwonlyargs}
    if any(n not in all_names and not n.startswith("*") for n in params) and node.decorator_list:
        # the public callable is a decorator's wrapper with its own signature (`val, *args, **kwargs`):
        # contract parameters are passed positionally, in the order the contract lists them,
        # except those that are keyword-only parameters of the wrapped function
        kwonly = {p.arg for p in a.kwonlyargs}
        pos_names = [n for n in params if n not in kwonly]
    for name, v in params.items():
        if name in pos_names:
            continue
        if name.startswith("*"):
            extra_pos.extend(v if isinstance(v, tuple) else [v])
        else:
            kwargs[name] = v
    for n in pos_names:
        if n in params:
            args.append(params[n])
        else:
            break
    args.extend(extra_pos)
    self_val = params.get(pos_names[0]) if pos_names and cls is not None else None
    outcome = None
    try:
        if any(ast.unparse(d) == "contextmanager" for d in node.decorator_list):
            result = run_cm_target(ex, c, fref, args, kwargs, self_val, fr)
        else:
            ex.depth = -1  # the target itself is depth 0
            result = ex.call_repo_function(_mark_top(fref), args, kwargs, self_val, fr)
        outcome = ("return", result)
    except RaiseSig as rs:
        outcome = ("raise", rs)
    finally:
        ex.depth = 0
    # vacuity guard: the assumptions collected along a completed path must be satisfiable
    if not ex.unknown_feasibility and ex.check_sat([], 5000) == z3.unsat:
        raise Unsupported(f"path {ex.path_id or '-'} completes under contradictory assumptions (engine axiom or callee contract inconsistent)")
    if outcome[0] == "return":
        res.normal_paths += 1
        fr.locals["result"] = outcome[1]
        for k, clause in enumerate(c.post):
            try:
                goal = ex.spec_bool(clause, fr)
            except Unsupported as u:
                # this clause cannot be evaluated on this path (e.g. it reads a field the returned object does not have):
                # undecided for this clause only - the other clauses are still decided
                ob = Obligation(f"{c.target}/post.{k}", [], z3.BoolVal(True), ex.path_id, clause, ex.case_label)
                ob.unsupported = f"clause not evaluable on this path: {u}"
                ex.obligations.append(ob)
                continue
            ex.oblige(f"post.{k}", goal, clause)
        for k, clause in enumerate(c.post_internal):
            ex.oblige(f"post.internal.{k}", ex.spec_bool(clause, fr), clause)
        for exc_name, cond in c.raises.items():
            if cond is not None:
                ex.oblige(f"noraise.{exc_name}", z3.Not(ex.spec_bool(cond, fr_old(ex, fr))), f"returns normally only if not ({cond})")
    else:
        rs = outcome[1]
        exc = rs.exc
        res.exc_paths[exc.cls] = res.exc_paths.get(exc.cls, 0) + 1
        name = match_raises(ex, c, exc)
        if name is None:
            ex.oblige(f"escape.{exc.cls}", z3.BoolVal(False), f"{exc.cls} escapes ({rs.primitive or 'raise statement'}); allowed: {sorted(c.raises)}")
        else:
            cond = c.raises[name]
            if cond is not None:
                ex.oblige(f"raises.{name}", ex.spec_bool(cond, fr_old(ex, fr)), f"raises {name} only if {cond}")
            fr.locals["exc"] = exc
            for k, clause in enumerate(c.post_exc.get(name, [])):
                try:
                    goal = ex.spec_bool(clause, fr)
                except RaiseSig as rs2:
                    # the clause itself fails to evaluate on this exception (e.g. exc.token is None): it does not hold
                    goal = z3.BoolVal(False)
                    clause = f"{clause}  [evaluating it raised {rs2.exc.cls}; the exception came from: {rs.primitive or 'raise statement'}]"
                ex.oblige(f"post_exc.{name}.{k}", goal, clause)


def fr_old(ex, fr):
    """Frame whose parameters denote the entry state (raises-conditions are over the pre-state)."""
    f = Frame(fr.mod, locals_=dict(fr.old), fname=fr.fname)
    f.old = fr.old
    return f


def _mark_top(fref):
    return fref


def run_cm_target(ex, c, fref, args, kwargs, self_val, fr):
    """Verify an @contextmanager generator: the with-body is an arbitrary callback that
    may raise (contract option checks: 'cm_body_raises')."""
    state = {}

    def body(v):
        fr.locals["yielded"] = v
        for k, clause in enumerate(c.checks_at("enter")):
            ex.oblige(f"enter.{k}", ex.spec_bool(clause, fr), clause)
        b = ex.fresh("body_raises", "bool")
        if ex.decide(b.t):
            raise RaiseSig(ExcVal("BodyError"))

    ex.run_generator_cm(fref, args, kwargs, self_val, body)
    return None
