"""Structural back ends (frame / site / twin / const obligations), dispatched per property."""
from __future__ import annotations

import importlib

BACKENDS = {}


def register(prop):
    def deco(fn):
        BACKENDS.setdefault(prop, []).append(fn)
        return fn

    return deco


def run(prop, repo_root, tier):
    out = {"obligations": [], "samples": [], "trusted": [], "functions": [], "errors": [], "assumptions": [], "bounded": [], "not_covered": []}
    for modname in ("pyvc.twin", "pyvc.frame", "pyvc.sites", "pyvc.sites_c11", "pyvc.sites_c05"):
        try:
            importlib.import_module(modname)
        except ModuleNotFoundError as e:
            if e.name != modname:
                raise
    for fn in BACKENDS.get(prop, []):
        r = fn(repo_root, tier)
        for k in out:
            out[k].extend(r.get(k, []))
    return out
