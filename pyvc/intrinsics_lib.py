"""Assumed contracts of built-ins and library functions (trusted base, DESIGN 8)."""
from __future__ import annotations

import ast
import builtins
import collections
import decimal
import functools
import io
import itertools
import math
import operator
import sys

import z3

from .values import *  # noqa: F403
from .intrinsics import (  # noqa: F401
    ext, meth, Intrinsics, F_utf8len, F_int2str, F_real2str, F_str2int, F_str2real, P_is_int_str,
    P_is_float_str, F_float_class, F_round_he, F_round_nd, F_fround, F_sizeof, F_nl_translate,
    F_lower, F_upper, F_strip, F_lstrip, F_rstrip, P_isspace, F_any_str,
)

INF = float("inf")


def _conc(I, *vals):
    return all(I.ex.is_concrete(v) for v in vals)


# ------------------------------------------------------------------ builtins
@ext(len)
def _len(I, args, kw):
    ex = I.ex
    (v,) = args
    if isinstance(v, (SStr, SMarkup)):
        return SInt(z3.Length(v.t))
    if isinstance(v, SSeq):
        return SInt(z3.Length(v.t))
    if isinstance(v, HSet):
        return SInt(v.count)
    if isinstance(v, HListView):
        return SInt(z3.Length(v.seq))
    if is_tagged(v, "range"):
        lo, hi = ex.to_int_term(v[1]), ex.to_int_term(v[2])
        return SInt(z3.If(hi - lo > 0, hi - lo, 0))
    if isinstance(v, range):
        return len(v)
    if isinstance(v, HSpecList):
        if "__len__" in v.hooks:
            return v.hooks["__len__"](ex, v, [], {})
        raise Unsupported(f"len of the abstracted list {v.name}")
    if isinstance(v, SBytes):
        from .specs import utf8len_term

        I.use("len(s.encode('utf-8')) = utf8len(s): additive over concatenation, len(s) <= utf8len(s) <= 4*len(s)")
        return SInt(utf8len_term(ex, v.s.t))
    if isinstance(v, HList):
        return len(v.items) if v.items is not None else SInt(z3.Length(v.sym.t))
    if isinstance(v, HDict):
        if v.concrete is not None:
            return len(v.concrete)
        if v.order is not None:
            return SInt(z3.Length(v.order))
        F = z3.Function(f"dict_len_{v.ksort}", v.has.sort(), IntSort)
        n = F(v.has)
        key = ("dict_len", v.has.sexpr())
        if key not in ex.facts_seen:
            ex.facts_seen.add(key)
            k = z3.Const("k!len", ELEM_SORT[v.ksort])
            ex.assume(z3.And(n >= 0, (n == 0) == z3.Not(z3.Exists([k], z3.Select(v.has, k)))))
        I.use("len(dict) of a symbolic dict: uninterpreted, 0 iff no key is present")
        return SInt(n)
    if isinstance(v, tuple):
        if is_tagged(v, "set"):
            return len(v[1])
        if isinstance(v, Tagged):
            raise Unsupported(f"len of {v[0]}")
        return len(v)
    if isinstance(v, HObj):
        r = ex.repo.find_method(v.cls.mod, v.cls.node, "__len__") if v.cls.node is not None else None
        if r and r[0] == "func":
            return ex.call_repo_function(FuncRef(r[1], r[3], cls=(r[1], r[2]), qual=f"{r[2].name}.__len__"), [v], {}, v, None)
        raise Unsupported(f"len of {v!r}")
    if isinstance(v, SAny):
        I.use("len(opaque) = len_of(x) >= 0 (uninterpreted); raises TypeError unless the object is sized")
        F_len = z3.Function("len_of", ObjSort, IntSort)
        if not ex.pure and ex.contract.obj_protocol != "mapping":
            sized = z3.Function("is_sized", ObjSort, BoolSort)(v.t)
            if not ex.decide(sized):
                ex.raise_builtin("TypeError", "len()")
        n = SInt(F_len(v.t))
        key = ("len_of", v.t.sexpr())
        if key not in ex.facts_seen:
            ex.facts_seen.add(key)
            ex.assume(n.t >= 0)
        return n
    if isinstance(v, (SInt, SBool, SReal)) or v is None or isinstance(v, (int, float)):
        ex.raise_builtin("TypeError", "len() of number/None")
    if ex.is_concrete(v):
        return ex.concrete_op(lambda: len(v))
    raise Unsupported(f"len of {v!r}")


@ext(ord)
def _ord(I, args, kw):
    ex = I.ex
    (v,) = args
    if isinstance(v, str):
        return ex.concrete_op(lambda: ord(v))
    if isinstance(v, SStr):
        ex.require(z3.Length(v.t) == 1, "TypeError", "ord() of non-char")
        c = v.t[0]
        ex.assume(z3.And(c >= 0, c <= 0x10FFFF))
        return SInt(c)
    ex.raise_builtin("TypeError", "ord()")


@ext(chr)
def _chr(I, args, kw):
    ex = I.ex
    (v,) = args
    if isinstance(v, int):
        return ex.concrete_op(lambda: chr(v))
    t = ex.to_int_term(v)
    ex.require(z3.And(t >= 0, t <= 0x10FFFF), "ValueError", "chr() arg not in range")
    return SStr(z3.Unit(t))


@ext(isinstance)
def _isinstance(I, args, kw):
    v, t = args
    return I.ex.to_bool_value(I.isinstance_(v, t))


@ext(hasattr)
def _hasattr(I, args, kw):
    v, n = args
    return I.ex.to_bool_value(I.hasattr_(v, n))


@ext(getattr)
def _getattr(I, args, kw):
    ex = I.ex
    v, n = args[0], args[1]
    if not isinstance(n, str):
        raise Unsupported("getattr with symbolic name")
    has = I.hasattr_(v, n)
    if isinstance(has, bool):
        if has:
            return I.getattr(v, n, None)
        if len(args) > 2:
            return args[2]
        ex.raise_builtin("AttributeError", f"getattr {n}")
    if ex.decide(has):
        return ex.fresh(f"attr_{n}", "any")
    if len(args) > 2:
        return args[2]
    ex.raise_builtin("AttributeError", f"getattr {n}")


@ext(type)
def _type(I, args, kw):
    ex = I.ex
    (v,) = args
    if isinstance(v, HObj):
        return v.cls
    if isinstance(v, ExcVal):
        return ClassRef(v.cls)
    rep = {SInt: int, SBool: bool, SStr: str, SReal: float, HList: list, HDict: dict}.get(type(v))
    if rep:
        return ExternalRef(rep, rep.__name__)
    if ex.is_concrete(v):
        return ExternalRef(type(v), type(v).__name__)
    if isinstance(v, SAny):
        return ExternalRef(object, "object")
    raise Unsupported(f"type() of {v!r}")


@ext(str)
def _str(I, args, kw):
    if not args:
        return ""
    return I.str_(args[0])


@ext(repr)
def _repr(I, args, kw):
    return I.repr_(args[0])


@ext(bool)
def _bool(I, args, kw):
    if not args:
        return False
    return I.ex.to_bool_value(I.ex.truth(args[0]))


@ext(int)
def _int(I, args, kw):
    ex = I.ex
    if not args:
        return 0
    v = args[0]
    if len(args) > 1 or kw:
        if _conc(I, *args):
            return ex.concrete_op(lambda: int(*args, **kw))
        raise Unsupported("int() with base on symbolic value")
    if isinstance(v, SInt):
        return v
    if isinstance(v, SBool):
        return SInt(ex.to_int_term(v))
    if isinstance(v, SReal):
        # truncation toward zero
        return SInt(z3.If(v.t >= 0, z3.ToInt(v.t), -z3.ToInt(-v.t)))
    if isinstance(v, (SStr, SMarkup)):
        I.use("int(str): parses iff is_int_str(s) (uninterpreted), else ValueError")
        ex.require(P_is_int_str(v.t), "ValueError", "int() of non-numeric string")
        return SInt(F_str2int(v.t))
    if isinstance(v, SAny):
        I.use("int(opaque): opaque int or ValueError/TypeError")
        o = ex.fresh("int_outcome", "int")
        if ex.decide(o.t == 1):
            ex.raise_builtin("ValueError", "int()")
        if ex.decide(o.t == 2):
            ex.raise_builtin("TypeError", "int()")
        return ex.fresh("int", "int")
    if isinstance(v, (HList, HDict, HObj, tuple)) or v is None:
        ex.raise_builtin("TypeError", "int() argument")
    if ex.is_concrete(v):
        return ex.concrete_op(lambda: int(v))
    raise Unsupported(f"int of {v!r}")


def _float_of_str(I, t, exc="ValueError"):
    ex = I.ex
    I.use("float(str)/Decimal(str): parses iff is_float_str(s); value finite, +inf, -inf or nan (uninterpreted)")
    ex.require(P_is_float_str(t), exc, "float() of non-numeric string")
    cls = F_float_class(t)
    if ex.decide(cls == 0):
        return ("fin", F_str2real(t))
    if ex.decide(cls == 1):
        return ("inf", INF)
    if ex.decide(cls == 2):
        return ("inf", -INF)
    return ("nan", float("nan"))


@ext(float)
def _float(I, args, kw):
    ex = I.ex
    if not args:
        return 0.0
    v = args[0]
    if isinstance(v, SReal):
        if v.num == "float":
            return v
        I.use("float(Decimal): nearest float (uninterpreted rounding, exact on small integers)")
        return SReal(F_fround(v.t), "float")
    if isinstance(v, (SInt, SBool)):
        ex.assumptions_used.add("float(int) read as exact (true for |n| <= 2**53; larger ints round, huge ints raise OverflowError - not modelled)")
        return SReal(z3.ToReal(ex.to_int_term(v)), "float")
    if isinstance(v, (SStr, SMarkup)):
        k, r = _float_of_str(I, v.t)
        return SReal(r, "float") if k == "fin" else r
    if isinstance(v, (HList, HDict, HObj, tuple)) or v is None:
        ex.raise_builtin("TypeError", "float() argument")
    if isinstance(v, SAny):
        return ex.over_approximate("float_of_opaque", "any", "float(opaque number)")
    if ex.is_concrete(v):
        return ex.concrete_op(lambda: float(v))
    raise Unsupported(f"float of {v!r}")


@ext(decimal.Decimal)
def _decimal(I, args, kw):
    ex = I.ex
    (v,) = args
    if isinstance(v, SStr):
        t = v.t
        # Decimal(str(x)) is exact for the abstraction (the float is read as its repr)
        if z3.is_app(t) and t.decl().name() == "real2str":
            return SReal(t.arg(0), "decimal")
        if z3.is_app(t) and t.decl().name() == "int2str":
            return SReal(z3.ToReal(t.arg(0)), "decimal")
        I.use("Decimal(str): decimal.InvalidOperation (an ArithmeticError) when not numeric")
        k, r = _float_of_str(I, t, exc="InvalidOperation")
        return SReal(r, "decimal") if k == "fin" else decimal.Decimal(repr(r))
    if isinstance(v, (SInt, SBool)):
        return SReal(z3.ToReal(ex.to_int_term(v)), "decimal")
    if isinstance(v, SReal):
        return SReal(v.t, "decimal")
    if ex.is_concrete(v):
        return ex.concrete_op(lambda: decimal.Decimal(v))
    raise Unsupported(f"Decimal of {v!r}")


@ext(abs)
def _abs(I, args, kw):
    ex = I.ex
    (v,) = args
    if isinstance(v, SInt):
        return SInt(z3.If(v.t >= 0, v.t, -v.t))
    if isinstance(v, SReal):
        return SReal(z3.If(v.t >= 0, v.t, -v.t), v.num)
    if isinstance(v, SBool):
        return SInt(ex.to_int_term(v))
    if ex.is_concrete(v):
        return ex.concrete_op(lambda: abs(v))
    ex.raise_builtin("TypeError", "abs()")


def _minmax(is_min):
    def h(I, args, kw):
        ex = I.ex
        if kw:
            raise Unsupported("min/max with key/default")
        if len(args) == 1:
            items = ex.iter_concrete(args[0])
            if items is None:
                raise Unsupported("min/max of symbolic iterable")
            args = items
            if not args:
                ex.raise_builtin("ValueError", "min/max of empty sequence")
        best = args[0]
        for x in args[1:]:
            if _conc(I, best, x):
                best = ex.concrete_op(lambda: (min if is_min else max)(best, x))
                continue
            c = ex.truth(I.compare(ast.Lt() if is_min else ast.Gt(), x, best))
            same = type(x) is type(best) and isinstance(x, (SInt, SReal))
            if (ex.pure or same) and not isinstance(c, bool):
                tx, kx = ex.lift(x)
                tb, kb = ex.lift(best)
                if kx == kb:
                    best = wrap(z3.If(c, tx, tb), kx)
                    continue
            if ex.decide(c):
                best = x
        return best

    return h


_EXT_min = ext(min)(_minmax(True))
_EXT_max = ext(max)(_minmax(False))


@ext(round)
def _round(I, args, kw):
    ex = I.ex
    v = args[0]
    nd = args[1] if len(args) > 1 else kw.get("ndigits")
    if _conc(I, v, nd):
        return ex.concrete_op(lambda: round(v) if nd is None else round(v, nd))
    if isinstance(v, (SInt, SBool)):
        if nd is None:
            return SInt(ex.to_int_term(v))
        return SInt(ex.to_int_term(v)) if isinstance(nd, int) and nd >= 0 else ex.fresh("round", "int")
    if isinstance(v, SReal):
        if nd is None:
            I.use("round(x): round-half-even to int, |r - x| <= 1/2")
            r = F_round_he(v.t)
            ex.assume(z3.And(z3.ToReal(r) - v.t <= z3.RealVal("1/2"), v.t - z3.ToReal(r) <= z3.RealVal("1/2")))
            return SInt(r)
        I.use("round(x, n): uninterpreted")
        return SReal(F_round_nd(v.t, ex.to_int_term(nd)), v.num)
    if isinstance(v, float):  # inf/nan with symbolic digits
        if nd is None:
            return ex.concrete_op(lambda: round(v))
        return v
    ex.raise_builtin("TypeError", "round()")


@ext(math.ceil)
def _ceil(I, args, kw):
    ex = I.ex
    (v,) = args
    if isinstance(v, SReal):
        return SInt(-z3.ToInt(-v.t))
    if isinstance(v, (SInt, SBool)):
        return SInt(ex.to_int_term(v))
    if ex.is_concrete(v):
        return ex.concrete_op(lambda: math.ceil(v))
    ex.raise_builtin("TypeError", "math.ceil()")


@ext(math.floor)
def _floor(I, args, kw):
    ex = I.ex
    (v,) = args
    if isinstance(v, SReal):
        return SInt(z3.ToInt(v.t))
    if isinstance(v, (SInt, SBool)):
        return SInt(ex.to_int_term(v))
    if ex.is_concrete(v):
        return ex.concrete_op(lambda: math.floor(v))
    ex.raise_builtin("TypeError", "math.floor()")


@ext(math.isfinite, math.isinf, math.isnan)
def _isfin(I, args, kw):
    raise Unsupported("math.isfinite/isinf/isnan on symbolic value")


@ext(operator.mul)
def _mul(I, args, kw):
    return I.binop(ast.Mult(), args[0], args[1])


@ext(operator.getitem)
def _getitem(I, args, kw):
    return I.subscript(args[0], args[1])


@ext(functools.reduce)
def _reduce(I, args, kw):
    ex = I.ex
    fn, it = args[0], args[1]
    items = ex.iter_concrete(it)
    if items is None:
        # reduce(mul, (g(x) for x in seq), init): specification fold
        if is_tagged(it, "gen") and isinstance(fn, ExternalRef) and fn.obj is operator.mul and len(args) == 3:
            from . import specs

            return specs.fold_product(ex, it, args[2])
        raise Unsupported("reduce over symbolic iterable")
    if len(args) > 2:
        acc = args[2]
    else:
        if not items:
            ex.raise_builtin("TypeError", "reduce() of empty sequence")
        acc = items.pop(0)
    for x in items:
        acc = ex.call(fn, [acc, x], {}, None)
    return acc


@ext(sum)
def _sum(I, args, kw):
    ex = I.ex
    it = args[0]
    items = ex.iter_concrete(it)
    if items is None:
        if is_tagged(it, "gen"):
            from . import specs

            return specs.fold_sum(ex, it, args[1] if len(args) > 1 else 0)
        raise Unsupported("sum over symbolic iterable")
    acc = args[1] if len(args) > 1 else 0
    for x in items:
        acc = I.binop(ast.Add(), acc, x)
    return acc


@ext(any, all)
def _anyall(I, args, kw):
    raise Unsupported("any/all (handled by the caller-specific model)")


@ext(list)
def _list(I, args, kw):
    ex = I.ex
    if not args:
        return HList(items=[])
    v = args[0]
    items = ex.iter_concrete(v)
    if items is not None:
        return HList(items=list(items))
    seq = ex.as_symbolic_seq(v)
    if seq is not None:
        return HList(sym=SSeq(seq.t, seq.elem))
    if is_tagged(v, "rangeslice"):
        return HList(sym=ex.fresh("range_items", ("seq", "int")))
    if is_tagged(v, "dictitems-first"):
        present, item = _first_item_of(I, v[1])
        return HList(items=[item] if present else [])
    if is_tagged(v, "islice", "opaque-iter") or isinstance(v, SAny):
        return Tagged("opaque-list", v)
    raise Unsupported(f"list() of {v!r}")


@ext(tuple)
def _tuple(I, args, kw):
    ex = I.ex
    if not args:
        return ()
    items = ex.iter_concrete(args[0])
    if items is None:
        raise Unsupported("tuple() of symbolic iterable")
    return tuple(items)


@ext(dict)
def _dict(I, args, kw):
    ex = I.ex
    d = {}
    if args:
        src = args[0]
        if isinstance(src, HDict) and src.concrete is not None:
            d.update(src.concrete)
        elif isinstance(src, HDict) and not kw:
            return HDict(ksort=src.ksort, vkind=src.vkind, has=src.has, val=src.val, order=src.order)
        else:
            raise Unsupported("dict() of symbolic mapping")
    d.update(kw)
    return HDict(concrete=d)


@ext(set)
def _set_new(I, args, kw):
    ex = I.ex
    if not args:
        return HSet()
    return _set(I, args, kw)


@meth("set", "add")
def _set_add(I, recv, args, kw):
    ex = I.ex
    (x,) = args
    t, k = ex.lift(x)
    if recv.kind is None:
        recv.kind = k
        recv.has = z3.K(ELEM_SORT[k], z3.BoolVal(False))
    if k != recv.kind:
        raise Unsupported("set with elements of different kinds")
    already = z3.Select(recv.has, t)
    recv.count = z3.If(already, recv.count, recv.count + 1)
    recv.has = z3.Store(recv.has, t, z3.BoolVal(True))
    return None


@ext(frozenset)
def _set(I, args, kw):
    ex = I.ex
    if not args:
        return Tagged("set", ())
    items = ex.iter_concrete(args[0])
    if items is None:
        raise Unsupported("set() of symbolic iterable")
    return Tagged("set", tuple(items))


@ext(iter)
def _iter(I, args, kw):
    ex = I.ex
    v = args[0]
    items = ex.iter_concrete(v)
    if items is not None:
        return HObj(ClassRef("iterator"), {"items": items, "pos": 0})
    seq = ex.as_symbolic_seq(v)
    if seq is not None:
        return HObj(ClassRef("iterator"), {"seq": seq, "pos": 0})
    raise Unsupported(f"iter() of {v!r}")


@ext(itertools.islice)
def _islice(I, args, kw):
    ex = I.ex
    it = args[0]
    if is_tagged(it, "opaque-iter") and len(args) == 2 and isinstance(args[1], int) and args[1] >= 1:
        return it
    if is_tagged(it, "dictitems") and len(args) == 2 and args[1] == 1 and not isinstance(args[1], bool):
        return Tagged("dictitems-first", it[1])
    I.use("itertools.islice(it, start, stop): ValueError unless start/stop are None or 0 <= x <= sys.maxsize; yields the elements start..stop-1")
    if len(args) == 2:
        start, stop = None, args[1]
    else:
        start, stop = args[1], args[2]
        if len(args) > 3:
            raise Unsupported("islice with step")
    for v, what in ((start, "start"), (stop, "stop")):
        if v is None:
            continue
        if isinstance(v, (SInt, int)) and not isinstance(v, bool):
            ex.require(z3.And(ex.to_int_term(v) >= 0, ex.to_int_term(v) <= sys.maxsize), "ValueError", f"islice {what} must be None or 0 <= x <= sys.maxsize")
        else:
            ex.raise_builtin("ValueError", f"islice {what} of wrong type")
    ex.trace_event("islice", it, start, stop)
    return Tagged("islice", it, start, stop)


def _first_item_of(I, d):
    """(present?, (key, value)) for the first item of a symbolic dict: some key that is present, with its value."""
    ex = I.ex
    k = ex.fresh("first_key", d.ksort)
    ex_has = z3.Select(d.has, k.t)
    lenv = _len(I, [d], {})
    nonempty = ex.decide(ex.to_int_term(lenv) > 0)
    if not nonempty:
        return False, None
    ex.assume(ex_has)
    I.use("iteration over a non-empty symbolic dict starts with some present key and its value")
    return True, (k, wrap(z3.Select(d.val, k.t), d.vkind))


@ext(next)
def _next(I, args, kw):
    ex = I.ex
    it = args[0]
    if is_tagged(it, "dictitems-first", "dictitems"):
        present, item = _first_item_of(I, it[1])
        if present:
            return item
        if len(args) > 1:
            return args[1]
        ex.raise_builtin("StopIteration", "next() of an empty dict view")
    if is_tagged(it, "opaque-iter"):
        from .intrinsics import F_any_truth

        if ex.decide(F_any_truth(it[1].t)):
            return ex.fresh("first_item", "any")
        if len(args) > 1:
            return args[1]
        ex.raise_builtin("StopIteration", "next() of an empty iterable")
    if isinstance(it, HObj) and it.cls.name == "iterator":
        if "items" in it.fields:
            if it.fields["pos"] < len(it.fields["items"]):
                v = it.fields["items"][it.fields["pos"]]
                it.fields["pos"] += 1
                return v
            if len(args) > 1:
                return args[1]
            ex.raise_builtin("StopIteration", "next()")
        seq = it.fields["seq"]
        pos = it.fields["pos"]
        pt = ex.to_int_term(pos)
        if not ex.decide(pt < z3.Length(seq.t)):
            if len(args) > 1:
                return args[1]
            ex.raise_builtin("StopIteration", "next()")
        it.fields["pos"] = SInt(pt + 1) if not isinstance(pos, int) else pos + 1
        return ex.seq_at(seq, pt)
    raise Unsupported(f"next() of {it!r}")


@ext(enumerate)
def _enumerate(I, args, kw):
    ex = I.ex
    v = args[0]
    start = args[1] if len(args) > 1 else kw.get("start", 0)
    if isinstance(v, HObj) and v.cls.name == "iterator" and "items" in v.fields:
        items = v.fields["items"][v.fields["pos"]:]
        v.fields["pos"] = len(v.fields["items"])
    else:
        items = ex.iter_concrete(v)
    if items is None:
        seq = ex.as_symbolic_seq(v)
        if seq is None and isinstance(v, HObj) and v.cls.name == "iterator" and "seq" in v.fields:
            s = v.fields["seq"]
            pt = ex.to_int_term(v.fields["pos"])
            seq = SSeq(z3.SubSeq(s.t, pt, z3.Length(s.t) - pt), s.elem)
        if seq is None:
            raise Unsupported("enumerate of symbolic iterable")
        return SSeqEnum(seq, start)
    return [(start + i, x) for i, x in enumerate(items)]


class SSeqEnum(SSeq):
    """enumerate(seq): element i is (start+i, seq[i])."""

    def __init__(self, seq, start):
        super().__init__(seq.t, seq.elem)
        self.inner = seq
        self.start = start


@ext(zip)
def _zip(I, args, kw):
    ex = I.ex
    lists = [ex.iter_concrete(a) for a in args]
    if any(l is None for l in lists):
        raise Unsupported("zip of symbolic iterable")
    return list(zip(*lists))


@ext(range)
def _range(I, args, kw):
    ex = I.ex
    if _conc(I, *args):
        return ex.concrete_op(lambda: range(*args))
    if len(args) <= 2 and all(isinstance(a, (SInt, int)) and not isinstance(a, bool) for a in args):
        lo, hi = (0, args[0]) if len(args) == 1 else args
        return Tagged("range", lo, hi)
    raise Unsupported("range with symbolic bounds")


@ext(reversed)
def _reversed(I, args, kw):
    ex = I.ex
    items = ex.iter_concrete(args[0])
    if items is not None:
        return list(reversed(items))
    seq = ex.as_symbolic_seq(args[0])
    if seq is not None and not getattr(seq, "rev", False):
        r = SSeq(seq.t, seq.elem)
        r.rev = True  # element i of the view is seq[len-1-i]
        return r
    if is_tagged(args[0], "opaque-list"):
        return Tagged("reversed", args[0])
    raise Unsupported("reversed of symbolic data")


@ext(sorted)
def _sorted(I, args, kw):
    ex = I.ex
    if _conc(I, *args) and not kw:
        return HList(items=sorted(args[0]))
    raise Unsupported("sorted of symbolic data")


@ext(sys.getsizeof)
def _getsizeof(I, args, kw):
    ex = I.ex
    I.use("sys.getsizeof(x) >= 0 (uninterpreted)")
    r = ex.fresh("sizeof", "int")
    ex.assume(r.t >= 0)
    return r


@ext(id)
def _id(I, args, kw):
    return I.ex.fresh("id", "int")


@ext(print)
def _print(I, args, kw):
    return None


# ------------------------------------------------------------------- str methods
def _S(I, v):
    return I.ex.to_str_term(v)


class SBytes:
    """s.encode('utf-8') of a symbolic string, kept lazy: len() is utf8len(s);
    iteration unrolls (provably short strings only)."""

    def __init__(self, s):
        self.s = s


@meth("str", "encode")
def _encode(I, recv, args, kw):
    ex = I.ex
    if args and args[0] not in ("utf-8", "utf8"):
        raise Unsupported("encode with non-utf-8 codec")
    errors = args[1] if len(args) > 1 else kw.get("errors", "strict")
    if errors not in ("strict", "surrogatepass"):
        raise Unsupported(f"encode with errors={errors!r}")
    if isinstance(recv, str):
        return Tagged("bytes", list(recv.encode("utf-8", errors)))
    if errors == "strict" and not ex.pure:
        # a Python str may hold lone surrogates (U+D800..U+DFFF), which the strict utf-8 codec refuses
        I.use("str.encode('utf-8') (strict): UnicodeEncodeError for a string that holds a lone surrogate (uninterpreted predicate of the string); 'surrogatepass' never fails")
        P_sur = z3.Function("str_has_lone_surrogate", StrSort, BoolSort)
        if ex.decide(P_sur(ex.to_str_term(recv))):
            ex.raise_builtin("UnicodeEncodeError", "surrogates not allowed")
    return SBytes(recv)


def bytes_unroll(I, b):
    ex = I.ex
    t = b.s.t
    ln = z3.Length(t)
    out = []
    bound = 8
    for i in range(bound):
        if not ex.decide(ln > i):
            return out
        c = t[i]
        if ex.decide(z3.And(c >= 0, c < 128)):
            out.append(SInt(c))
        else:
            x = ex.fresh("utf8byte", "int")
            ex.assume(z3.And(x.t >= 128, x.t <= 255))
            out.append(x)
            out.append(Tagged("more-bytes"))
            I.use("str.encode(): a non-ASCII character encodes to 2..4 bytes, all >= 128")
    if ex.decide(ln > bound):
        raise Unsupported("iteration over str.encode() of a symbolic string longer than 8")
    return out


@meth("str", "join")
def _join(I, recv, args, kw):
    ex = I.ex
    (it,) = args
    if isinstance(recv, SMarkup):
        I.use("Markup.join(xs): escapes every element that is not Markup; the result is Markup")
        return ex.fresh("joined", "markup")
    if isinstance(it, HJoin):
        if recv != "":
            raise Unsupported("join-list with non-empty separator")
        return it.acc
    items = ex.iter_concrete(it)
    if items is None and not is_tagged(it, "gen"):
        sq = ex.as_symbolic_seq(it)
        if sq is not None and sq.elem == "str" and not getattr(sq, "rev", False) and getattr(sq, "inner", None) is None:
            I.use("sep.join(list of str): uninterpreted fold; '' for the empty list, the element itself for a one-element list")
            st = ex.to_str_term(recv)
            r = F_joinlist(st, sq.t)
            key = ("joinlist", st.sexpr(), sq.t.sexpr())
            if key not in ex.facts_seen:
                ex.facts_seen.add(key)
                ex.assume(z3.Implies(z3.Length(sq.t) == 0, z3.Length(r) == 0))
                ex.assume(z3.Implies(z3.Length(sq.t) == 1, r == sq.t[0]))
            return SStr(r)
        if sq is not None and sq.elem == "char" and not getattr(sq, "rev", False) and getattr(sq, "inner", None) is None:
            if recv == "":
                return SStr(sq.t)
            I.use("sep.join(list(s)): uninterpreted function of (sep, s)")
            return SStr(z3.Function("str_join_chars", StrSort, StrSort, StrSort)(ex.to_str_term(recv), sq.t))
    if items is None and is_tagged(it, "gen"):
        _, node, frame, seq = it
        src = ast.unparse(node.elt)
        F = z3.Function(f"join[{src}]", StrSort, seq.t.sort(), StrSort)
        I.use(f"sep.join(<{src}> for x in seq): an uninterpreted fold over the sequence (the element function is the recursive call)")
        return SStr(F(ex.to_str_term(recv), seq.t))
    if items is None:
        raise Unsupported("str.join of symbolic iterable")
    out = None
    for x in items:
        if not isinstance(x, (SStr, str, SMarkup)):
            if isinstance(x, SAny):
                raise Unsupported("join of opaque element")
            ex.raise_builtin("TypeError", "join of non-str")
        if out is None:
            out = x
        else:
            out = I.binop(ast.Add(), I.binop(ast.Add(), out, recv) if recv != "" else out, x)
    return out if out is not None else ""


@meth("str", "startswith")
def _startswith(I, recv, args, kw):
    ex = I.ex
    p = args[0]
    if isinstance(p, tuple):
        return ex.to_bool_value(z3.Or(*[z3.PrefixOf(_S(I, x), _S(I, recv)) for x in p]))
    if len(args) > 1:
        raise Unsupported("startswith with start")
    return ex.to_bool_value(z3.PrefixOf(_S(I, p), _S(I, recv)))


@meth("str", "endswith")
def _endswith(I, recv, args, kw):
    ex = I.ex
    p = args[0]
    if isinstance(p, tuple):
        return ex.to_bool_value(z3.Or(*[z3.SuffixOf(_S(I, x), _S(I, recv)) for x in p]))
    return ex.to_bool_value(z3.SuffixOf(_S(I, p), _S(I, recv)))


@meth("str", "find")
def _find(I, recv, args, kw):
    ex = I.ex
    if len(args) > 1:
        return SInt(z3.IndexOf(_S(I, recv), _S(I, args[0]), ex.to_int_term(args[1])))
    return SInt(z3.IndexOf(_S(I, recv), _S(I, args[0]), z3.IntVal(0)))


@meth("str", "lower")
def _lower(I, recv, args, kw):
    I.use("str.lower (uninterpreted)")
    return SStr(F_lower(_S(I, recv)))


@meth("str", "upper")
def _upper(I, recv, args, kw):
    I.use("str.upper (uninterpreted)")
    return SStr(F_upper(_S(I, recv)))


def _strip_like(fn, name, left, right):
    def h(I, recv, args, kw):
        ex = I.ex
        chars = args[0] if args else None
        t = _S(I, recv)
        if chars is not None:
            if not isinstance(chars, str):
                raise Unsupported(f"str.{name} with symbolic chars")
            f = z3.Function(f"str_{name}[{chars!r}]", StrSort, StrSort)
            allp = z3.Function(f"all_in[{chars!r}]", StrSort, BoolSort)
        else:
            f, allp = fn, P_isspace_all
        I.use(f"str.{name}({'' if chars is None else repr(chars)}): the result is a slice of the input that drops only "
              f"{'whitespace' if chars is None else 'characters of ' + repr(chars)} from the {'left' if left else ''}{' and ' if left and right else ''}{'right' if right else ''} (uninterpreted + axioms)")
        r = f(t)
        key = ("strip", name, chars, t.sexpr())
        if key not in ex.facts_seen:
            ex.facts_seen.add(key)
            a = ex.fresh(f"{name}_lo", "int").t
            b = ex.fresh(f"{name}_hi", "int").t
            ln = z3.Length(t)
            ex.assume(z3.And(0 <= a, a <= b, b <= ln, r == z3.SubSeq(t, a, b - a)))
            if not left:
                ex.assume(a == 0)
            if not right:
                ex.assume(b == ln)
            ex.assume(allp(z3.SubSeq(t, 0, a)))
            ex.assume(allp(z3.SubSeq(t, b, ln - b)))
            if left and right:
                # library fact: strip == rstrip o lstrip
                lf = z3.Function(f"str_lstrip[{chars!r}]", StrSort, StrSort) if chars is not None else F_lstrip
                rf = z3.Function(f"str_rstrip[{chars!r}]", StrSort, StrSort) if chars is not None else F_rstrip
                ex.assume(r == rf(lf(t)))
        return SStr(r)

    return h


P_isspace_all = z3.Function("all_whitespace", StrSort, BoolSort)

meth("str", "strip")(_strip_like(F_strip, "strip", True, True))
meth("str", "lstrip")(_strip_like(F_lstrip, "lstrip", True, False))
meth("str", "rstrip")(_strip_like(F_rstrip, "rstrip", False, True))


@meth("str", "splitlines")
def _splitlines(I, recv, args, kw):
    ex = I.ex
    I.use("str.splitlines(keepends): a list of lines (uninterpreted; with keepends the non-empty lines concatenate to the text)")
    lines = ex.fresh("lines", ("seq", "str"))
    return HList(sym=lines)


@meth("str", "isdigit", "isspace", "isalpha", "isalnum", "isidentifier")
def _ispred(I, recv, args, kw):
    raise Unsupported("str predicate on symbolic string")


@meth("str", "replace")
def _replace(I, recv, args, kw):
    ex = I.ex
    if len(args) == 2:
        I.use("str.replace(a, b): result read as an unconstrained string (replace_all is undecided in both solvers)")
        if ex.pure:
            raise Unsupported("str.replace in a specification")
        return ex.over_approximate("replaced", "str", "str.replace(a, b) read as an unconstrained string")
    raise Unsupported("str.replace with count")


@meth("str", "__len__")
def _strlen(I, recv, args, kw):
    return SInt(z3.Length(_S(I, recv)))


# ------------------------------------------------------------------ list methods
@meth("list", "append")
def _append(I, recv, args, kw):
    ex = I.ex
    (x,) = args
    if isinstance(recv, HJoin):
        if not isinstance(x, (SStr, str)):
            raise Unsupported("join-list append of non-str")
        recv.acc = I.binop(ast.Add(), recv.acc, x) if recv.acc != "" else x
        recv.last = x   # the piece appended last (ghost: specifications may name it)
        return None
    if recv.items is not None:
        recv.items.append(x)
        return None
    t, k = ex.lift(x)
    if k != recv.sym.elem:
        raise Unsupported("append of different element kind")
    recv.sym = SSeq(z3.Concat(recv.sym.t, z3.Unit(t)), recv.sym.elem)
    return None


@meth("list", "extend")
def _extend(I, recv, args, kw):
    ex = I.ex
    items = ex.iter_concrete(args[0])
    if items is None:
        raise Unsupported("extend with symbolic iterable")
    for x in items:
        _append(I, recv, [x], {})


@meth("list", "pop")
def _pop(I, recv, args, kw):
    ex = I.ex
    if recv.items is not None:
        if _conc(I, *args):
            return ex.concrete_op(lambda: recv.items.pop(*args))
        raise Unsupported("pop with symbolic index")
    if args:
        raise Unsupported("pop(i) on symbolic list")
    ln = z3.Length(recv.sym.t)
    ex.require(ln > 0, "IndexError", "pop from empty list")
    v = ex.seq_at(recv.sym, ln - 1)
    recv.sym = SSeq(z3.SubSeq(recv.sym.t, 0, ln - 1), recv.sym.elem)
    return v


@meth("list", "insert")
def _insert(I, recv, args, kw):
    if recv.items is not None and _conc(I, args[0]):
        recv.items.insert(args[0], args[1])
        return None
    raise Unsupported("insert on symbolic list")


@meth("list", "copy")
def _lcopy(I, recv, args, kw):
    return HList(items=list(recv.items) if recv.items is not None else None, sym=recv.sym)


@meth("list", "clear")
def _lclear(I, recv, args, kw):
    recv.items = []
    recv.sym = None


# ------------------------------------------------------------------ dict methods
@meth("dict", "get")
def _dget(I, recv, args, kw):
    default = args[1] if len(args) > 1 else None
    return I.dict_get(recv, args[0], default=default)


@meth("dict", "setdefault")
def _dsetdefault(I, recv, args, kw):
    ex = I.ex
    key = args[0]
    default = args[1] if len(args) > 1 else None
    has = I.dict_has(recv, key)
    if ex.decide(has):
        return I.dict_get(recv, key, raise_missing=True)
    I.dict_set(recv, key, default)
    return default


@meth("dict", "pop")
def _dpop(I, recv, args, kw):
    ex = I.ex
    key = args[0]
    has = I.dict_has(recv, key)
    if ex.decide(has):
        v = I.dict_get(recv, key, raise_missing=True)
        I.dict_del(recv, key)
        return v
    if len(args) > 1:
        return args[1]
    ex.raise_builtin("KeyError", "dict.pop")


@meth("dict", "update")
def _dupdate(I, recv, args, kw):
    src = args[0] if args else None
    if src is not None:
        if isinstance(src, HDict) and src.concrete is not None:
            for k, v in src.concrete.items():
                I.dict_set(recv, k, v)
        elif isinstance(src, HDict) and (recv.concrete is None or not recv.concrete) and recv.order is None:
            u = I.ex.dict_union([recv, src])
            recv.concrete, recv.ksort, recv.vkind, recv.has, recv.val = None, u.ksort, u.vkind, u.has, u.val
        else:
            raise Unsupported("dict.update with symbolic mapping")
    for k, v in kw.items():
        I.dict_set(recv, k, v)


@meth("dict", "items")
def _ditems(I, recv, args, kw):
    if recv.concrete is not None:
        return list(recv.concrete.items())
    # a view over a symbolic dict: consumed by islice(.., 1) / next / list (the first (key, value) pair, if any)
    return Tagged("dictitems", recv)


@meth("dict", "keys")
def _dkeys(I, recv, args, kw):
    if recv.concrete is not None:
        return list(recv.concrete.keys())
    raise Unsupported("keys() of symbolic dict")


@meth("dict", "values")
def _dvalues(I, recv, args, kw):
    if recv.concrete is not None:
        return list(recv.concrete.values())
    if recv.order is None:
        return Tagged("dictvalues", recv)
    raise Unsupported("values() of symbolic dict")


@meth("dict", "copy")
def _dcopy(I, recv, args, kw):
    return HDict(concrete=dict(recv.concrete) if recv.concrete is not None else None, ksort=recv.ksort,
                 vkind=recv.vkind, has=recv.has, val=recv.val, order=recv.order)


# ------------------------------------------------------- OrderedDict (LRU cache)
# Ordered view: `order` = Seq(K), oldest first, no duplicates; has/val arrays.
@ext(collections.OrderedDict)
def _odict(I, args, kw):
    if args or kw:
        raise Unsupported("OrderedDict(initial)")
    ks, vs = ELEM_SORT["str"], ELEM_SORT["any"]
    I.use("OrderedDict(): empty ordered mapping (keys typed str, values opaque)")
    return HDict(ksort="str", vkind="any", has=z3.K(ks, z3.BoolVal(False)), val=z3.K(ks, z3.Const("nil!obj", vs)), order=z3.Empty(z3.SeqSort(ks)))


@meth("dict", "move_to_end")
def _move_to_end(I, recv, args, kw):
    ex = I.ex
    key = args[0]
    last = kw.get("last", args[1] if len(args) > 1 else True)
    if last is not True:
        raise Unsupported("move_to_end(last=False)")
    if recv.order is None:
        raise Unsupported("move_to_end on unordered dict")
    kt, _ = ex.lift(key)
    ex.require(z3.Select(recv.has, kt), "KeyError", "move_to_end of missing key")
    I.use("OrderedDict.move_to_end(k): k removed from its position and appended (keys unique)")
    i = z3.IndexOf(recv.order, z3.Unit(kt), z3.IntVal(0))
    ln = z3.Length(recv.order)
    # invariant of the representation: has[k] <=> k occurs in order, exactly once
    ex.assume(z3.And(i >= 0, i < ln))
    recv.order = z3.Concat(z3.SubSeq(recv.order, 0, i), z3.SubSeq(recv.order, i + 1, ln - i - 1), z3.Unit(kt))
    return None


@meth("dict", "popitem")
def _popitem(I, recv, args, kw):
    ex = I.ex
    last = kw.get("last", args[0] if args else True)
    if recv.order is None:
        raise Unsupported("popitem on unordered dict")
    ln = z3.Length(recv.order)
    ex.require(ln > 0, "KeyError", "popitem from empty dict")
    I.use("OrderedDict.popitem(last): removes the last / first key of the order")
    if last is False:
        k = recv.order[0]
        recv.order = z3.SubSeq(recv.order, 1, ln - 1)
    else:
        k = recv.order[ln - 1]
        recv.order = z3.SubSeq(recv.order, 0, ln - 1)
    v = z3.Select(recv.val, k)
    recv.has = z3.Store(recv.has, k, z3.BoolVal(False))
    return (wrap(k, recv.ksort), wrap(v, recv.vkind))


# ------------------------------------------------------------------ io.StringIO
def _sio(name):
    return ("_io.StringIO", name)


def _stringio_init(I, recv, args, kw):
    ex = I.ex
    initial = args[0] if len(args) > 0 else kw.get("initial_value", "")
    newline = args[1] if len(args) > 1 else kw.get("newline", "\n")
    if initial is None:
        initial = ""
    I.use("io.StringIO(initial, newline): universal-newline translation on write unless newline in ('', '\\n')")
    recv.fields["_buf"] = initial
    recv.fields["_newline"] = newline
    return None


def _stringio_write(I, recv, args, kw):
    ex = I.ex
    (s,) = args
    if not isinstance(s, (SStr, str, SMarkup)):
        ex.raise_builtin("TypeError", "StringIO.write of non-str")
    nl = I.getattr(recv, "_newline", None) if "_newline" in recv.fields else "\n"
    if nl is None or (isinstance(nl, str) and nl not in ("", "\n")):
        I.use("io.StringIO.write with newline=None|'\\r'|'\\r\\n': stores nl_translate(s) (uninterpreted)")
        stored = SStr(F_nl_translate(ex.to_str_term(s)))
    elif isinstance(nl, str):
        stored = s
    else:
        raise Unsupported("StringIO newline symbolic")
    cur = I.getattr(recv, "_buf", None) if "_buf" in recv.fields else ""
    recv.fields["_buf"] = I.binop(ast.Add(), cur, stored) if cur != "" else stored
    return _len(I, [s], {})


def _stringio_getvalue(I, recv, args, kw):
    return recv.fields.get("_buf", "")


for _base in ("io.StringIO", "_io.StringIO", "StringIO"):
    meth(_base, "__init__")(_stringio_init)
    meth(_base, "write")(_stringio_write)
    meth(_base, "getvalue")(_stringio_getvalue)


@ext(io.StringIO)
def _stringio_new(I, args, kw):
    o = HObj(ClassRef("StringIO", pyobj=io.StringIO), {})
    _stringio_init(I, o, args, kw)
    return o


# ----------------------------------------------------------------- tuples, bytes
@meth("tuple", "index", "count")
def _tindex(I, recv, args, kw):
    raise Unsupported("tuple.index/count")


# ------------------------------------------------------------- deque / defaultdict
@ext(collections.deque)
def _deque(I, args, kw):
    ex = I.ex
    if not args:
        return HList(items=[])
    items = ex.iter_concrete(args[0])
    if items is None:
        seq = ex.as_symbolic_seq(args[0])
        if seq is None:
            raise Unsupported("deque() of symbolic iterable")
        return HList(sym=SSeq(seq.t, seq.elem))
    return HList(items=list(items))


@meth("list", "appendleft")
def _appendleft(I, recv, args, kw):
    ex = I.ex
    (x,) = args
    if recv.items is not None:
        recv.items.insert(0, x)
        return None
    t, k = ex.lift(x)
    if k != recv.sym.elem:
        raise Unsupported("appendleft of different element kind")
    recv.sym = SSeq(z3.Concat(z3.Unit(t), recv.sym.t), recv.sym.elem)
    return None


@meth("list", "popleft")
def _popleft(I, recv, args, kw):
    ex = I.ex
    if recv.items is not None:
        if not recv.items:
            ex.raise_builtin("IndexError", "pop from an empty deque")
        return recv.items.pop(0)
    ln = z3.Length(recv.sym.t)
    ex.require(ln > 0, "IndexError", "pop from an empty deque")
    v = ex.seq_at(recv.sym, z3.IntVal(0))
    recv.sym = SSeq(z3.SubSeq(recv.sym.t, 1, ln - 1), recv.sym.elem)
    return v


@ext(collections.defaultdict)
def _defaultdict(I, args, kw):
    d = HDict(concrete={})
    d.default_factory = args[0] if args else None
    return d


# ------------------------------------------------------------------ pathlib (lexical model)
# A path is abstracted to the lexical facts C13 is about.  Assumed contract of pathlib
# (DESIGN 8): for a relative path t without '..' parts, root.joinpath(t) is lexically
# inside root; joining an absolute t discards root; with_suffix keeps both facts and
# needs a non-empty name.
import os as _os
import pathlib as _pathlib

P_abs = z3.Function("path_is_absolute", StrSort, BoolSort)
P_pardir = z3.Function("path_has_pardir_part", StrSort, BoolSort)
P_noname = z3.Function("path_name_is_empty", StrSort, BoolSort)
P_suffix = z3.Function("path_has_suffix", StrSort, BoolSort)


class SPath:
    def __init__(self, abs_, pardir, noname, suffix, inside=None, root=None, text=None):
        self.abs, self.pardir, self.noname, self.suffix = abs_, pardir, noname, suffix
        self.inside = inside  # z3 Bool: lexically inside `root` (None: not a joined path)
        self.root = root
        self.text = text


@ext(_pathlib.Path)
def _path_new(I, args, kw):
    ex = I.ex
    (s,) = args
    if isinstance(s, SPath):
        return s
    t = ex.to_str_term(s)
    I.use("pathlib.Path(s): lexical facts is_absolute / has '..' part / empty name / has suffix are uninterpreted predicates of s")
    return SPath(P_abs(t), P_pardir(t), P_noname(t), P_suffix(t), text=t)


def path_getattr(I, p: SPath, attr):
    ex = I.ex
    if attr == "suffix":
        s = ex.fresh("suffix", "str")
        ex.assume((z3.Length(s.t) > 0) == p.suffix)
        return s
    if attr == "parts":
        return Tagged("pathparts", p)
    if attr == "name":
        s = ex.fresh("pathname", "str")
        ex.assume((z3.Length(s.t) == 0) == p.noname)
        return s
    if attr in ("with_suffix", "joinpath", "exists", "is_file", "is_absolute", "is_dir", "open", "read_text", "stat", "__str__", "expanduser", "resolve", "absolute"):
        return BoundIntrinsic(p, "path", attr)
    raise Unsupported(f"Path.{attr}")


@meth("path", "with_suffix")
def _with_suffix(I, recv, args, kw):
    ex = I.ex
    (ext_,) = args
    I.use("Path.with_suffix(ext): ValueError when the path has an empty name; keeps is_absolute and '..' parts")
    ex.require(z3.Not(recv.noname), "ValueError", "Path.with_suffix on an empty name")
    has = ex.truth(ext_)
    has = z3.BoolVal(has) if isinstance(has, bool) else has
    return SPath(recv.abs, recv.pardir, z3.BoolVal(False), has)


@meth("path", "joinpath")
def _joinpath(I, recv, args, kw):
    ex = I.ex
    (t,) = args
    if not isinstance(t, SPath):
        t = _path_new(I, [t], {})
    I.use("root.joinpath(t) is lexically inside root iff t is relative and has no '..' part (no symlinks below roots)")
    return SPath(z3.Or(recv.abs, t.abs), z3.Or(recv.pardir, t.pardir), t.noname, t.suffix,
                 inside=z3.And(z3.Not(t.abs), z3.Not(t.pardir)), root=recv)


@meth("path", "is_absolute")
def _is_absolute(I, recv, args, kw):
    return I.ex.to_bool_value(recv.abs)


@meth("path", "exists")
def _exists(I, recv, args, kw):
    ex = I.ex
    b = ex.fresh("exists", "bool")
    recv.exists = b.t
    if not hasattr(recv, "isfile"):
        recv.isfile = ex.fresh("is_file", "bool").t
        ex.assume(z3.Implies(recv.isfile, b.t))
    return b


@meth("path", "is_file")
def _is_file(I, recv, args, kw):
    ex = I.ex
    if not ex.pure:
        # is_file() swallows "no such file" but not every OSError: a component longer than the file system allows (ENAMETOOLONG)
        # or an embedded problem of the mount raises
        I.use("Path.is_file(): True/False, or OSError for a name the file system cannot look up (e.g. ENAMETOOLONG)")
        if ex.decide(ex.fresh("is_file_oserror", "bool").t):
            ex.raise_builtin("OSError", "File name too long")
    if not hasattr(recv, "isfile"):
        recv.isfile = ex.fresh("is_file", "bool").t
    return SBool(recv.isfile)




@meth("path", "stat")
def _stat(I, recv, args, kw):
    I.use("Path.stat().st_mtime: the file's current modification time (an opaque real); FileNotFoundError (an OSError) when the file is gone")
    ex = I.ex
    if not ex.pure and ex.decide(ex.sym("stat_file_missing", "bool").t):
        ex.raise_builtin("FileNotFoundError", "stat() of a missing file")
    return HObj(ClassRef("stat_result"), {"st_mtime": SReal(z3.Real("stat.st_mtime"))})


# ------------------------------------------------------------------ markupsafe (assumed contract)
import markupsafe as _markupsafe

F_esc = z3.Function("html_escape", StrSort, StrSort)


@ext(_markupsafe.escape)
def _ms_escape(I, args, kw):
    ex = I.ex
    (v,) = args
    I.use("markupsafe.escape(v): v itself when it is Markup / has __html__, else Markup(html_escape(str(v))) - no unescaped < > & ' \" in the result")
    if isinstance(v, SMarkup):
        return v
    if isinstance(v, (SStr, str)):
        return SMarkup(F_esc(ex.to_str_term(v)))
    if isinstance(v, SAny):
        return ex.fresh("escaped", "markup")
    s = I.str_(v)
    return SMarkup(F_esc(ex.to_str_term(s)))


@ext(_markupsafe.Markup)
def _ms_markup(I, args, kw):
    ex = I.ex
    if not args:
        return SMarkup(z3.Empty(StrSort))
    v = args[0]
    if isinstance(v, SMarkup):
        return v
    if isinstance(v, (SStr, str)):
        ex.trace_event("markup", v)
        return SMarkup(ex.to_str_term(v))
    raise Unsupported(f"Markup({v!r})")


@meth("str", "unescape")
def _ms_unescape(I, recv, args, kw):
    I.use("Markup.unescape(): a plain str")
    return I.ex.fresh("unescaped", "str")


@meth("listview", "append")
def _lv_append(I, recv, args, kw):
    ex = I.ex
    (x,) = args
    t, k = ex.lift(x)
    if k != "any":
        raise Unsupported("append of a non-object to a list of objects")
    d = recv.d
    d.val = z3.Store(d.val, recv.kt, z3.Concat(z3.Select(d.val, recv.kt), z3.Unit(t)))
    return None


# ------------------------------------------------------------------ string library used by the string filters (C19)
# Uninterpreted library functions: two calls with equal arguments give equal results, nothing else is known unless an axiom is
# stated here. A contract `result == val.upper()` therefore pins *which* library function of *which* arguments is returned.
import html as _html
import urllib.parse as _urlparse

F_capitalize = z3.Function("str_capitalize", StrSort, StrSort)
F_replace_all = z3.Function("str_replace_all", StrSort, StrSort, StrSort, StrSort)
F_words = z3.Function("str_split_whitespace", StrSort, z3.SeqSort(StrSort))
F_split = z3.Function("str_split", StrSort, StrSort, z3.SeqSort(StrSort))
F_joinlist = z3.Function("str_join", StrSort, z3.SeqSort(StrSort), StrSort)
F_quote_plus = z3.Function("urllib_quote_plus", StrSort, StrSort)
F_unquote_plus = z3.Function("urllib_unquote_plus", StrSort, StrSort)
F_html_unescape = z3.Function("html_unescape", StrSort, StrSort)


@meth("str", "capitalize")
def _capitalize(I, recv, args, kw):
    I.use("str.capitalize (uninterpreted)")
    return SStr(F_capitalize(_S(I, recv)))


def _replace_lib(I, recv, args, kw):
    ex = I.ex
    if len(args) == 2:
        I.use("str.replace(a, b): an uninterpreted function of (s, a, b) (replace_all is undecided in both solvers)")
        return SStr(F_replace_all(_S(I, recv), _S(I, args[0]), _S(I, args[1])))
    if len(args) == 3 and args[2] == 1 and not isinstance(args[2], bool):
        I.use("str.replace(a, b, 1): the first occurrence replaced (SMT-LIB str.replace; an empty a inserts b in front)")
        return SStr(z3.Replace(_S(I, recv), _S(I, args[0]), _S(I, args[1])))
    raise Unsupported("str.replace with a count other than 1")


meth("str", "replace")(_replace_lib)


@meth("str", "split")
def _split(I, recv, args, kw):
    ex = I.ex
    if kw or len(args) > 1:
        raise Unsupported("str.split with maxsplit")
    t = _S(I, recv)
    if not args or args[0] is None:
        I.use("str.split(): the whitespace-separated words (uninterpreted sequence; every word is non-empty)")
        r = F_words(t)
        key = ("words", t.sexpr())
        if key not in ex.facts_seen:
            ex.facts_seen.add(key)
            ex.assume(z3.Implies(z3.Length(t) == 0, z3.Length(r) == 0))
        return HList(sym=SSeq(r, "str"))
    sep = args[0]
    if not isinstance(sep, (SStr, str)):
        ex.raise_builtin("TypeError", "must be str or None")
    st = _S(I, sep)
    if ex.decide(z3.Length(st) == 0):
        ex.raise_builtin("ValueError", "empty separator")
    I.use("str.split(sep): uninterpreted sequence of at least one piece; sep.join(s.split(sep)) == s (library fact)")
    r = F_split(t, st)
    key = ("split", t.sexpr(), st.sexpr())
    if key not in ex.facts_seen:
        ex.facts_seen.add(key)
        ex.assume(z3.Length(r) >= 1)
        ex.assume(F_joinlist(st, r) == t)
    return HList(sym=SSeq(r, "str"))


@meth("str", "rpartition")
def _rpartition(I, recv, args, kw):
    ex = I.ex
    (sep,) = args
    t, st = _S(I, recv), _S(I, sep)
    if ex.decide(z3.Length(st) == 0):
        ex.raise_builtin("ValueError", "empty separator")
    I.use("str.rpartition(sep): split at the last occurrence of sep (SMT-LIB str.last_indexof); ('', '', s) when absent")
    i = z3.LastIndexOf(t, st)
    if ex.decide(i < 0):
        return ("", "", recv)
    return (SStr(z3.SubSeq(t, 0, i)), sep, SStr(z3.SubSeq(t, i + z3.Length(st), z3.Length(t) - i - z3.Length(st))))


@ext(_urlparse.quote_plus)
def _quote_plus(I, args, kw):
    if len(args) != 1 or kw:
        raise Unsupported("quote_plus with options")
    I.use("urllib.parse.quote_plus (uninterpreted); unquote_plus(quote_plus(s)) == s (library fact)")
    ex = I.ex
    t = _S(I, args[0])
    r = F_quote_plus(t)
    key = ("quote_plus", t.sexpr())
    if key not in ex.facts_seen:
        ex.facts_seen.add(key)
        ex.assume(F_unquote_plus(r) == t)
    return SStr(r)


@ext(_urlparse.unquote_plus)
def _unquote_plus(I, args, kw):
    if len(args) != 1 or kw:
        raise Unsupported("unquote_plus with options")
    I.use("urllib.parse.unquote_plus (uninterpreted)")
    return SStr(F_unquote_plus(_S(I, args[0])))


@ext(_html.escape)
def _html_escape(I, args, kw):
    if len(args) != 1 or kw:
        raise Unsupported("html.escape with quote=")
    I.use("html.escape (uninterpreted; the same function markupsafe.escape applies to plain text); html.unescape(html.escape(s)) == s (library fact)")
    ex = I.ex
    t = _S(I, args[0])
    r = F_esc(t)
    key = ("html_escape", t.sexpr())
    if key not in ex.facts_seen:
        ex.facts_seen.add(key)
        ex.assume(F_html_unescape(r) == t)
    return SStr(r)


@ext(_html.unescape)
def _html_unescape(I, args, kw):
    I.use("html.unescape (uninterpreted)")
    return SStr(F_html_unescape(_S(I, args[0])))


@meth("str", "rfind")
def _rfind(I, recv, args, kw):
    if len(args) != 1:
        raise Unsupported("str.rfind with bounds")
    I.use("str.rfind(sub): SMT-LIB str.last_indexof")
    return SInt(z3.LastIndexOf(_S(I, recv), _S(I, args[0])))


@ext(_urlparse.quote, _urlparse.unquote)
def _quote_other(I, args, kw):
    if len(args) != 1 or kw:
        raise Unsupported("urllib quote/unquote with options")
    I.use("urllib.parse.quote / unquote (uninterpreted, distinct from the *_plus functions)")
    return SStr(z3.Function("urllib_quote_or_unquote", StrSort, StrSort)(_S(I, args[0])))


@ext(divmod)
def _divmod(I, args, kw):
    a, b = args
    # (a // b, a % b) with the operators' own models (ZeroDivisionError included)
    return (I.binop(ast.FloorDiv(), a, b), I.binop(ast.Mod(), a, b))


# ------------------------------------------------------------------ json (C20)
import json as _json

BOX_REAL = z3.Function("box_real", z3.RealSort(), ObjSort)
BOX_BOOL = z3.Function("box_bool", BoolSort, ObjSort)
F_json_dumps = z3.Function("json_dumps", ObjSort, z3.IntSort(), StrSort)
F_json_loads = z3.Function("json_loads", StrSort, ObjSort)


def json_value(I, v):
    """Obj-sorted denotation of a JSON-like value (numbers, strings, booleans, nil boxed; containers and opaque values as objects)."""
    from .engine import BOX_INT, BOX_STR
    ex = I.ex
    if isinstance(v, bool):
        return BOX_BOOL(z3.BoolVal(v))
    if isinstance(v, SBool):
        return BOX_BOOL(v.t)
    if isinstance(v, SReal):
        return BOX_REAL(v.t)
    if isinstance(v, float):
        return BOX_REAL(z3.RealVal(v))
    return ex.box(v)


@ext(_json.dumps)
def _json_dumps(I, args, kw):
    ex = I.ex
    (v,) = args
    extra = set(kw) - {"default", "indent"}
    if extra:
        raise Unsupported(f"json.dumps with {sorted(extra)}")
    ind = kw.get("indent")
    it = z3.IntVal(-1) if ind is None else ex.to_int_term(ind)
    I.use("json.dumps(v, indent=..): uninterpreted text; json.loads(json.dumps(v)) == v for JSON-like v (library fact); TypeError for a value the encoder (and `default`) cannot serialise")
    if isinstance(v, SAny) or isinstance(v, (HObj, HList, HDict)):
        if ex.decide(ex.fresh("json_unserialisable", "bool").t):
            ex.raise_builtin("TypeError", "Object is not JSON serializable")
    t = json_value(I, v)
    r = F_json_dumps(t, it)
    key = ("json_dumps", t.sexpr(), it.sexpr())
    if key not in ex.facts_seen:
        ex.facts_seen.add(key)
        ex.assume(F_json_loads(r) == t)
    return SStr(r)


# ------------------------------------------------------------------ character classes and hex formatting (string serialiser, C12/C20)
P_printable = z3.Function("char_isprintable", z3.IntSort(), BoolSort)
F_hex04 = z3.Function("format_04x", z3.IntSort(), StrSort)


def _isprintable(I, recv, args, kw):
    ex = I.ex
    if isinstance(recv, str):
        return recv.isprintable()
    t = _S(I, recv)
    if not ex.prove_now(z3.Length(t) == 1):
        raise Unsupported("str.isprintable of a string not known to be one character")
    c = t[0]
    I.use("str.isprintable() of one character: uninterpreted predicate of the code point; a printable character is not a control "
          "character (code >= 32, != 127) and not a surrogate (Unicode categories Cc, Cs are not printable)")
    ex.assume(z3.Implies(P_printable(c), z3.And(c >= 32, c != 127, z3.Not(z3.And(c >= 0xD800, c <= 0xDFFF)))))
    return SBool(P_printable(c))


meth("str", "isprintable")(_isprintable)


def hex04(I, v):
    """format(n, '04x'): for 0 <= n <= 0xFFFF exactly four lowercase hex digits whose value is n (library fact); longer otherwise."""
    ex = I.ex
    n = ex.to_int_term(v)
    r = F_hex04(n)
    key = ("hex04", n.sexpr())
    if key not in ex.facts_seen:
        ex.facts_seen.add(key)
        dig = lambda ch: z3.If(z3.And(ch >= 48, ch <= 57), ch - 48, ch - 87)  # noqa: E731
        ishex = lambda ch: z3.Or(z3.And(ch >= 48, ch <= 57), z3.And(ch >= 97, ch <= 102))  # noqa: E731
        ex.assume(z3.Implies(z3.And(n >= 0, n <= 0xFFFF), z3.And(
            z3.Length(r) == 4, ishex(r[0]), ishex(r[1]), ishex(r[2]), ishex(r[3]),
            dig(r[0]) * 4096 + dig(r[1]) * 256 + dig(r[2]) * 16 + dig(r[3]) == n)))
        ex.assume(z3.Length(r) >= 4)
    I.use("format(n, '04x'): four lowercase hex digits denoting n when 0 <= n <= 0xFFFF (library fact)")
    return SStr(r)



@meth("path", "expanduser", "resolve", "absolute")
def _path_relocate(I, recv, args, kw):
    """expanduser() / resolve() / absolute(): the result is some other path - a leading `~` component becomes a home directory,
    symlinks and `..` are followed - whose relation to the root it was joined to is lost in the lexical model."""
    ex = I.ex
    I.use("Path.expanduser()/resolve()/absolute(): a path that need not lie inside the directory the original was joined to (lexical model: unconstrained)")
    return SPath(ex.fresh("reloc_abs", "bool").t, ex.fresh("reloc_pardir", "bool").t, recv.noname, recv.suffix,
                 inside=ex.fresh("reloc_inside", "bool").t, root=getattr(recv, "root", None))
