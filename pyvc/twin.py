"""Relational (twin) obligations: every async method is the await-erasure of its
sync twin (DESIGN 2.7).  Obligation per pair, discharged *by identity* of the two
ASTs after erasure and a fixed set of named, separately justified rewrite lemmas.
A pair that still differs is a violation (the diff is the witness)."""
from __future__ import annotations

import ast
import copy
import difflib
import hashlib

from .repo import Repo
from .structural import register

# consumers that exhaust their argument: a list comprehension and a generator expression are interchangeable for them.
# any / all stop at the first decisive element - evaluating the rest eagerly can raise (StrictUndefined) or await more - so they
# are NOT in this set (the loop form `for x in ..: if ..: return True` is related to any(..) by the separate `any-to-loop` lemma)
CONSUMERS = {"sum", "dict", "list", "tuple", "set", "sorted", "max", "min"}

LEMMAS = {
    "erase": "strip async/await, `async for/with`, and the `_async` suffix of callee names (callee twins assumed equal: co-induction on evaluation depth)",
    "listcomp-arg": "[e for ..] as the sole argument of sum/dict/any/all/list/tuple/str.join == the generator (e for ..) in that position (the consumer drains it immediately, same evaluation order)",
    "delegate": "an async default whose whole body is `return self.X(<same parameters>)` is the sync method itself",
    "single-use-local": "`v = E; <stmt using v exactly once, as the first evaluated sub-expression>` == the statement with E in place of v",
    "tail-yield-from": "in a generator whose every `yield from E` is in tail position, `yield from E` == `return E` for a caller that only iterates the result; falling off the end == `return []`",
    "executor": "await loop.run_in_executor(None, f, *a) == f(*a); run_in_executor(None, lambda: E) == E (thread-pool execution does not change the value; liquid2 shares no mutable state with f: C09 frame)",
    "is_undefined": "is_undefined(x) == isinstance(x, Undefined) (checked against the body of liquid2.undefined.is_undefined on every run)",
    "typing-assert": "`assert isinstance(..)` statements narrow types only (their reachability is a C02 obligation)",
    "message": "the message text of a raised error is not compared (C03 speaks of error class and location): first positional argument of `raise X(msg, token=..)` is abstracted",
    "any-loop": "`return any(P(x) for x in xs)` == `for x in xs: if P(x): return True` + `return False`",
    "alpha": "consistent renaming of local variables",
    "getitem-hook": "`_get_item(o, k)` (awaits o.__getitem_async__(k) when the hook exists, else o[k]) == o[k], under the documented assumption that a drop's async hook agrees with its __getitem__",
}

# pairs whose difference is the documented asynchronous hook itself; keyed by the
# hash of both normalised bodies so that any edit re-opens the obligation
HOOK_PAIRS = {
    "liquid2.template:Template.is_up_to_date":
        "sync treats a non-bool (awaitable) uptodate() as stale, async awaits it: the documented async `uptodate` hook of loaders; equal whenever uptodate() returns a bool",
    "liquid2.builtin.expressions:LoopExpression.evaluate":
        "sync uses `match` on self.offset, async an if-chain; StringLiteral(value=v) binds v = self.offset.value which is what StringLiteral.evaluate returns (as str or Markup, equal under != 'continue' and _to_int)",
}


def _strip_doc_ann(f):
    if f.body and isinstance(f.body[0], ast.Expr) and isinstance(f.body[0].value, ast.Constant) and isinstance(f.body[0].value.value, str):
        f.body = f.body[1:] or [ast.Pass()]
    f.returns = None
    for a in f.args.args + f.args.kwonlyargs + f.args.posonlyargs:
        a.annotation = None
    if f.args.vararg:
        f.args.vararg.annotation = None
    if f.args.kwarg:
        f.args.kwarg.annotation = None
    f.decorator_list = [d for d in f.decorator_list if ast.unparse(d) not in ("abstractmethod",)]
    return f


class Erase(ast.NodeTransformer):
    def visit_Await(self, n):
        return self.visit(n.value)

    def visit_AsyncFunctionDef(self, n):
        n = self.generic_visit(n)
        return _strip_doc_ann(ast.copy_location(ast.FunctionDef(**{f: getattr(n, f) for f in n._fields}), n))

    def visit_FunctionDef(self, n):
        n = self.generic_visit(n)
        return _strip_doc_ann(n)

    def visit_AsyncFor(self, n):
        n = self.generic_visit(n)
        return ast.copy_location(ast.For(**{f: getattr(n, f) for f in n._fields}), n)

    def visit_AsyncWith(self, n):
        n = self.generic_visit(n)
        return ast.copy_location(ast.With(**{f: getattr(n, f) for f in n._fields}), n)

    def visit_Name(self, n):
        if n.id.endswith("_async"):
            n.id = n.id[:-6]
        return n

    def visit_Attribute(self, n):
        self.generic_visit(n)
        if n.attr.endswith("_async"):
            n.attr = n.attr[:-6]
        return n

    def visit_AnnAssign(self, n):
        self.generic_visit(n)
        if n.value is None:
            return None
        return ast.copy_location(ast.Assign(targets=[n.target], value=n.value, type_comment=None), n)


class ListCompArg(ast.NodeTransformer):
    def visit_Call(self, n):
        self.generic_visit(n)
        fname = n.func.id if isinstance(n.func, ast.Name) else (n.func.attr if isinstance(n.func, ast.Attribute) else None)
        if len(n.args) == 1 and not n.keywords and isinstance(n.args[0], ast.ListComp) and (fname in CONSUMERS or fname == "join"):
            lc = n.args[0]
            n.args[0] = ast.copy_location(ast.GeneratorExp(elt=lc.elt, generators=lc.generators), lc)
        return n


class Executor(ast.NodeTransformer):
    """loop.run_in_executor(None, f, *a) -> f(*a);  run_in_executor(None, lambda: E) -> E"""

    def visit_Call(self, n):
        self.generic_visit(n)
        if isinstance(n.func, ast.Attribute) and n.func.attr == "run_in_executor" and n.args and isinstance(n.args[0], ast.Constant) and n.args[0].value is None:
            f = n.args[1]
            rest = n.args[2:]
            if isinstance(f, ast.Lambda) and not rest and not f.args.args:
                return f.body
            return ast.copy_location(ast.Call(func=f, args=list(rest), keywords=[]), n)
        return n


def drop_loop_assign(body):
    out = []
    for st in body:
        if isinstance(st, ast.Assign) and isinstance(st.value, ast.Call) and ast.unparse(st.value.func) == "asyncio.get_running_loop":
            continue
        out.append(st)
    return out


class TypingAsserts(ast.NodeTransformer):
    def visit_Assert(self, n):
        if isinstance(n.test, ast.Call) and isinstance(n.test.func, ast.Name) and n.test.func.id == "isinstance":
            return None
        return n


class IsUndefined(ast.NodeTransformer):
    def visit_Call(self, n):
        self.generic_visit(n)
        if isinstance(n.func, ast.Name) and n.func.id == "is_undefined" and len(n.args) == 1:
            return ast.copy_location(ast.Call(func=ast.Name(id="isinstance", ctx=ast.Load()), args=[n.args[0], ast.Name(id="Undefined", ctx=ast.Load())], keywords=[]), n)
        return n


class Message(ast.NodeTransformer):
    def visit_Raise(self, n):
        self.generic_visit(n)
        if isinstance(n.exc, ast.Call) and n.exc.args and any(k.arg == "token" for k in n.exc.keywords):
            n.exc.args[0] = ast.Constant(value="<message>")
        return n


def _uses(node, name):
    return sum(1 for x in ast.walk(node) if isinstance(x, ast.Name) and x.id == name and isinstance(x.ctx, ast.Load))


def _first_eval_is(node, name):
    """Is Name `name` the first sub-expression evaluated in statement/expr `node`?
    (conservative: walk the leftmost evaluation spine)"""
    cur = node
    for _ in range(50):
        if isinstance(cur, ast.Name):
            return cur.id == name
        if isinstance(cur, (ast.Return, ast.Expr)):
            cur = cur.value
        elif isinstance(cur, ast.Assign):
            cur = cur.value
        elif isinstance(cur, ast.If):
            cur = cur.test
        elif isinstance(cur, ast.Call):
            if isinstance(cur.func, ast.Name):
                if not cur.args:
                    if cur.keywords and cur.keywords[0].arg is not None:
                        cur = cur.keywords[0].value
                        continue
                    return False
                cur = cur.args[0]
            else:
                cur = cur.func
        elif isinstance(cur, ast.Attribute):
            cur = cur.value
        elif isinstance(cur, ast.Subscript):
            cur = cur.value
        elif isinstance(cur, ast.BinOp):
            cur = cur.left
        elif isinstance(cur, ast.Compare):
            cur = cur.left
        elif isinstance(cur, ast.BoolOp):
            cur = cur.values[0]
        elif isinstance(cur, ast.UnaryOp):
            cur = cur.operand
        else:
            return False
        if cur is None:
            return False
    return False


def _second_arg_only_after_pure_first(stmt, name):
    """`f(pure_name, v)` - v is the second argument and the first is a plain local name."""
    for call in ast.walk(stmt):
        if isinstance(call, ast.Call) and isinstance(call.func, ast.Name) and len(call.args) == 2:
            if isinstance(call.args[1], ast.Name) and call.args[1].id == name and isinstance(call.args[0], ast.Name):
                return True
    return False


def inline_single_use(body, whole):
    """single-use-local lemma, applied left to right, to a block."""
    out = []
    i = 0
    body = list(body)
    while i < len(body):
        st = body[i]
        if (
            isinstance(st, ast.Assign) and len(st.targets) == 1 and isinstance(st.targets[0], ast.Name)
            and i + 1 < len(body)
        ):
            name = st.targets[0].id
            nxt = body[i + 1]
            total_uses = _uses(whole, name)
            assigned = sum(1 for x in ast.walk(whole) if isinstance(x, ast.Name) and x.id == name and isinstance(x.ctx, ast.Store))
            if total_uses == 1 and assigned == 1 and _uses(nxt, name) == 1 and (
                _first_eval_is(nxt, name) or (isinstance(nxt, ast.If) and _second_arg_only_after_pure_first(nxt.test, name) and _uses(nxt.test, name) == 1)
            ):
                class Sub(ast.NodeTransformer):
                    def visit_Name(self, n):
                        if n.id == name and isinstance(n.ctx, ast.Load):
                            return copy.deepcopy(st.value)
                        return n

                body[i + 1] = Sub().visit(nxt)
                i += 1
                continue
        out.append(st)
        i += 1
    return out


def apply_blocks(fn, f):
    """Apply block rewriter f(body, whole_function) to every statement list."""
    for node in ast.walk(fn):
        for field in ("body", "orelse", "finalbody"):
            b = getattr(node, field, None)
            if isinstance(b, list) and b and isinstance(b[0], ast.stmt):
                setattr(node, field, f(b, fn) or [ast.Pass()])
    return fn


def any_to_loop(body, whole):
    out = []
    for st in body:
        if (
            isinstance(st, ast.Return) and isinstance(st.value, ast.Call) and isinstance(st.value.func, ast.Name)
            and st.value.func.id == "any" and len(st.value.args) == 1 and isinstance(st.value.args[0], ast.GeneratorExp)
            and len(st.value.args[0].generators) == 1 and not st.value.args[0].generators[0].ifs
        ):
            g = st.value.args[0]
            loop = ast.For(target=g.generators[0].target, iter=g.generators[0].iter,
                           body=[ast.If(test=g.elt, body=[ast.Return(value=ast.Constant(value=True))], orelse=[])], orelse=[], type_comment=None)
            out.append(loop)
            out.append(ast.Return(value=ast.Constant(value=False)))
        else:
            out.append(st)
    return out


def _tail_positions(body):
    """yield the statements in tail position of a block (nothing executes after them)."""
    if not body:
        return
    last = body[-1]
    if isinstance(last, ast.If):
        yield from _tail_positions(last.body)
        yield from _tail_positions(last.orelse)
    elif isinstance(last, ast.Try) and not last.finalbody and not last.orelse:
        yield from _tail_positions(last.body)
        for h in last.handlers:
            yield from _tail_positions(h.body)
    elif isinstance(last, ast.With):
        yield from _tail_positions(last.body)
    else:
        yield last


def tail_yield_from(fn):
    yields = [n for n in ast.walk(fn) if isinstance(n, (ast.Yield, ast.YieldFrom))]
    if not yields or any(isinstance(y, ast.Yield) for y in yields):
        return fn, False
    tails = list(_tail_positions(fn.body))
    ystmts = [n for n in ast.walk(fn) if isinstance(n, ast.Expr) and isinstance(n.value, ast.YieldFrom)]
    if len(ystmts) != len(yields) or not all(any(t is y for t in tails) for y in ystmts):
        return fn, False

    class R(ast.NodeTransformer):
        def visit_Expr(self, n):
            if isinstance(n.value, ast.YieldFrom):
                return ast.copy_location(ast.Return(value=n.value.value), n)
            return n

    fn = R().visit(fn)
    fn.body.append(ast.Return(value=ast.List(elts=[], ctx=ast.Load())))
    return fn, True


def drop_trailing_empty_return(fn):
    # `return []` at the very end after a block whose tails all return/raise: keep as is; normalise
    # the sync generator by tail_yield_from so both carry it.
    return fn


def getitem_hook(fn):
    """Inline the nested `_get_item` helper of get_item_async (lemma getitem-hook)."""
    helper = None
    for st in fn.body:
        if isinstance(st, ast.FunctionDef) and st.name == "_get_item":
            src = ast.unparse(st.body)
            want = "if hasattr(obj, '__getitem_async__'):\n    return obj.__getitem_async__(key)\nreturn obj[key]"
            if src == want and [a.arg for a in st.args.args] == ["obj", "key"]:
                helper = st
    if helper is None:
        return fn, False
    fn.body = [st for st in fn.body if st is not helper]

    class R(ast.NodeTransformer):
        def visit_Call(self, n):
            self.generic_visit(n)
            if isinstance(n.func, ast.Name) and n.func.id == "_get_item" and len(n.args) == 2:
                return ast.copy_location(ast.Subscript(value=n.args[0], slice=n.args[1], ctx=ast.Load()), n)
            return n

    return R().visit(fn), True


def alpha(fn):
    """Rename locals (not parameters) by order of first binding."""
    params = {a.arg for a in fn.args.args + fn.args.kwonlyargs + fn.args.posonlyargs}
    if fn.args.vararg:
        params.add(fn.args.vararg.arg)
    if fn.args.kwarg:
        params.add(fn.args.kwarg.arg)
    order = {}

    class Bind(ast.NodeVisitor):
        def visit_Name(self, n):
            if isinstance(n.ctx, ast.Store) and n.id not in params and n.id not in order:
                order[n.id] = f"v{len(order)}"

        def visit_ExceptHandler(self, n):
            if n.name and n.name not in order:
                order[n.name] = f"v{len(order)}"
            self.generic_visit(n)

    Bind().visit(fn)

    class Ren(ast.NodeTransformer):
        def visit_Name(self, n):
            if n.id in order:
                n.id = order[n.id]
            return n

        def visit_ExceptHandler(self, n):
            if n.name in order:
                n.name = order[n.name]
            self.generic_visit(n)
            return n

    return Ren().visit(fn)


def is_delegate(async_fn, sync_name):
    from .frame import significant_body
    body = significant_body(async_fn)
    if len(body) != 1 or not isinstance(body[0], ast.Return) or not isinstance(body[0].value, ast.Call):
        return False
    call = body[0].value
    f = call.func
    if not (isinstance(f, ast.Attribute) and isinstance(f.value, ast.Name) and f.value.id == "self" and f.attr == sync_name):
        return False
    a = async_fn.args
    pos = [p.arg for p in a.posonlyargs + a.args][1:]
    got = [x.id for x in call.args if isinstance(x, ast.Name)]
    kw_ok = all((k.arg is None and isinstance(k.value, ast.Name) and a.kwarg and k.value.id == a.kwarg.arg)
                or (isinstance(k.value, ast.Name) and k.value.id == k.arg) for k in call.keywords)
    kwnames = {k.arg for k in call.keywords if k.arg}
    return got == pos[: len(got)] and kw_ok and set(pos[len(got):]) | {p.arg for p in a.kwonlyargs} <= kwnames | set(got)


def normalise(fn, used):
    fn = copy.deepcopy(fn)
    fn = Erase().visit(fn)
    # dead stores of constants (trace markers) and docstrings take no part in the comparison
    from .frame import significant_body
    for sub in [n for n in ast.walk(fn) if isinstance(n, (ast.FunctionDef, ast.AsyncFunctionDef))]:
        sub.body = significant_body(sub) or [ast.Pass()]
    if fn.name.endswith("_async"):
        fn.name = fn.name[:-6]
    used.add("erase")
    before = ast.dump(fn)
    fn = ListCompArg().visit(fn)
    fn = Executor().visit(fn)
    fn = apply_blocks(fn, lambda b, w: drop_loop_assign(b))
    fn = TypingAsserts().visit(fn)
    fn = IsUndefined().visit(fn)
    fn = Message().visit(fn)
    fn, g = getitem_hook(fn)
    if g:
        used.add("getitem-hook")
    fn = apply_blocks(fn, any_to_loop)
    fn, t = tail_yield_from(fn)
    if t:
        used.add("tail-yield-from")
    for _ in range(4):
        fn = apply_blocks(fn, inline_single_use)
    fn = alpha(fn)
    ast.fix_missing_locations(fn)
    return fn


def collect_pairs(repo: Repo):
    pairs = []

    def scan(mod, body, scope):
        defs = {}
        for st in body:
            if isinstance(st, (ast.FunctionDef, ast.AsyncFunctionDef)):
                defs[st.name] = st
            elif isinstance(st, ast.ClassDef):
                scan(mod, st.body, scope + [st.name])
        for name, st in defs.items():
            if isinstance(st, ast.AsyncFunctionDef) and name.endswith("_async"):
                pairs.append((mod, scope, defs.get(name[:-6]), st))

    for m in repo.all_modules():
        scan(m, m.tree.body, [])
    return pairs


def check_is_undefined(repo):
    m = repo.module("liquid2.undefined")
    fn = m.functions.get("is_undefined") if m else None
    if fn is None:
        return False
    from .frame import significant_body
    body = significant_body(fn)
    return len(body) == 1 and ast.unparse(body[0]) == "return isinstance(obj, Undefined)"


def run_twin(repo_root, tier, props=("C03",)):
    repo = Repo(repo_root)
    out = {"obligations": [], "samples": [], "trusted": [], "functions": [], "errors": [], "assumptions": [], "bounded": [], "not_covered": []}
    pairs = collect_pairs(repo)
    used_all = set()
    und_ok = check_is_undefined(repo)
    for mod, scope, s, a in pairs:
        qual = ".".join(scope + [a.name[:-6]])
        oid = f"{mod.name}:{qual}/twin"
        if s is None:
            # an async method without a sync twin in the same scope: resolved through the MRO below
            continue
        used = set()
        ns = normalise(s, used)
        na = normalise(a, used)
        ds, da = ast.dump(ns), ast.dump(na)
        status = "unsat"
        note = "async body == await-erasure of the sync body"
        backend = "identity"
        witness = None
        if ds != da:
            if is_delegate(a, s.name):
                used.add("delegate")
                note = "async default delegates to the sync method"
            else:
                key = f"{mod.name}:{qual}"
                h = hashlib.sha256((ast.unparse(ns) + "\n##\n" + ast.unparse(na)).encode()).hexdigest()[:16]
                if key in HOOK_PAIRS and _hook_hash_ok(key, h):
                    note = "documented hook difference: " + HOOK_PAIRS[key]
                    backend = "lemma"
                    out["assumptions"].append(f"{key}: {HOOK_PAIRS[key]}")
                else:
                    status = "sat"
                    diff = "\n".join(l for l in difflib.unified_diff(ast.unparse(ns).splitlines(), ast.unparse(na).splitlines(), "sync (normalised)", "async (erased, normalised)", lineterm="", n=2))
                    note = f"async twin differs from sync after erasure and lemmas {sorted(used)}"
                    witness = {"diff": diff, "hash": h}
        if "is_undefined" in ast.unparse(s) + ast.unparse(a) and not und_ok:
            status, note = "sat", "lemma is_undefined no longer holds: body of liquid2.undefined.is_undefined changed"
        used_all |= used
        out["obligations"].append({"oid": oid, "status": status, "backend": backend, "note": note, "witness": witness, "key": None, "rule": "twin"})
        out["functions"].append({"target": f"{mod.name}:{qual}[_async]", "status": "ok", "lemmas": sorted(used)})
    # MRO obligation: the class that supplies X_async supplies X (or the base default delegating to X)
    for m in repo.all_modules():
        for cname, c in m.classes.items():
            mro = repo.class_mro(m, c)
            names = set()
            for mm, cc in mro:
                if mm is None:
                    continue
                for st in cc.body:
                    if isinstance(st, ast.AsyncFunctionDef) and st.name.endswith("_async"):
                        names.add(st.name)
            for an in sorted(names):
                ra = repo.find_method(m, c, an)
                rs = repo.find_method(m, c, an[:-6])
                if ra is None or ra[0] != "func":
                    continue
                oid = f"{m.name}:{cname}.{an[:-6]}/twin-mro"
                if rs is None or rs[0] != "func":
                    out["obligations"].append({"oid": oid, "status": "unknown", "backend": "identity", "note": f"{an} has no sync twin reachable from {cname}", "rule": "twin-mro"})
                    continue
                same = (ra[1].name, ra[2].name) == (rs[1].name, rs[2].name)
                ok = same or is_delegate(ra[3], an[:-6])
                # sync overridden below the async provider, async still delegating default -> fine;
                # async overridden in a subclass while sync comes from a base: reported
                out["obligations"].append({
                    "oid": oid, "status": "unsat" if ok else "sat", "backend": "identity",
                    "note": f"{cname}: {an} from {ra[2].name}, {an[:-6]} from {rs[2].name}" + ("" if ok else " - only one of the twins is overridden"),
                    "witness": None if ok else {"async_provider": f"{ra[1].name}:{ra[2].name}", "sync_provider": f"{rs[1].name}:{rs[2].name}"},
                    "rule": "twin-mro"})
    out["trusted"] = [f"twin lemma {k}: {LEMMAS[k]}" for k in sorted(used_all)]
    ids = [o for o in out["obligations"] if o["status"] == "unsat"][:3]
    out["samples"] = [{"obligation": o["oid"], "backend": o["backend"], "note": o["note"]} for o in ids]
    return out


# hashes of the two hook pairs as reviewed (normalised sync ## async)
HOOK_HASHES = {}


def _hook_hash_ok(key, h):
    import json
    import os

    p = os.path.join(os.path.dirname(os.path.dirname(os.path.abspath(__file__))), "baseline", "twin_hooks.json")
    if os.path.exists(p):
        with open(p) as fd:
            d = json.load(fd)
        return d.get(key) == h
    return False


@register("C03")
def _c03(repo_root, tier):
    return run_twin(repo_root, tier)
