"""Replay of counter-models against the real code (DESIGN 4, step 5)."""
from __future__ import annotations

import json
import os
import subprocess
import sys

HERE = os.path.dirname(os.path.dirname(os.path.abspath(__file__)))


def make_replay(prop, oid, vs, repo, rec):
    """Build the replay record for obligation `oid` from its failing queries `vs`."""
    rep = {
        "property": prop,
        "obligation": oid,
        "clause": vs[0].get("note", ""),
        "repo": repo,
        "failing_queries": [
            {"case": v.get("case"), "path": v.get("path"), "model": v.get("model"), "goal": v.get("goal"),
             "solver": "z3 4.15 (python api) verdict sat" if not v.get("structural") else "structural rule"}
            for v in vs[:8]
        ],
        "reproduced": False,
        "attempts": [],
    }
    if vs[0].get("structural"):
        w = vs[0].get("model")
        rep["witness"] = w
        if isinstance(w, dict) and w.get("program"):
            r = run_native({"kind": "program", "program": w["program"], "repo": repo})
            rep["attempts"].append(r)
            rep["reproduced"] = bool(r.get("violates"))
        return rep
    target = oid.rsplit("/", 1)[0]
    kind = oid.rsplit("/", 1)[1]
    for v in vs[:6]:
        r = run_native({"kind": "contract", "target": target, "obligation": kind, "case": v.get("case"), "model": v.get("model") or {}, "repo": repo})
        rep["attempts"].append(r)
        if r.get("violates"):
            rep["reproduced"] = True
            rep["failing_input"] = r.get("inputs")
            rep["observed"] = r.get("observed")
            break
    return rep


def run_native(job):
    env = dict(os.environ)
    env["PYTHONPATH"] = job["repo"] + os.pathsep + HERE
    try:
        p = subprocess.run([sys.executable, "-m", "pyvc.replay_native"], input=json.dumps(job), capture_output=True, text=True, timeout=120, env=env, cwd=HERE)
        lines = [l for l in p.stdout.splitlines() if l.startswith("{")]
        if lines:
            return json.loads(lines[-1])
        return {"violates": False, "error": (p.stderr or p.stdout)[-800:]}
    except Exception as e:  # noqa: BLE001
        return {"violates": False, "error": f"{type(e).__name__}: {e}"}


def replay_file(path, repo):
    with open(path) as fd:
        rep = json.load(fd)
    prop = rep["property"]
    attempts = []
    again = False
    if rep.get("witness") and isinstance(rep["witness"], dict) and rep["witness"].get("program"):
        r = run_native({"kind": "program", "program": rep["witness"]["program"], "repo": repo})
        attempts.append(r)
        again = bool(r.get("violates"))
    else:
        target = rep["obligation"].rsplit("/", 1)[0]
        kind = rep["obligation"].rsplit("/", 1)[1]
        for q in rep.get("failing_queries", []):
            r = run_native({"kind": "contract", "target": target, "obligation": kind, "case": q.get("case"), "model": q.get("model") or {}, "repo": repo})
            attempts.append(r)
            if r.get("violates"):
                again = True
                break
    print(json.dumps({"obligation": rep["obligation"], "reproduced_now": again, "attempts": attempts}, indent=1, default=str))
    if again:
        print(f"VIOLATION property={prop} replay={path}")
        return 1
    print(f"replay of {rep['obligation']}: the recorded input does not violate the contract on this tree")
    return 0
