"""Site obligations (DESIGN 2.6): "no site in the package does X unguarded".
Sites are enumerated from the current source on every run; a new site without a
rule is itself a failed obligation."""
from __future__ import annotations

import ast
import os

from .repo import Repo
from .structural import register
from .frame import function_defs, own_nodes, Prov, compute_fresh_funcs, class_bases, params_of


def _ob(obs, oid, ok, note, witness=None, backend="site", status=None):
    obs.append({"oid": oid, "status": status or ("unsat" if ok else "sat"), "backend": backend, "note": note, "witness": witness, "key": None, "rule": "site"})


def _calls(fn):
    return [n for n in own_nodes(fn) if isinstance(n, ast.Call)]


def _all_functions(repo):
    for m in repo.all_modules():
        for qual, cls, fn, parent in function_defs(m):
            yield m, qual, cls, fn, parent


# --------------------------------------------------------------------------- C13
FILE_READS = {"open", "read_text", "read_bytes"}


def _c13_native_probe(repo_root):
    import json as _json
    import subprocess
    import sys as _sys
    env = dict(os.environ)
    env["PYTHONPATH"] = repo_root
    try:
        p = subprocess.run([_sys.executable, os.path.join(os.path.dirname(os.path.abspath(__file__)), "probe_c13.py")], capture_output=True, text=True, timeout=120, env=env, cwd=repo_root)
        line = [l for l in p.stdout.splitlines() if l.startswith("{")]
        return _json.loads(line[-1]) if line else {"error": (p.stderr or p.stdout)[-300:], "violations": [], "checked": 0}
    except Exception as e:  # noqa: BLE001
        return {"error": f"{type(e).__name__}: {e}", "violations": [], "checked": 0}


C13_PROGRAM = """
import os, tempfile
from pathlib import Path
from liquid2 import Environment, FileSystemLoader
from liquid2.exceptions import LiquidError
NAME = %r
tmp = os.path.realpath(tempfile.mkdtemp())
root = Path(tmp) / "root"; (root / "sub").mkdir(parents=True); (Path(tmp) / "root_private").mkdir()
(root / "index.html").write_text("INSIDE"); (Path(tmp) / "secret.html").write_text("OUTSIDE"); (Path(tmp) / "root_private" / "secret.html").write_text("OUTSIDE")
VIOLATES = False; OBSERVED = ""
for make in (lambda: FileSystemLoader(root), lambda: FileSystemLoader(root, ext=".html")):
    try:
        t = Environment(loader=make()).get_template(NAME)
        p = os.path.realpath(str(t.path))
        if not p.startswith(str(root) + os.sep):
            VIOLATES = True; OBSERVED = "get_template(%%r) loaded %%s" %% (NAME, p)
    except LiquidError:
        pass
"""


@register("C13")
def c13_sites(repo_root, tier):
    repo = Repo(repo_root)
    obs = []
    # (0) bounded native probe (labelled bounded): adversarial names against the real loaders in a scratch directory layout
    pr = _c13_native_probe(repo_root)
    if pr.get("error"):
        _ob(obs, "liquid2/bounded.native-loader-probe", False, f"probe could not run: {pr['error']}", status="unknown", backend="bounded-native")
    else:
        bad = pr["violations"]
        _ob(obs, "liquid2/bounded.native-loader-probe", not bad,
            f"{pr['checked']} (loader, name) pairs: every answer is TemplateNotFoundError or a file inside the root" if not bad
            else f"{bad[0]['loader']}.get_template({bad[0]['name']!r}) {bad[0]['outcome']}",
            witness=None if not bad else {"program": "from pyvc import probe_c13\nr = probe_c13.run()\nVIOLATES = bool(r['violations'])\nOBSERVED = str(r['violations'][:3])\n", "failing": bad[:5]}, backend="bounded-native")
    fresh = compute_fresh_funcs(repo)
    # (1) every file read in the package reads a path that came out of resolve_path/_resolve_path
    for m, qual, cls, fn, parent in _all_functions(repo):
        for c in _calls(fn):
            f = c.func
            name = f.attr if isinstance(f, ast.Attribute) else (f.id if isinstance(f, ast.Name) else None)
            if name not in FILE_READS:
                continue
            if isinstance(f, ast.Name) and name == "open":
                target = c.args[0] if c.args else None
            elif isinstance(f, ast.Attribute):
                target = f.value
            else:
                continue
            oid = f"{m.name}:{qual}/site.file-read@{_ordinal(fn, c)}"
            p = Prov(repo, m, fn, cls, fresh)
            tags = p.of_expr(target) if target is not None else {("opaque", "?")}
            ok = False
            why = f"reads {ast.unparse(target) if target is not None else '?'}: provenance {sorted(map(str, tags))}"
            if all(isinstance(t, tuple) and t[0] == "opaque" and t[1].split(".")[-1] in ("resolve_path", "_resolve_path", "run_in_executor") for t in tags):
                # run_in_executor(None, self._resolve_path, name): check its function argument
                ok = True
                for n in own_nodes(fn):
                    if isinstance(n, ast.Call) and isinstance(n.func, ast.Attribute) and n.func.attr == "run_in_executor":
                        fa = n.args[1] if len(n.args) > 1 else None
                        if fa is not None and isinstance(fa, ast.Attribute) and fa.attr in ("read_text", "_read", "open"):
                            continue
                        if not (isinstance(fa, ast.Attribute) and fa.attr in ("resolve_path", "_resolve_path")):
                            ok = ok and False if isinstance(target, ast.Name) and _assigned_from(fn, target.id, n) else ok
            elif qual.endswith("FileSystemLoader._read") and tags == {("param", "source_path")}:
                # _read(source_path): all call sites must pass a resolve_path result
                ok = _read_callers_ok(repo)
                why += "; every caller passes the result of resolve_path" if ok else "; a caller passes something else"
            elif m.name == "liquid2.limits" or not m.name.startswith("liquid2.builtin.loaders"):
                # not a loader: must not read files named by template data at all
                ok = all(t == "fresh" for t in tags) and False
            _ob(obs, oid, ok, why)
        # run_in_executor(None, path.read_text, ...) passes the bound method without calling it
        for c in _calls(fn):
            if isinstance(c.func, ast.Attribute) and c.func.attr == "run_in_executor" and len(c.args) > 1:
                fa = c.args[1]
                if isinstance(fa, ast.Attribute) and fa.attr in FILE_READS:
                    p = Prov(repo, m, fn, cls, fresh)
                    tags = p.of_expr(fa.value)
                    ok = all(isinstance(t, tuple) and t[0] == "opaque" and t[1].split(".")[-1] in ("run_in_executor", "_resolve_path", "resolve_path") for t in tags)
                    _ob(obs, f"{m.name}:{qual}/site.file-read@{_ordinal(fn, c)}", ok, f"executor reads {ast.unparse(fa.value)}: provenance {sorted(map(str, tags))}")
    # (2) no subclass replaces the confinement logic
    for m in repo.all_modules():
        for cname, c in m.classes.items():
            bases = class_bases(repo, m, cname)
            for base, meths in (("FileSystemLoader", ("resolve_path", "_read")), ("PackageLoader", ("_resolve_path",))):
                if base in bases[1:]:
                    over = [st.name for st in c.body if isinstance(st, (ast.FunctionDef, ast.AsyncFunctionDef)) and st.name in meths + ("get_source", "get_source_async")]
                    _ob(obs, f"{m.name}:{cname}/site.inherits-confinement", not over,
                        f"{cname} inherits {base}'s path resolution unchanged" if not over else f"{cname} overrides {over}")
    # (3) ChoiceLoader hands back exactly what a delegate returned
    cm = repo.module("liquid2.builtin.loaders.choice_loader")
    for name in ("get_source", "get_source_async"):
        fn = cm.find(f"ChoiceLoader.{name}") if cm else None
        ok = False
        if fn is not None:
            rets = [n for n in own_nodes(fn) if isinstance(n, ast.Return) and n.value is not None]
            ok = bool(rets) and all(
                isinstance(r.value, (ast.Call, ast.Await)) and "loader.get_source" in ast.unparse(r.value) for r in rets)
        _ob(obs, f"liquid2.builtin.loaders.choice_loader:ChoiceLoader.{name}/site.delegates", ok, "returns only a delegate loader's own result")
    # (4) tags reach loaders only through env.get_template[_async]
    bad = []
    n_sites = 0
    for m, qual, cls, fn, parent in _all_functions(repo):
        if ".tags." not in m.name and not m.name.endswith("static_analysis") and not m.name.endswith("messages"):
            continue
        for c in _calls(fn):
            f = c.func
            if isinstance(f, ast.Attribute) and f.attr in ("load", "load_async", "get_source", "get_source_async", "resolve_path", "_resolve_path", "open", "read_text"):
                bad.append(f"{m.name}:{qual}@{c.lineno} calls .{f.attr}()")
            if isinstance(f, ast.Attribute) and f.attr in ("get_template", "get_template_async"):
                n_sites += 1
                recv = ast.unparse(f.value)
                if not recv.endswith("env"):
                    bad.append(f"{m.name}:{qual}@{c.lineno} get_template on {recv}")
    _ob(obs, "liquid2.builtin.tags/site.loads-through-environment", not bad and n_sites > 0,
        f"{n_sites} template loads in tags, all through env.get_template[_async]" if not bad else "; ".join(bad[:4]))
    # (5) Environment.get_template[_async] delegates to self.loader.load[_async] with the name unchanged
    em = repo.module("liquid2.environment")
    for name, callee in (("get_template", "load"), ("get_template_async", "load_async")):
        fn = em.find(f"Environment.{name}") if em else None
        ok = False
        if fn is not None:
            for c in _calls(fn):
                if ast.unparse(c.func) == f"self.loader.{callee}":
                    kw = {k.arg: ast.unparse(k.value) for k in c.keywords}
                    ok = kw.get("name") == "name"
        _ob(obs, f"liquid2.environment:Environment.{name}/site.name-unchanged", ok, f"passes the requested name unchanged to loader.{callee}")
    return {"obligations": obs, "samples": [{"obligation": o["oid"], "backend": "site", "note": o["note"]} for o in obs[:2]],
            "trusted": ["site analysis: file reads are the calls open()/Path.open()/read_text()/read_bytes() found in the source"],
            "bounded": ["liquid2/bounded.native-loader-probe: a fixed list of adversarial template names against the real loaders in a scratch directory (pyvc/probe_c13.py); bounded, not counted as proved - it exists to give a concrete failing input when an implementation leaves the lexical pathlib model"],
            "assumptions": ["no symlinks below loader roots; pathlib's lexical semantics (joinpath/with_suffix/parts) as modelled"],
            "functions": [{"target": "liquid2/* file-read sites and loader call sites", "status": "ok"}]}


def _preorder(fn):
    """Nodes of fn's own body in structural pre-order (nested defs/classes/lambdas skipped): independent of line numbers and layout."""
    def rec(n):
        yield n
        for ch in ast.iter_child_nodes(n):
            if isinstance(ch, (ast.FunctionDef, ast.AsyncFunctionDef, ast.ClassDef, ast.Lambda)):
                continue
            yield from rec(ch)
    for st in fn.body:
        if isinstance(st, (ast.FunctionDef, ast.AsyncFunctionDef, ast.ClassDef)):
            continue
        yield from rec(st)


def _ordinal(fn, node, kind=ast.Call):
    """Index of `node` among the nodes of the same kind in fn (structural order): stable under reformatting."""
    i = 0
    for n in _preorder(fn):
        if n is node:
            return i
        if isinstance(n, kind):
            i += 1
    return -1


def _assigned_from(fn, name, call):
    for n in own_nodes(fn):
        if isinstance(n, ast.Assign) and any(isinstance(t, ast.Name) and t.id == name for t in n.targets):
            v = n.value.value if isinstance(n.value, ast.Await) else n.value
            if v is call:
                return True
    return False


def _read_callers_ok(repo):
    ok = True
    found = 0
    for m, qual, cls, fn, parent in _all_functions(repo):
        for c in _calls(fn):
            # direct call self._read(x)
            if isinstance(c.func, ast.Attribute) and c.func.attr == "_read" and c.args:
                found += 1
                ok = ok and _from_resolve(fn, c.args[0])
            if isinstance(c.func, ast.Attribute) and c.func.attr == "run_in_executor" and len(c.args) > 2:
                fa = c.args[1]
                if isinstance(fa, ast.Attribute) and fa.attr == "_read":
                    found += 1
                    ok = ok and _from_resolve(fn, c.args[2])
    return ok and found > 0


def _from_resolve(fn, arg):
    if not isinstance(arg, ast.Name):
        return False
    srcs = []
    for n in own_nodes(fn):
        if isinstance(n, ast.Assign) and any(isinstance(t, ast.Name) and t.id == arg.id for t in n.targets):
            srcs.append(n.value.value if isinstance(n.value, ast.Await) else n.value)
    if not srcs:
        return False
    for v in srcs:
        if isinstance(v, ast.Call) and isinstance(v.func, ast.Attribute):
            if v.func.attr == "resolve_path":
                continue
            if v.func.attr == "run_in_executor" and len(v.args) > 1 and isinstance(v.args[1], ast.Attribute) and v.args[1].attr == "resolve_path":
                continue
        return False
    return True


# --------------------------------------------------------------------------- C14
@register("C13")
def c13_cache_is_not_a_side_door(repo_root, tier):
    """A caching loader consults its cache before the name reaches resolve_path(): the cache is keyed by the name exactly as
    given (every caching loader takes cache_key/load/_check_cache from the mixin, whose key is the unmodified name, prefixed by the
    namespace), so a name with `..` or an absolute name can only hit an entry that was stored under that very name - which
    resolve_path() rejected when it was loaded."""
    r = c14_sites(repo_root, tier)
    obs = [o for o in r["obligations"] if "/site.from-mixin" in o["oid"] or "/site.key-and-name" in o["oid"]]
    return {"obligations": obs, "samples": [], "trusted": [], "functions": [], "assumptions": []}


@register("C14")
def c14_sites(repo_root, tier):
    repo = Repo(repo_root)
    obs = []
    mm = repo.module("liquid2.builtin.loaders.mixins")
    for name, check, sup in (("load", "_check_cache", "load"), ("load_async", "_check_cache_async", "load_async")):
        fn = mm.find(f"CachingLoaderMixin.{name}") if mm else None
        ok = False
        note = f"CachingLoaderMixin.{name} not found"
        if fn is not None:
            key_vars = [t.id for n in own_nodes(fn) if isinstance(n, ast.Assign) and isinstance(n.value, ast.Call)
                        and ast.unparse(n.value.func) == "self.cache_key" and [ast.unparse(a) for a in n.value.args] == ["name", "context", "kwargs"]
                        for t in n.targets if isinstance(t, ast.Name)]
            calls = [c for c in _calls(fn) if ast.unparse(c.func) == f"self.{check}"]
            if len(calls) == 1 and key_vars:
                c = calls[0]
                a = c.args
                p = a[3] if len(a) > 3 else None
                ok = (
                    len(a) == 4 and ast.unparse(a[0]) == "env" and isinstance(a[1], ast.Name) and a[1].id in key_vars and ast.unparse(a[2]) == "globals"
                    and isinstance(p, ast.Call) and ast.unparse(p.func) == "partial" and ast.unparse(p.args[0]) == f"super().{sup}"
                    and [ast.unparse(x) for x in p.args[1:]] == ["env", "name"]
                    and {k.arg: ast.unparse(k.value) for k in p.keywords} == {"globals": "globals", "context": "context", None: "kwargs"}
                )
            note = (f"{name}: the cache is consulted under cache_key(name, context, kwargs) and the source is loaded under `name` "
                    f"with the caller's globals/context/kwargs") if ok else f"{name}: cache key / template name / arguments are not passed as (cache_key -> {check}, name -> super().{sup})"
        _ob(obs, f"liquid2.builtin.loaders.mixins:CachingLoaderMixin.{name}/site.key-and-name", ok, note)
    # every caching loader takes load/load_async from the mixin
    for m in repo.all_modules():
        for cname, c in m.classes.items():
            bases = class_bases(repo, m, cname)
            if "CachingLoaderMixin" in bases[1:]:
                for meth in ("load", "load_async", "cache_key", "_check_cache", "_check_cache_async"):
                    r = repo.find_method(m, c, meth)
                    ok = r is not None and r[0] == "func" and r[2].name == "CachingLoaderMixin"
                    _ob(obs, f"{m.name}:{cname}.{meth}/site.from-mixin", ok,
                        f"{cname}.{meth} is CachingLoaderMixin.{meth}" if ok else f"{cname}.{meth} resolves to {r[2].name if r and r[0]=='func' else r}")
    # the namespace part of a cache key is read from the render context: every template load made by a tag hands its context on
    n_loads = 0
    for m, qual, cls, fn, parent in _all_functions(repo):
        if ".tags." not in m.name:
            continue
        for c in _calls(fn):
            if isinstance(c.func, ast.Attribute) and c.func.attr in ("get_template", "get_template_async") and any(x is c for x in own_nodes(fn)):
                n_loads += 1
                recv = ast.unparse(c.func.value)
                ctx = recv[:-len(".env")] if recv.endswith(".env") else None
                kw = {k.arg: ast.unparse(k.value) for k in c.keywords}
                ok = ctx is not None and kw.get("context") == ctx
                _ob(obs, f"{m.name}:{qual}/site.load-passes-context@{_ordinal(fn, c)}", ok,
                    f"{recv}.{c.func.attr}(.., context={ctx}): the loader sees the render context (cache namespace, matter, globals)" if ok
                    else f"{ast.unparse(c)[:90]}: the template is loaded without the render context, so a namespaced cache keys it without its namespace")
    _ob(obs, "liquid2/site.tag-template-loads.count", n_loads >= 12, f"{n_loads} template loads in tag code")
    return {"obligations": obs, "samples": [{"obligation": o["oid"], "backend": "site", "note": o["note"]} for o in obs[:2]],
            "trusted": ["OrderedDict model: move_to_end/popitem/__setitem__ on an ordered key sequence with unique keys"],
            "assumptions": ["histories are covered by the data-structure invariant (capacity, LRU order) and the per-call contracts, not enumerated",
                            "the uncached loader returns a fresh template bound to the caller's globals (Environment.from_string contract)"],
            "functions": []}


# --------------------------------------------------------------------------- C07
def _with_context_exprs(fn):
    out = set()
    for n in own_nodes(fn):
        if isinstance(n, (ast.With, ast.AsyncWith)):
            for it in n.items:
                out.add(id(it.context_expr))
    return out


@register("C07")
def c07_no_parent_reads(repo_root, tier):
    """An isolated context keeps a reference to the context it was copied from (`parent`), for diagnostics. Nothing reads it: a
    filter or tag that followed it would let a partial or macro body see the caller's local variables."""
    repo = Repo(repo_root)
    obs = []
    bad = []
    for m, qual, cls, fn, parent in _all_functions(repo):
        for n in own_nodes(fn):
            if isinstance(n, ast.Attribute) and n.attr == "parent" and isinstance(n.ctx, ast.Load):
                recv = ast.unparse(n.value)
                is_ctx = recv in ("context", "ctx", "self.context", "static_context", "macro_context") or recv.endswith("_context") \
                    or (recv == "self" and cls is not None and (cls if isinstance(cls, str) else cls.name) == "RenderContext")
                if is_ctx:
                    bad.append(f"{m.name}:{qual} line {n.lineno}: {ast.unparse(n)}")
    # a block-scoped copy (an overriding block) is still inside whatever isolated the caller: it keeps the caller's disabled tags
    n_bs = 0
    for m, qual, cls, fn, parent in _all_functions(repo):
        for c in _calls(fn):
            if isinstance(c.func, ast.Attribute) and c.func.attr == "copy" and any(k.arg == "block_scope" and isinstance(k.value, ast.Constant) and k.value.value is True for k in c.keywords):
                n_bs += 1
                recv = ast.unparse(c.func.value)
                kw = {k.arg: ast.unparse(k.value) for k in c.keywords}
                okd = kw.get("disabled_tags") == f"{recv}.disabled_tags"
                _ob(obs, f"{m.name}:{qual}/site.block-copy-keeps-disabled-tags@{_ordinal(fn, c)}", okd,
                    f"{recv}.copy(.., block_scope=True, disabled_tags={recv}.disabled_tags)" if okd
                    else f"{recv}.copy(.., block_scope=True) starts with no disabled tags: `include` inside an overriding block of a template loaded with `render` is allowed")
    _ob(obs, "liquid2/site.block-scoped-copies.count", n_bs >= 2, f"{n_bs} block-scoped context copies")
    _ob(obs, "liquid2/site.context-parent-never-read", not bad,
        "no function reads the `parent` of a render context" if not bad
        else f"{bad[0]}: the calling context is reached from an isolated one - names bound by the caller become visible to the partial / macro body")
    return {"obligations": obs, "samples": [], "trusted": [], "functions": [], "assumptions": []}


@register("C07")
def c07_sites(repo_root, tier):
    repo = Repo(repo_root)
    obs = []
    fresh = compute_fresh_funcs(repo)
    # (1) the scope stack is pushed/popped only by RenderContext.extend
    bad = []
    for m, qual, cls, fn, parent in _all_functions(repo):
        for c in _calls(fn):
            f = c.func
            if isinstance(f, ast.Attribute) and f.attr in ("push", "pop", "appendleft", "popleft") and ast.unparse(f.value).endswith(".scope") and "context" in ast.unparse(f.value) or \
               (isinstance(f, ast.Attribute) and f.attr in ("push", "pop") and ast.unparse(f.value) == "self.scope"):
                if not (m.name == "liquid2.context" and qual == "RenderContext.extend"):
                    bad.append(f"{m.name}:{qual}@{c.lineno}")
    _ob(obs, "liquid2/site.scope-push-pop-only-in-extend", not bad, "RenderContext.scope is pushed/popped only inside RenderContext.extend (which restores it in `finally`)" if not bad else f"scope pushed/popped at {bad[:4]}")
    # (2) every use of extend()/loop() is the context expression of a `with`; its namespace is a fresh mapping
    n_sites = 0
    for m, qual, cls, fn, parent in _all_functions(repo):
        withs = _with_context_exprs(fn)
        p = None
        for c in _calls(fn):
            f = c.func
            if not (isinstance(f, ast.Attribute) and f.attr in ("extend", "loop")):
                continue
            recv = ast.unparse(f.value)
            if not (recv.endswith("context") or recv == "self" and m.name == "liquid2.context"):
                continue
            if recv == "self" and f.attr == "extend" and qual != "RenderContext.loop":
                continue
            n_sites += 1
            oid = f"{m.name}:{qual}/site.scoped-with@{_ordinal(fn, c)}"
            in_with = id(c) in withs
            p = p or Prov(repo, m, fn, cls, fresh)
            ns = c.args[0] if c.args else next((k.value for k in c.keywords if k.arg == "namespace"), None)
            tags = p.of_expr(ns) if ns is not None else set()
            # a namespace handed in as a parameter is its caller's obligation; what must never be pushed is
            # something rooted at the context itself (its locals/globals/counters) or at the node
            fresh_ns = bool(tags) and all(t == "fresh" or (isinstance(t, tuple) and t[0] == "param" and t[1] not in ("context", "self", "ctx")) for t in tags)
            # `namespace` parameters: RenderContext.loop forwards its own parameter
            _ob(obs, oid, in_with and fresh_ns,
                f"{recv}.{f.attr}({ast.unparse(ns) if ns is not None else ''}) is a `with` item and binds a fresh namespace" if in_with and fresh_ns else
                f"{recv}.{f.attr}(...) at line {c.lineno}: with-item={in_with}, namespace provenance={sorted(map(str, tags))}")
    _ob(obs, "liquid2/site.scoped-with.count", n_sites >= 15, f"{n_sites} block-scope sites found")
    # (3) isolated partials: render and call build their context with copy() (never extend), pass disabled tags
    for modname, clsname, attr in (("liquid2.builtin.tags.render_tag", "RenderNode", "disabled"), ("liquid2.builtin.tags.macro_tag", "CallNode", "disabled_tags")):
        m = repo.module(modname)
        c = m.classes.get(clsname) if m else None
        val = None
        if c is not None:
            for st in c.body:
                if isinstance(st, ast.Assign) and any(isinstance(t, ast.Name) and t.id == attr for t in st.targets):
                    val = st.value
        names = set()
        if val is not None:
            for n in ast.walk(val):
                if isinstance(n, ast.Constant) and isinstance(n.value, str):
                    names.add(n.value)
        _ob(obs, f"{modname}:{clsname}.{attr}/site.include-disabled", "include" in names, f"{clsname}.{attr} = {sorted(names)} contains 'include'")
        for meth in ("render_to_output", "render_to_output_async"):
            fn = m.find(f"{clsname}.{meth}") if m else None
            ok = False
            note = "not found"
            if fn is not None:
                copies = [cc for cc in _calls(fn) if isinstance(cc.func, ast.Attribute) and cc.func.attr == "copy" and ast.unparse(cc.func.value) == "context"]
                extends = [cc for cc in _calls(fn) if isinstance(cc.func, ast.Attribute) and cc.func.attr in ("extend", "loop") and ast.unparse(cc.func.value) == "context"]
                ok = len(copies) == 1 and not extends
                if ok:
                    kw = {k.arg: ast.unparse(k.value) for k in copies[0].keywords}
                    ok = kw.get("disabled_tags") == f"self.{attr}" and kw.get("block_scope", "False") == "False"
                    # the partial / macro body is rendered with the copy, never with the caller's context
                    var = None
                    for n in own_nodes(fn):
                        if isinstance(n, ast.Assign) and n.value is copies[0] and isinstance(n.targets[0], ast.Name):
                            var = n.targets[0].id
                    renders = [cc for cc in _calls(fn) if isinstance(cc.func, ast.Attribute) and cc.func.attr in ("render_with_context", "render_with_context_async", "render", "render_async")
                               and cc.args and isinstance(cc.args[0], ast.Name)]
                    ok = ok and var is not None and bool(renders) and all(r.args[0].id == var for r in renders)
                    note = f"{clsname}.{meth}: body rendered with `{var}` = context.copy(disabled_tags=self.{attr}); {len(renders)} render sites"
                else:
                    note = f"{clsname}.{meth}: {len(copies)} copy() calls, {len(extends)} extend()/loop() calls on the caller's context"
            _ob(obs, f"{modname}:{clsname}.{meth}/site.isolated-copy", ok, note)
    # (4) LambdaExpression.map extends the scope inside a generator: restoration at generator close
    em = repo.module("liquid2.builtin.expressions")
    fn = em.find("LambdaExpression.map") if em else None
    ok = False
    if fn is not None:
        withs = [n for n in own_nodes(fn) if isinstance(n, ast.With)]
        ok = bool(withs) and all(any(isinstance(x, ast.Yield) for x in ast.walk(w)) for w in withs) and all(
            isinstance(w.items[0].context_expr, ast.Call) and ast.unparse(w.items[0].context_expr.func) == "context.extend" for w in withs)
    _ob(obs, "liquid2.builtin.expressions:LambdaExpression.map/site.generator-scope", ok,
        "each yield of map() sits inside `with context.extend(scope)`: the scope is popped when the generator is resumed or closed")
    return {"obligations": obs, "samples": [{"obligation": o["oid"], "backend": "site", "note": o["note"]} for o in obs[:2]],
            "trusted": [], "functions": [],
            "assumptions": ["CPython reference counting closes an abandoned generator (LambdaExpression.map) before its caller resumes",
                            "non-interference of arbitrary program pairs is the composition of the per-function facts, argued in DESIGN.md, not machine-checked"]}


# --------------------------------------------------------------------------- C16
STRICT_RAISE = "raise UndefinedError(self.msg, token=self.token)"


def _body_wo_doc(fn):
    from .frame import significant_body
    return significant_body(fn)


@register("C16")
def c16_sites(repo_root, tier):
    repo = Repo(repo_root)
    obs = []
    um = repo.module("liquid2.undefined")
    und = um.classes.get("Undefined") if um else None
    strict = um.classes.get("StrictUndefined") if um else None
    falsy = um.classes.get("FalsyStrictUndefined") if um else None
    if not (und and strict and falsy):
        _ob(obs, "liquid2.undefined/site.classes", False, "Undefined / StrictUndefined / FalsyStrictUndefined not found")
        return {"obligations": obs}
    umeths = {st.name: st for st in und.body if isinstance(st, ast.FunctionDef)}
    smeths = {st.name: st for st in strict.body if isinstance(st, ast.FunctionDef)}
    # (1) every protocol method of Undefined that the engine can reach from a template is overridden
    #     in StrictUndefined by a body that only raises UndefinedError
    exempt = {"__init__", "__repr__"}
    # __liquid__ and poke are not overridden: __getattribute__ refuses them (obligation 2)
    via_getattribute = {"__liquid__", "poke"}
    for name in sorted(umeths):
        if name in exempt:
            continue
        oid = f"liquid2.undefined:StrictUndefined.{name}/site.strict-raises"
        if name in via_getattribute:
            allowed = _frozenset_literal(strict, "allowed_properties")
            ok = allowed is not None and name not in allowed and "__getattribute__" in smeths
            _ob(obs, oid, ok, f"`{name}` is not in StrictUndefined.allowed_properties: any access raises through __getattribute__")
            continue
        fn = smeths.get(name)
        ok = fn is not None and [ast.unparse(s) for s in _body_wo_doc(fn)] == [STRICT_RAISE]
        _ob(obs, oid, ok, f"StrictUndefined.{name} only raises UndefinedError" if ok else f"StrictUndefined.{name} missing or does something else")
    # StrictUndefined also refuses truthiness (Undefined has no __bool__: falls back to __len__ == 0)
    fn = smeths.get("__bool__")
    _ob(obs, "liquid2.undefined:StrictUndefined.__bool__/site.strict-raises", fn is not None and [ast.unparse(s) for s in _body_wo_doc(fn)] == [STRICT_RAISE], "StrictUndefined.__bool__ only raises UndefinedError")
    # (2) __getattribute__: a name outside allowed_properties raises UndefinedError
    ga = smeths.get("__getattribute__")
    want = ["if name in object.__getattribute__(self, 'allowed_properties'):\n    return object.__getattribute__(self, name)",
            "raise UndefinedError(object.__getattribute__(self, 'msg'), token=self.token)"]
    _ob(obs, "liquid2.undefined:StrictUndefined.__getattribute__/site.allow-list", ga is not None and [ast.unparse(s) for s in _body_wo_doc(ga)] == want,
        "__getattribute__ returns allowed_properties members and raises UndefinedError for every other name")
    for cls, cname, must_not in ((strict, "StrictUndefined", {"__str__", "__len__", "__iter__", "__getitem__", "__contains__", "__eq__", "__bool__", "__int__", "__hash__", "__liquid__", "poke", "__reversed__"}),
                                 (falsy, "FalsyStrictUndefined", {"__str__", "__len__", "__iter__", "__getitem__", "__contains__", "__int__", "__hash__", "poke", "__reversed__"})):
        allowed = _frozenset_literal(cls, "allowed_properties")
        ok = allowed is not None and not (allowed & must_not)
        _ob(obs, f"liquid2.undefined:{cname}.allowed_properties/site.allow-list", ok,
            f"{cname}.allowed_properties exposes no value-producing protocol method" if ok else f"{cname}.allowed_properties = {sorted(allowed or [])} exposes {sorted((allowed or set()) & must_not)}")
    # (3) default policy: no method of Undefined raises
    for name, fn in sorted(umeths.items()):
        raises = [n for n in ast.walk(fn) if isinstance(n, ast.Raise)]
        _ob(obs, f"liquid2.undefined:Undefined.{name}/site.never-raises", not raises, f"Undefined.{name} contains no raise statement")
    # (4) RenderContext.get / get_async / resolve build an undefined only in the failed-lookup handlers
    cm = repo.module("liquid2.context")
    for name in ("get", "get_async", "resolve"):
        fn = cm.find(f"RenderContext.{name}") if cm else None
        ok = False
        note = "not found"
        if fn is not None:
            handlers = [h for n in own_nodes(fn) if isinstance(n, ast.Try) for h in n.handlers]
            in_handler = set()
            for h in handlers:
                for x in ast.walk(h):
                    in_handler.add(id(x))
            # a path whose root is not a name (`[0]`) cannot be bound at all: that guard counts as a failed lookup
            for n in own_nodes(fn):
                if isinstance(n, ast.If) and ast.unparse(n.test) == "not isinstance(root, str)":
                    for st in n.body:
                        for x in ast.walk(st):
                            in_handler.add(id(x))
            calls = [c for c in _calls(fn) if ast.unparse(c.func) == "self.env.undefined"]
            types_ok = all(h.type is not None and set(ast.unparse(h.type).strip("()").replace(" ", "").split(",")) <= {"KeyError", "TypeError", "IndexError"} for h in handlers)
            rets = [r for r in own_nodes(fn) if isinstance(r, ast.Return) and r.value is not None and id(r) not in in_handler]
            plain = all(ast.unparse(r.value) in ("obj", "self.scope[name]") for r in rets)   # `return default` sits in the handlers / the non-name guard
            ok = bool(calls) and all(id(c) in in_handler for c in calls) and types_ok and plain
            note = (f"{name}: {len(calls)} undefined(...) constructions, all inside except (KeyError|TypeError|IndexError) handlers; "
                    f"the success path returns the looked-up object") if ok else f"{name}: undefined built outside a failed-lookup handler or success path returns something else"
        _ob(obs, f"liquid2.context:RenderContext.{name}/site.undefined-only-on-failure", ok, note)
    # (5) Environment uses the configured policy class and nothing else
    em = repo.module("liquid2.environment")
    init = em.find("Environment.__init__") if em else None
    ok = False
    if init is not None:
        allp = list(init.args.args) + list(init.args.kwonlyargs)
        defaults = dict(zip([a.arg for a in init.args.args][len(init.args.args) - len(init.args.defaults):], init.args.defaults))
        defaults.update({a.arg: d for a, d in zip(init.args.kwonlyargs, init.args.kw_defaults) if d is not None})
        has_param = any(a.arg == "undefined" for a in allp) and ast.unparse(defaults.get("undefined", ast.Constant(None))) == "Undefined"
        stored = any(isinstance(n, ast.Assign) and ast.unparse(n.targets[0]) == "self.undefined" and ast.unparse(n.value) == "undefined" for n in ast.walk(init))
        ok = has_param and stored
    _ob(obs, "liquid2.environment:Environment/site.undefined-policy", ok,
        "the policy class is the constructor argument `undefined` (default: Undefined)")
    return {"obligations": obs, "samples": [{"obligation": o["oid"], "backend": "site", "note": o["note"]} for o in obs[:2]],
            "trusted": [], "functions": [],
            "assumptions": ["`strict success implies same output as default` over all programs is not claimed: only the per-method facts above"],
            "not_covered": ["whole-program refinement (strict output == default output whenever strict succeeds)"]}


def _frozenset_literal(cls, name):
    for st in cls.body:
        if isinstance(st, ast.Assign) and any(isinstance(t, ast.Name) and t.id == name for t in st.targets):
            out = set()
            for n in ast.walk(st.value):
                if isinstance(n, ast.Constant) and isinstance(n.value, str):
                    out.add(n.value)
            return out
    return None


# --------------------------------------------------------------------------- C05
PROTOCOL_NAMES = {"__liquid__", "__html__", "__getitem_async__", "__getitem__", "with_context", "with_environment", "filter_async",
                  "validate", "force_liquid_default", "get_int_max_str_digits"}
FORBIDDEN_CALLS = {"vars", "eval", "exec", "compile", "__import__", "globals", "locals", "dir", "delattr", "setattr"}
FORBIDDEN_ATTRS = {"__dict__", "__globals__", "__subclasses__", "__mro__", "__bases__", "__getattribute__", "__getattr__", "__builtins__",
                   "__code__", "__closure__", "__func__", "__self__", "__wrapped__", "format_map", "attrgetter", "methodcaller", "getmembers"}
DATA_NAMES = {"obj", "left", "val", "value", "item", "itm", "sequence", "key", "right", "arg"}


@register("C05")
def c05_sites(repo_root, tier):
    repo = Repo(repo_root)
    obs = []
    n_sites = 0
    for m in repo.all_modules():
        for qual, cls, fn, parent in function_defs(m):
            for n in own_nodes(fn):
                # ---- reflective built-ins
                if isinstance(n, ast.Call) and isinstance(n.func, ast.Name) and n.func.id in ("getattr", "hasattr"):
                    n_sites += 1
                    oid = f"{m.name}:{qual}/site.{n.func.id}@{_ordinal(fn, n)}"
                    name = n.args[1] if len(n.args) > 1 else None
                    recv = n.args[0] if n.args else None
                    if isinstance(name, ast.Constant) and isinstance(name.value, str):
                        ok = name.value in PROTOCOL_NAMES
                        _ob(obs, oid, ok, f"{n.func.id}(.., {name.value!r}): " + ("documented protocol name" if ok else "not a protocol name"))
                    else:
                        # by-name access: only `self`, under a dominating membership test in a literal key set
                        ok, why = _guarded_self_getattr(repo, m, cls, fn, n)
                        _ob(obs, oid, ok, why)
                elif isinstance(n, ast.Call) and isinstance(n.func, ast.Name) and n.func.id in FORBIDDEN_CALLS:
                    n_sites += 1
                    _ob(obs, f"{m.name}:{qual}/site.{n.func.id}@{_ordinal(fn, n)}", False, f"call of {n.func.id}() in render/parse code")
                elif isinstance(n, ast.Attribute) and n.attr in FORBIDDEN_ATTRS:
                    n_sites += 1
                    ok = ast.unparse(n).startswith("object.__getattribute__(") or ast.unparse(n) == "object.__getattribute__"
                    _ob(obs, f"{m.name}:{qual}/site.attr.{n.attr}@{_ordinal(fn, n, ast.Attribute)}", ok, f"{ast.unparse(n)}: " + ("object.__getattribute__ on self inside StrictUndefined" if ok else "reflective attribute"))
                elif isinstance(n, ast.Attribute) and n.attr == "format" and isinstance(getattr(n, "ctx", None), ast.Load):
                    # str.format would let a format string reach attributes ({0.__class__}); only literal receivers are fine
                    n_sites += 1
                    ok = isinstance(n.value, ast.Constant) or m.name.endswith("babel")
                    _ob(obs, f"{m.name}:{qual}/site.str-format@{_ordinal(fn, n, ast.Attribute)}", ok, f"{ast.unparse(n)}: " + ("literal template / babel pattern API" if ok else "str.format on a non-literal"))
    _ob(obs, "liquid2/site.reflection.count", n_sites >= 20, f"{n_sites} reflective sites classified")
    # ---- the item getters touch data only through the documented protocol
    cm = repo.module("liquid2.context")
    allowed_attr = {"items", "__getitem_async__", "__liquid__"}
    allowed_call = {"isinstance", "hasattr", "len", "next", "iter", "_get_item", "islice", "itertools.islice"}
    for name in ("RenderContext.get_item", "RenderContext.get_item_async"):
        fn = cm.find(name) if cm else None
        bad = []
        if fn is None:
            bad.append("not found")
        else:
            for n in ast.walk(fn):
                if isinstance(n, ast.Attribute) and isinstance(n.value, ast.Name) and n.value.id in ("obj", "key") and n.attr not in allowed_attr:
                    bad.append(f"{ast.unparse(n)}@{n.lineno}")
                if isinstance(n, ast.Call) and any(isinstance(a, ast.Name) and a.id in ("obj", "key") for a in n.args):
                    fnm = ast.unparse(n.func)
                    if fnm not in allowed_call and not fnm.startswith("obj."):
                        bad.append(f"{fnm}(obj)@{n.lineno}")
        _ob(obs, f"liquid2.context:{name}/site.protocol-only", not bad,
            "data is reached only through obj[key], len, iteration of items(), isinstance and the __liquid__/__getitem_async__ hooks" if not bad else f"other access: {bad[:4]}")
    # ---- filter-side getters use operator.getitem / subscripts only
    for m in repo.all_modules():
        if not _is_filter_mod(m.name):
            continue
        for qual, cls, fn, parent in function_defs(m):
            if not fn.name.startswith("_getitem") and fn.name not in ("_getitem",):
                continue
            bad = []
            params = params_of(fn)
            for n in ast.walk(fn):
                if isinstance(n, ast.Attribute) and isinstance(n.value, ast.Name) and n.value.id in params and n.attr not in ("__getitem__",):
                    bad.append(f"{ast.unparse(n)}@{n.lineno}")
                if isinstance(n, ast.Call) and isinstance(n.func, ast.Name) and n.func.id in ("getattr", "vars"):
                    bad.append(f"{n.func.id}@{n.lineno}")
            _ob(obs, f"{m.name}:{qual}/site.getitem-only", not bad, "item getter uses obj[key] / operator.getitem only" if not bad else f"{bad[:4]}")
    # ---- translation messages are interpolated printf-style (no attribute access in the format language)
    for modname, qual in (("liquid2.builtin.filters.translate", "BaseTranslateFilter.format_message"), ("liquid2.builtin.tags.translate_tag", "TranslateNode._format_message")):
        m = repo.module(modname)
        fn = m.find(qual) if m else None
        ok = False
        if fn is not None:
            mods = [n for n in ast.walk(fn) if isinstance(n, ast.BinOp) and isinstance(n.op, ast.Mod)]
            fmts = [n for n in ast.walk(fn) if isinstance(n, ast.Attribute) and n.attr in ("format", "format_map", "substitute")]
            ok = bool(mods) and not fmts
        _ob(obs, f"{modname}:{qual}/site.printf-only", ok, "message % vars (printf-style): the format language has no attribute or index access")
    return {"obligations": obs, "samples": [{"obligation": o["oid"], "backend": "site", "note": o["note"]} for o in obs[:3]],
            "trusted": ["site enumeration: getattr/hasattr/setattr/delattr/vars/eval/exec/compile/__import__ calls, reflective dunder attributes, str.format"],
            "functions": [], "assumptions": ["C-level behaviour of obj[key] / len / iter on user classes is the user's own code"]}


def _is_filter_mod(name):
    return name.startswith("liquid2.builtin.filters") or name.startswith("liquid2.shopify.filters")


def _guarded_self_getattr(repo, m, cls, fn, call):
    """`if key in self._keys: return getattr(self, key)` with `_keys` a literal frozenset of the class's own public names."""
    if cls is None or len(call.args) != 2:
        return False, "by-name getattr outside a class"
    recv, name = call.args
    if not (isinstance(recv, ast.Name) and recv.id == "self" and isinstance(name, ast.Name)):
        return False, f"getattr({ast.unparse(recv)}, {ast.unparse(name)}): receiver is not `self` or name is computed"
    # dominating test
    guard = None
    for n in ast.walk(fn):
        if isinstance(n, ast.If) and any(x is call for x in ast.walk(ast.Module(body=n.body, type_ignores=[]))):
            t = n.test
            if isinstance(t, ast.Compare) and len(t.ops) == 1 and isinstance(t.ops[0], ast.In) and isinstance(t.left, ast.Name) and t.left.id == name.id:
                guard = ast.unparse(t.comparators[0])
    if guard is None or not guard.startswith("self."):
        return False, f"getattr(self, {name.id}) is not dominated by `{name.id} in self.<keys>`"
    c = m.classes.get(cls)
    keys = _frozenset_literal(c, guard.split(".", 1)[1]) if c else None
    if not keys:
        return False, f"{guard} is not a literal key set"
    # every key must be a plain public name defined by the class (slot, property or method)
    defined = set()
    for st in c.body:
        if isinstance(st, (ast.FunctionDef, ast.AsyncFunctionDef)):
            defined.add(st.name)
        if isinstance(st, ast.Assign) and any(isinstance(t, ast.Name) and t.id == "__slots__" for t in st.targets):
            for x in ast.walk(st.value):
                if isinstance(x, ast.Constant) and isinstance(x.value, str):
                    defined.add(x.value)
    bad = [k for k in keys if k.startswith("_") or k not in defined]
    return (not bad), (f"getattr(self, {name.id}) guarded by `{name.id} in {guard}`; {guard} = {sorted(keys)} are the class's own public helpers"
                       if not bad else f"{guard} contains {bad}: not public helpers of {cls}")


# --------------------------------------------------------------------------- C04
MARKUP_NAMES = {"Markup", "Markupsafe"}
ESCAPERS = {"markupsafe_escape", "escape"}
SAFE_ALPHABET_CALLS = {"urllib.parse.quote_plus": "percent-encoding output alphabet has no HTML-significant character"}
LINE_TERM_PATTERNS = {"RE_LINETERM"}


def _assignments_before(fn, site, name):
    """Straight-line assignments to `name` in the block containing `site`, before it (nearest last)."""
    for node in ast.walk(fn):
        for fld in ("body", "orelse", "finalbody"):
            body = getattr(node, fld, None)
            if not (isinstance(body, list) and body and isinstance(body[0], ast.stmt)):
                continue
            for i, st in enumerate(body):
                if any(x is site for x in ast.walk(st)):
                    prev = []
                    for p in body[:i]:
                        if isinstance(p, ast.Assign) and any(isinstance(t, ast.Name) and t.id == name for t in p.targets):
                            prev.append(p.value)
                        elif isinstance(p, ast.AnnAssign) and isinstance(p.target, ast.Name) and p.target.id == name and p.value is not None:
                            prev.append(p.value)
                    if prev:
                        return prev[-1], body, i
    return None, None, None


def _guard_of(fn, site):
    """Conjunction of `if` tests dominating `site` (text)."""
    tests = []

    def rec(body, acc):
        for st in body:
            if st is site or any(x is site for x in ast.walk(st)):
                if isinstance(st, ast.If):
                    if any(x is site for b in st.body for x in ast.walk(b)):
                        rec(st.body, acc + [ast.unparse(st.test)])
                    else:
                        rec(st.orelse, acc + ["not (" + ast.unparse(st.test) + ")"])
                elif isinstance(st, (ast.With, ast.For, ast.While, ast.Try)):
                    for fld in ("body", "orelse", "finalbody"):
                        rec(getattr(st, fld, []), acc)
                    for h in getattr(st, "handlers", []):
                        rec(h.body, acc)
                else:
                    tests.extend(acc)
                    return

    rec(fn.body, [])
    return tests


def _safe_expr(e, fn, site, depth=0):
    """(ok, reason) - is expression `e` a *safe* string at `site` (closure rules of DESIGN C04)?"""
    if depth > 6:
        return False, "too deep"
    if isinstance(e, ast.Constant) and isinstance(e.value, str):
        return True, "engine literal"
    if isinstance(e, ast.Call):
        fname = ast.unparse(e.func)
        if fname in ESCAPERS:
            return True, f"{fname}(...) escapes"
        if fname in SAFE_ALPHABET_CALLS:
            return True, SAFE_ALPHABET_CALLS[fname]
        if fname in MARKUP_NAMES and e.args:
            return _safe_expr(e.args[0], fn, site, depth + 1)
        if isinstance(e.func, ast.Attribute) and e.func.attr == "sub" and isinstance(e.func.value, ast.Name) and e.func.value.id in LINE_TERM_PATTERNS and len(e.args) == 2:
            lit, arg = e.args
            if isinstance(lit, ast.Constant) and isinstance(lit.value, str):
                ok, why = _safe_expr(arg, fn, site, depth + 1)
                return ok, f"line terminators replaced by engine literal {lit.value!r} in ({why})" if ok else why
        if fname == "to_liquid_string":
            kw = {k.arg: ast.unparse(k.value) for k in e.keywords}
            ae = kw.get("auto_escape", "")
            if ae in ("context.auto_escape", "auto_escape", "context.env.auto_escape", "self.auto_escape", "True"):
                return True, f"to_liquid_string(.., auto_escape={ae}) escapes everything that is not Markup"
            return False, f"to_liquid_string without auto_escape ({ae or 'default False'})"
        if fname == "str" and len(e.args) == 1 and isinstance(e.args[0], ast.Call) and ast.unparse(e.args[0].func) in ("context.increment", "context.decrement"):
            return True, "str(int) has no HTML-significant character"
        if fname in ("self._format_message", "self.format_message"):
            return True, "Markup % escaped variables (see the format_message obligation)"
        if fname == "context.env.trim":
            return _safe_expr(e.args[0], fn, site, depth + 1)
        if fname.endswith(".getvalue"):
            return True, "content of an output buffer: everything written to it went through a write-site obligation"
        return False, f"call {fname}(...) is not known to produce safe text"
    if isinstance(e, ast.JoinedStr):
        for v in e.values:
            if isinstance(v, ast.FormattedValue):
                t = ast.unparse(v.value)
                if t not in ("drop.col", "drop.row", "drop.row + 1", "drop.col + 1", "self.token.wc[0]", "self.token.wc[1]"):
                    return False, f"f-string interpolates {t}"
        return True, "engine markup with integer fields"
    if isinstance(e, ast.Attribute) and isinstance(e.value, ast.Name) and e.value.id == "self" and e.attr in ("text", "value"):
        return True, f"self.{e.attr}: template-author text fixed at parse time"
    if isinstance(e, ast.Name):
        src, body, idx = _assignments_before(fn, site, e.id)
        if src is not None:
            ok, why = _safe_expr(src, fn, site, depth + 1)
            return ok, f"{e.id} = {why}" if ok else f"{e.id} <- {why}"
        return False, f"`{e.id}` is not assigned from safe text before the site"
    return False, f"{type(e).__name__} not recognised as safe"


def _rendered_text_sites(repo_root):
    """Text the engine rendered into a buffer of its own (capture, block.super) and hands back as a *value* is the engine's own
    output: with auto-escape on it is marked safe, or printing it would escape it a second time."""
    repo = Repo(repo_root)
    obs = []
    n = 0
    for m, qual, cls, fn, parent in _all_functions(repo):
        bufs = {t.id for a in own_nodes(fn) if isinstance(a, ast.Assign) and isinstance(a.value, ast.Call) and isinstance(a.value.func, ast.Attribute)
                and a.value.func.attr == "get_output_buffer" for t in a.targets if isinstance(t, ast.Name)}
        if not bufs:
            continue
        parents = {id(ch): p for p in own_nodes(fn) for ch in ast.iter_child_nodes(p)}
        safe_return = False
        gets = [c for c in _calls(fn) if isinstance(c.func, ast.Attribute) and c.func.attr == "getvalue" and isinstance(c.func.value, ast.Name) and c.func.value.id in bufs
                and any(x is c for x in own_nodes(fn))]
        plain = []
        for c in gets:
            par = parents.get(id(c))
            wrapped = isinstance(par, ast.Call) and ((isinstance(par.func, ast.Attribute) and par.func.attr == "markup") or (isinstance(par.func, ast.Name) and "Markup" in par.func.id))
            if wrapped and isinstance(par.func, ast.Name):
                # Markup(buf.getvalue()) must be what is returned when auto-escape is on
                g = par
                while id(g) in parents and not isinstance(g, ast.If):
                    g = parents[id(g)]
                if isinstance(g, ast.If) and "auto_escape" in ast.unparse(g.test) and not isinstance(g.test, ast.UnaryOp) and any(x is par for st in g.body for x in ast.walk(st)):
                    safe_return = True
                    continue
                plain.append(c)
            elif not wrapped:
                plain.append(c)
        n += len(gets)
        ok = bool(gets) and (not plain or safe_return)
        _ob(obs, f"{m.name}:{qual}/site.rendered-text-is-safe", ok,
            f"{len(gets)} getvalue() of an own output buffer: passed through context.markup(..) / returned as Markup when auto-escape is on" if ok
            else f"`{ast.unparse(plain[0]) if plain else 'getvalue()'}` of the node's own output buffer is handed back as a plain string even when auto-escape is on: printing it escapes the already rendered text again")
    _ob(obs, "liquid2/site.rendered-text.count", n >= 4, f"{n} values read back from own output buffers")
    return obs


@register("C08")
def c08_super_safe(repo_root, tier):
    """`block.super` reproduces the parent's definition - also with auto-escape on, where the parent's rendered text must not be escaped again."""
    obs = [o for o in _rendered_text_sites(repo_root) if "BlockDrop" in o["oid"] or ".count" in o["oid"]]
    # an `extends` (or block) node nested in a control-flow block or a {% liquid %} tag is not blank: a blank flag there makes the
    # enclosing block render the whole chain into a discarding buffer
    obs += [o for o in c18_sites(repo_root, tier)["obligations"] if "extends_tag" in o["oid"] and "blank" in o["oid"]]
    return {"obligations": obs, "samples": [], "trusted": [], "functions": [], "assumptions": []}


@register("C04")
def c04_rendered_text(repo_root, tier):
    return {"obligations": _rendered_text_sites(repo_root), "samples": [], "trusted": [], "functions": [], "assumptions": []}


@register("C04")
def c04_sites(repo_root, tier):
    repo = Repo(repo_root)
    obs = []
    n_markup = n_write = 0
    for m in repo.all_modules():
        if m.name.endswith("filters.babel"):
            continue
        for qual, cls, fn, parent in function_defs(m):
            for n in own_nodes(fn):
                if not isinstance(n, ast.Call):
                    continue
                fname = ast.unparse(n.func)
                # ---- (1) Markup construction sites: the argument is safe under the path condition
                if fname in MARKUP_NAMES and n.args:
                    n_markup += 1
                    oid = f"{m.name}:{qual}/site.markup@{_ordinal(fn, n)}"
                    arg = n.args[0]
                    guards = _guard_of(fn, n)
                    gtxt = " and ".join(guards)
                    ok, why = _safe_expr(arg, fn, n)
                    if not ok:
                        # rules that depend on the guard
                        if "isinstance(val, Markup)" in gtxt and ast.unparse(arg) == "stripped":
                            ok, why = True, "input is already Markup (tags removed from author-approved markup)"
                        elif "isinstance(fmt, Markup)" in gtxt and ast.unparse(arg) == "rv":
                            ok, why = True, "strftime of a Markup format string (date fields carry no HTML-significant character)"
                        elif qual.split(".")[-1] in ("safe",) and m.name.endswith("filters.string"):
                            ok, why = True, "the explicit `safe` filter (excluded by the property)"
                        elif qual == "StringLiteral.evaluate" and ast.unparse(arg) == "self.value":
                            ok, why = True, "template-author string literal"
                        elif qual == "RenderContext.markup":
                            ok, why = True, "wraps captured output (callers checked below)"
                        elif ast.unparse(arg) in ("text", "message_text") and ("translate" in m.name):
                            ok, why = True, "catalog text (trusted); its message id is escaped when auto_escape_message (checked below)"
                        else:
                            # Markup(x).unescape(): the Markup never leaves the expression
                            par = _parent_attr(fn, n)
                            if par == "unescape":
                                ok, why = True, "Markup(val).unescape() yields a plain str that is escaped again on output"
                    _ob(obs, oid, ok, f"Markup({ast.unparse(arg)}) [{gtxt or 'unguarded'}]: {why}")
                # ---- (2) write sites
                if isinstance(n.func, ast.Attribute) and n.func.attr == "write" and ast.unparse(n.func.value) in ("buffer", "buf", "self.buffer") and n.args:
                    n_write += 1
                    oid = f"{m.name}:{qual}/site.write@{_ordinal(fn, n)}"
                    arg = n.args[0]
                    ok, why = _safe_expr(arg, fn, n)
                    if not ok and ast.unparse(arg) == "str(macro)":
                        ok, why = True, "str() of an Undefined: empty, or a debug message made of template-author names"
                    _ob(obs, oid, ok, f"write({ast.unparse(arg)[:80]}): {why}")
    _ob(obs, "liquid2/site.markup.count", n_markup >= 15 and n_write >= 20, f"{n_markup} Markup construction sites and {n_write} write sites classified")
    # ---- (3) callers of context.markup pass buffer content only
    bad = []
    k = 0
    for m, qual, cls, fn, parent in _all_functions(repo):
        for c in _calls(fn):
            if isinstance(c.func, ast.Attribute) and c.func.attr == "markup" and ast.unparse(c.func.value) == "context":
                k += 1
                if not (c.args and ast.unparse(c.args[0]).endswith(".getvalue()")):
                    bad.append(f"{m.name}:{qual}@{c.lineno}: markup({ast.unparse(c.args[0]) if c.args else ''})")
    _ob(obs, "liquid2/site.context-markup-callers", not bad and k > 0, f"{k} callers of context.markup, all wrap buffer content" if not bad else str(bad[:3]))
    # ---- (4) translation filters escape the message id whenever the environment auto-escapes
    bm = repo.module("liquid2.builtin")
    reg = bm.functions.get("register_default_tags_and_filters") if bm else None
    names = ("GetText", "NGetText", "NPGetText", "PGetText", "Translate")
    ok = False
    if reg is not None:
        found = 0
        for c in _calls(reg):
            if isinstance(c.func, ast.Name) and c.func.id in names:
                kw = {k_.arg: ast.unparse(k_.value) for k_ in c.keywords}
                if kw.get("auto_escape_message") == "env.auto_escape":
                    found += 1
        ok = found == len(names)
    _ob(obs, "liquid2.builtin:register_default_tags_and_filters/site.auto-escape-message", ok, "all five translation filters are registered with auto_escape_message=env.auto_escape")
    tm = repo.module("liquid2.builtin.filters.translate")
    for cname in names:
        fn = tm.find(f"{cname}.__call__") if tm else None
        ok = False
        if fn is not None:
            tls = [c for c in _calls(fn) if ast.unparse(c.func) == "to_liquid_string"]
            ok = bool(tls) and all({k_.arg: ast.unparse(k_.value) for k_ in c.keywords}.get("auto_escape") == "auto_escape and self.auto_escape_message" for c in tls)
        _ob(obs, f"liquid2.builtin.filters.translate:{cname}.__call__/site.message-id-escaped", ok, "every operand handed to the catalog is stringified with auto_escape=(auto_escape and self.auto_escape_message)")
    # ---- (5) string literals come from the parser only
    bad = []
    for m, qual, cls, fn, parent in _all_functions(repo):
        for c in _calls(fn):
            if isinstance(c.func, ast.Name) and c.func.id == "StringLiteral":
                top = qual.split(".")[0] if cls is None else qual.split(".")[1]
                if not (top.startswith("parse") or top in ("__init__",)):
                    bad.append(f"{m.name}:{qual}@{c.lineno}")
    _ob(obs, "liquid2/site.string-literals-from-parser", not bad, "StringLiteral objects are built only by parse functions (from template tokens)" if not bad else str(bad[:4]))
    return {"obligations": obs, "samples": [{"obligation": o["oid"], "backend": "site", "note": o["note"]} for o in obs[:3]],
            "trusted": ["markupsafe: escape() output has no unescaped < > & ' \"; Markup operators (+ % join replace ...) escape non-Markup operands",
                        "urllib.parse.quote_plus output alphabet; datetime.strftime fields; html.parser for strip_tags"],
            "functions": [], "assumptions": ["translation catalogs and template literals are trusted text"]}


def _parent_attr(fn, call):
    for n in ast.walk(fn):
        if isinstance(n, ast.Attribute) and n.value is call:
            return n.attr
    return None


# --------------------------------------------------------------------------- C20
@register("C20")
def c20_sites(repo_root, tier):
    repo = Repo(repo_root)
    obs = []
    em = repo.module("liquid2.builtin.expressions")
    # (1) every place that turns a string token into a value applies the decoder (after \' -> ' for single quotes)
    n_sites = 0
    for m, qual, cls, fn, parent in _all_functions(repo):
        if not (m.name.startswith("liquid2.builtin") or m.name.startswith("liquid2.shopify")):
            continue
        for n in own_nodes(fn):
            # is_token_type(tok, TokenType.DOUBLE_QUOTE_STRING / SINGLE_QUOTE_STRING) guards
            if isinstance(n, ast.If):
                t = ast.unparse(n.test)
                for kind in ("DOUBLE_QUOTE_STRING", "SINGLE_QUOTE_STRING"):
                    if f"TokenType.{kind})" in t and "is_token_type(" in t and " or " not in t and " and " not in t:
                        n_sites += 1
                        body = ast.unparse(ast.Module(body=n.body, type_ignores=[]))
                        uses_value = ".value" in body
                        ok = (not uses_value) or ("unescape(" in body and (kind == "DOUBLE_QUOTE_STRING" or "replace(\"\\\\'\", \"'\")" in body))
                        _ob(obs, f"{m.name}:{qual}/site.string-literal-decoded@{_ordinal(fn, n, ast.If)}.{kind}", ok,
                            f"{kind} token value " + ("is decoded with unescape()" + (" after \\' -> '" if kind == "SINGLE_QUOTE_STRING" else "") if ok else "is used without unescape()"))
            # a test that accepts either quote kind (`is_token_type(t, SINGLE..) or is_token_type(t, DOUBLE..)`)
            if isinstance(n, ast.If):
                t = ast.unparse(n.test)
                if "TokenType.DOUBLE_QUOTE_STRING)" in t and "TokenType.SINGLE_QUOTE_STRING)" in t and " or " in t and "is_token_type(" in t:
                    n_sites += 1
                    body = ast.unparse(ast.Module(body=n.body, type_ignores=[]))
                    raw = [c for st in n.body for c in ast.walk(st) if isinstance(c, ast.Call) and ast.unparse(c.func) == "StringLiteral"
                           and any(ast.unparse(a).endswith(".value") for a in list(c.args) + [k.value for k in c.keywords])]
                    decoders = ("unescape(", "parse_string_or_identifier(", "parse_string_or_path(", "parse_primitive(")
                    ok = not raw and (("StringLiteral(" not in body and ".value" not in body) or any(d in body for d in decoders))
                    # a direct unescape() of a token that may be single-quoted must first turn \\' into ' (unescape knows no \\' escape)
                    if ok and "unescape(" in body and not any(d in body for d in decoders[1:]) and "replace(\"\\\\'\", \"'\")" not in body:
                        ok = False
                    _ob(obs, f"{m.name}:{qual}/site.string-literal-decoded@{_ordinal(fn, n, ast.If)}.EITHER_QUOTE", ok,
                        "a string token of either quote kind is turned into a value through a decoder" if ok else "a StringLiteral is built from the raw token text (escape sequences are not decoded)")
    _ob(obs, "liquid2/site.string-literal-sites.count", n_sites >= 8, f"{n_sites} string-literal parse sites found")
    # (2) the lexer keeps the raw text of bracketed string segments, decoded where the path is built
    # (3) integer literals: exact conversion, no float()
    fn = em.functions.get("_parse_int_literal") if em else None
    ok = False
    note = "_parse_int_literal not found (integer literals parsed some other way)"
    if fn is not None:
        calls = {ast.unparse(c.func) for c in _calls(fn)}
        # exact integer arithmetic only: to_int of the digit strings and an integer power of ten - no float, Decimal (context
        # precision!), round or string formatting in between
        allowed = {"to_int", "len", "LiquidValueError", "token.value.lower().partition", "token.value.lower", "token.value.partition"}
        rets = [ast.unparse(r.value) for r in ast.walk(fn) if isinstance(r, ast.Return) and r.value is not None]
        exact = all(r in ("to_int(digits)", "to_int(digits) * 10 ** exp", "to_int(digits) * 10 ** to_int(exponent)") for r in rets) and len(rets) >= 2
        ok = "to_int" in calls and calls <= allowed and exact
        note = ("integer literals are converted digit-exactly (to_int of the digits, times an integer power of ten), with exact integer arithmetic only" if ok
                else f"_parse_int_literal calls {sorted(calls - allowed)} / returns {rets}: not plainly exact integer arithmetic")
    _ob(obs, "liquid2.builtin.expressions:_parse_int_literal/site.exact-int", ok, note)
    int_sites = 0
    bad = []
    for m, qual, cls, fn2, parent in _all_functions(repo):
        for c in _calls(fn2):
            if isinstance(c.func, ast.Name) and c.func.id == "IntegerLiteral" and len(c.args) == 2:
                int_sites += 1
                if ast.unparse(c.args[1]) != "_parse_int_literal(token)":
                    bad.append(f"{m.name}:{qual}@{c.lineno}: IntegerLiteral(.., {ast.unparse(c.args[1])})")
    _ob(obs, "liquid2/site.integer-literal-sites", not bad and int_sites >= 2, f"{int_sites} IntegerLiteral construction sites, all via _parse_int_literal" if not bad else str(bad[:3]))
    # (4) float literals: float(token.value) (Python's own correctly rounded conversion)
    fsites = [c for m, qual, cls, fn2, parent in _all_functions(repo) for c in _calls(fn2) if isinstance(c.func, ast.Name) and c.func.id == "FloatLiteral" and len(c.args) == 2]
    ok = bool(fsites) and all(ast.unparse(c.args[1]) == "float(token.value)" for c in fsites)
    _ob(obs, "liquid2/site.float-literal-sites", ok, f"{len(fsites)} FloatLiteral sites use float(token.value)")
    # (5) the json filter hands its input to json.dumps unchanged
    mm = repo.module("liquid2.builtin.filters.misc")
    fn = mm.find("JSON.__call__") if mm else None
    ok = False
    if fn is not None:
        dumps = [c for c in _calls(fn) if ast.unparse(c.func) == "json.dumps"]
        ok = bool(dumps) and all(c.args and ast.unparse(c.args[0]) == "left" for c in dumps)
    _ob(obs, "liquid2.builtin.filters.misc:JSON.__call__/site.dumps-unchanged", ok, "json.dumps(left, ...) is applied to the filter input itself")
    return {"obligations": obs, "samples": [{"obligation": o["oid"], "backend": "site", "note": o["note"]} for o in obs[:2]],
            "trusted": ["json.dumps / json.loads are inverse on JSON-like values (library contract)", "float(str) is correctly rounded (CPython)"],
            "functions": [], "assumptions": ["replacing \\' by ' in a single-quoted literal preserves the pre-unit structure (no \\\\' can occur inside it)"]}


# --------------------------------------------------------------------------- C08
@register("C08")
def c08_sites(repo_root, tier):
    repo = Repo(repo_root)
    obs = []
    m = repo.module("liquid2.builtin.tags.extends_tag")
    fn = m.find("BlockTag.parse") if m else None
    ok = False
    if fn is not None:
        for n in own_nodes(fn):
            if isinstance(n, ast.If) and ast.unparse(n.test) == "end_block_name != block_name":
                ok = any(isinstance(x, ast.Raise) and "TemplateInheritanceError" in ast.unparse(x) for x in n.body)
    _ob(obs, "liquid2.builtin.tags.extends_tag:BlockTag.parse/site.endblock-name", ok, "an `endblock <name>` that differs from the block's name raises TemplateInheritanceError")
    # _find_inheritance_nodes is a full pre-order walk: every node of the template, at any depth, is classified
    fn = m.find("_find_inheritance_nodes") if m else None
    ok = False
    if fn is not None:
        visit = next((st for st in fn.body if isinstance(st, ast.FunctionDef)), None)
        root = [st for st in fn.body if isinstance(st, ast.For) and ast.unparse(st.iter) == "template.nodes"]
        if visit is not None and len(root) == 1:
            vname, p0 = visit.name, visit.args.args[0].arg
            top = [ast.unparse(st).replace("\n", " ") for st in _body_wo_doc(visit)]
            want_b = any(t.replace("  ", " ").startswith(f"if isinstance({p0}, BlockNode): block_nodes.append({p0})") or t == f"if isinstance({p0}, BlockNode):     block_nodes.append({p0})" for t in top)
            import re as _r
            norm = [_r.sub(r"\s+", " ", t) for t in top]
            want_b = f"if isinstance({p0}, BlockNode): block_nodes.append({p0})" in norm
            want_e = f"if isinstance({p0}, ExtendsNode): extends_nodes.append({p0})" in norm
            rec = [st for st in visit.body if isinstance(st, ast.For) and ast.unparse(st.iter).startswith(f"{p0}.children(")]
            want_r = len(rec) == 1 and len(rec[0].body) == 1 and ast.unparse(rec[0].body[0]).startswith(f"{vname}({ast.unparse(rec[0].target)}")
            rb = root[0].body
            want_root = len(rb) == 1 and ast.unparse(rb[0]).startswith(f"{vname}({ast.unparse(root[0].target)}")
            no_exit = not any(isinstance(n, (ast.Return, ast.Break, ast.Continue)) for n in ast.walk(visit))
            ok = want_b and want_e and want_r and want_root and no_exit
    _ob(obs, "liquid2.builtin.tags.extends_tag:_find_inheritance_nodes/site.full-preorder-walk", ok,
        "every node of the template, at any nesting depth, is visited; each BlockNode and each ExtendsNode visited is collected (so a nested second `extends` is counted)")
    # StopRender ends the child after the base has rendered: only Template.render_with_context[_async] catches it, by `break`
    tm = repo.module("liquid2.template")
    for name in ("render_with_context", "render_with_context_async"):
        fn = tm.find(f"Template.{name}") if tm else None
        ok = False
        if fn is not None:
            for n in ast.walk(fn):
                if isinstance(n, ast.ExceptHandler) and n.type is not None and ast.unparse(n.type) == "StopRender":
                    ok = len(n.body) == 1 and isinstance(n.body[0], ast.Break)
        _ob(obs, f"liquid2.template:Template.{name}/site.stop-render", ok, "StopRender stops the rendering of the remaining nodes of the (child) template and nothing else")
    catchers = []
    for mm, qual, cls, fn2, parent in _all_functions(repo):
        for n in own_nodes(fn2):
            if isinstance(n, ast.ExceptHandler) and n.type is not None and "StopRender" in ast.unparse(n.type):
                catchers.append(f"{mm.name}:{qual}")
    _ob(obs, "liquid2/site.stop-render-catchers", sorted(catchers) == ["liquid2.template:Template.render_with_context", "liquid2.template:Template.render_with_context_async"],
        f"StopRender is caught only by {sorted(catchers)}")
    # the exception classes are inheritance errors
    em = repo.module("liquid2.exceptions")
    for cname, base in (("TemplateInheritanceError", "LiquidError"), ("RequiredBlockError", "TemplateInheritanceError")):
        c = em.classes.get(cname) if em else None
        ok = c is not None and base in class_bases(repo, em, cname)
        _ob(obs, f"liquid2.exceptions:{cname}/site.class", ok, f"{cname} derives from {base}")
    return {"obligations": obs, "samples": [], "trusted": [], "functions": [],
            "assumptions": ["composition (argued, DESIGN Appendix B): the walk pushes the definitions leaf first, so index 0 of a stack is the most-derived definition and `parent` links lead towards the base",
                            "_store_blocks is proved for templates with one and with two blocks (loop unrolled); block names are distinct per template (proved in _stack_blocks)"],
            "not_covered": ["text outside blocks in child templates is discarded: follows from StopRender (proved) and Template.render_with_context (site)"]}


# --------------------------------------------------------------------------- C18
def _assigns(fn, name):
    """[(value_src, ast.Assign)] for `name = ...` statements in fn."""
    out = []
    for n in own_nodes(fn):
        if isinstance(n, ast.Assign) and len(n.targets) == 1 and ast.unparse(n.targets[0]) == name:
            out.append((ast.unparse(n.value), n))
    out.sort(key=lambda x: x[1].lineno)
    return out


def _count_steers(repo_root):
    """How many characters a block wrote (which trimming and blank suppression change) never decides what is rendered next: in
    the render methods of every node no condition mentions a variable that holds the return value of a render()/write() call."""
    from .sites_c11 import node_classes
    repo = Repo(repo_root)
    obs = []
    n = 0
    for m, c in node_classes(repo, "Node"):
        for fn in [st for st in c.body if isinstance(st, (ast.FunctionDef, ast.AsyncFunctionDef)) and st.name in ("render_to_output", "render_to_output_async")]:
            counts = set()
            for x in own_nodes(fn):
                tgt = val = None
                if isinstance(x, ast.Assign) and len(x.targets) == 1:
                    tgt, val = x.targets[0], x.value
                elif isinstance(x, ast.AugAssign):
                    tgt, val = x.target, x.value
                if isinstance(tgt, ast.Name) and val is not None and any(
                        isinstance(cc, ast.Call) and isinstance(cc.func, ast.Attribute) and (cc.func.attr.startswith("render") or cc.func.attr == "write") for cc in ast.walk(val)):
                    counts.add(tgt.id)
            if not counts:
                continue
            n += 1
            bad = [f"`{ast.unparse(g.test)}` (line {g.lineno})" for g in own_nodes(fn) if isinstance(g, (ast.If, ast.While, ast.IfExp))
                   and any(isinstance(y, ast.Name) and y.id in counts for y in ast.walk(g.test))]
            _ob(obs, f"{m.name}:{c.name}.{fn.name}/site.output-size-steers-nothing", not bad,
                f"the character counts {sorted(counts)} are only accumulated and returned" if not bad
                else f"the condition {bad[0]} depends on how many characters a block wrote: a block trimmed or suppressed to nothing changes which branch runs")
    _ob(obs, "liquid2/site.render-counts.count", n >= 10, f"{n} render methods that accumulate character counts")
    return obs


@register("C18")
def c18_count_steers(repo_root, tier):
    return {"obligations": _count_steers(repo_root), "samples": [], "trusted": [], "functions": [], "assumptions": []}


@register("C01")
def c01_count_steers(repo_root, tier):
    return {"obligations": _count_steers(repo_root), "samples": [], "trusted": [], "functions": [], "assumptions": []}


@register("C18")
def c18_block_trim(repo_root, tier):
    """The text that starts a block is trimmed by the marker of the tag that opens *that* block. parse_block() records the marker
    of every tag it stops at (stream.trim_carry); a tag parser that reaches `when`/`else`/.. any other way sets it from that tag."""
    repo = Repo(repo_root)
    obs = []
    n = 0

    def has_call(node, name):
        return any(isinstance(c, ast.Call) and ((isinstance(c.func, ast.Name) and c.func.id == name) or (isinstance(c.func, ast.Attribute) and c.func.attr == name)) for c in ast.walk(node))

    for m, qual, cls, fn, parent in _all_functions(repo):
        if fn.name != "parse" or ".tags." not in m.name:
            continue
        for body in [b for x in ast.walk(fn) for b in (getattr(x, "body", None), getattr(x, "orelse", None)) if isinstance(b, list)]:
            for idx, st in enumerate(body):
                if not (isinstance(st, (ast.While, ast.If)) and has_call(st.test, "is_tag") and any(has_call(x, "parse_block") for x in st.body)):
                    continue
                n += 1
                # reached straight from a parse_block() that stopped at this tag?
                carried = False
                for prev in reversed(body[:idx]):
                    if has_call(prev, "parse_block"):
                        carried = True
                        break
                    if isinstance(prev, (ast.Assign, ast.AnnAssign, ast.Assert)) and not has_call(prev, "next") and not has_call(prev, "into_inner"):
                        continue
                    if isinstance(prev, (ast.While, ast.If)) and has_call(prev.test, "is_tag") and any(has_call(x, "parse_block") for x in prev.body):
                        continue   # an optional alternative before this one; keep looking
                    break
                explicit = False
                for x in st.body:
                    if has_call(x, "parse_block"):
                        break
                    if isinstance(x, ast.Assign) and any(ast.unparse(t) == "stream.trim_carry" for t in x.targets) and ast.unparse(x.value).endswith(".wc[-1]"):
                        explicit = True
                ok = carried or explicit
                _ob(obs, f"{m.name}:{qual}/site.block-trim-from-own-tag@{_ordinal(fn, st)}", ok,
                    f"`{ast.unparse(st.test)}`: " + ("reached from a parse_block() that stopped at (and recorded the marker of) this tag" if carried and not explicit else "stream.trim_carry is set from the tag's own right-hand marker before its block is parsed") if ok
                    else f"`{ast.unparse(st.test)}` is not reached from parse_block() and does not set stream.trim_carry: the block's first text is trimmed by the marker of an earlier tag")
    _ob(obs, "liquid2/site.alternative-blocks.count", n >= 8, f"{n} alternative blocks (elsif/else/when/plural) in tag parsers")
    return {"obligations": obs, "samples": [], "trusted": [], "functions": [], "assumptions": []}


@register("C18")
def c18_marker_classes(repo_root, tier):
    """The three whitespace-control markers are interchangeable as far as *recognition* goes: every character class of the lexer's
    patterns that stands for `an optional marker` admits all of `-`, `+` and `~` (a tag that is recognised with one marker and not
    with another changes more than whitespace when the marker is changed)."""
    import re as _re
    repo = Repo(repo_root)
    obs = []
    m = repo.module("liquid2.lexer")
    n = 0
    bad = []
    for c in ast.walk(m.tree) if m else []:
        if isinstance(c, ast.Constant) and isinstance(c.value, str):
            for mt in _re.finditer(r"\[((?:\\.|[^\]\\])+)\]", c.value):
                cls_ = mt.group(1)
                chars = set(_re.sub(r"\\(.)", r"\1", cls_))
                # an unescaped `-` between two members is a range (`[+-~]` is every character from + to ~), not the marker `-`
                is_range = bool(_re.search(r"(?<!\\)(?<!^)-(?!$)", cls_)) and not cls_.startswith("\\-")
                if is_range and chars <= {"-", "+", "~"}:
                    chars = {"<range>"} | chars
                before, after = c.value[max(0, mt.start() - 24):mt.start()], c.value[mt.end():mt.end() + 12]
                at_delim = any(d in before for d in ("{%", "{{", "#+)")) or any(d in after for d in ("%\\}", "\\}\\}", "(?P=HASHES)"))
                if chars and chars <= {"-", "+", "~", "<range>"} and ("~" in chars or at_delim):
                    n += 1
                    if chars != {"-", "+", "~"}:
                        bad.append(f"line {c.lineno}: [{cls_}] in {c.value[:40]!r}")
    _ob(obs, "liquid2.lexer/site.marker-classes-complete", not bad and n >= 15,
        f"{n} marker character classes, each admits - + and ~" if not bad and n >= 15 else f"marker class without all three markers: {bad[:2] or n}")
    return {"obligations": obs, "samples": [], "trusted": [], "functions": [], "assumptions": []}


@register("C18")
def c18_sites(repo_root, tier):
    repo = Repo(repo_root)
    obs = []
    pm = repo.module("liquid2.parser")
    # (1) parser carry: the left trim of a content node is the right marker of the markup token just before it
    for name, initial in (("parse", "default_trim"), ("parse_block", "stream.trim_carry")):
        fn = pm.find(f"Parser.{name}") if pm else None
        if fn is None:
            _ob(obs, f"liquid2.parser:Parser.{name}/site.trim-carry", False, "not found")
            continue
        loop = next((n for n in own_nodes(fn) if isinstance(n, ast.While)), None)
        lt = _assigns(fn, "left_trim")
        init_ok = bool(lt) and lt[0][0] == initial and (loop is None or lt[0][1].lineno < loop.lineno)
        _ob(obs, f"liquid2.parser:Parser.{name}/site.trim-carry.initial", init_ok, f"left_trim starts as {initial}")
        branches = {}
        if loop is not None:
            cur = next((s for s in loop.body if isinstance(s, ast.If)), None)
            while cur is not None:
                branches[ast.unparse(cur.test)] = cur.body
                nxt = cur.orelse[0] if len(cur.orelse) == 1 and isinstance(cur.orelse[0], ast.If) else None
                cur = nxt

        def body_src(key):
            return [ast.unparse(s) for s in branches.get(key, [])]

        content = body_src("is_content_token(token)")
        ok = content[:2] == ["nodes.append(content.parse(stream, left_trim=left_trim))", "left_trim = default_trim"]
        _ob(obs, f"liquid2.parser:Parser.{name}/site.trim-carry.content", ok, "content gets the carried left trim, which then falls back to the default")
        for key, what in (("is_comment_token(token)", "comment"), ("is_raw_token(token)", "raw"), ("is_output_token(token)", "output"), ("is_lines_token(token)", "lines")):
            b = body_src(key)
            ok = bool(b) and b[0] == "left_trim = token.wc[-1]"
            _ob(obs, f"liquid2.parser:Parser.{name}/site.trim-carry.{what}", ok, f"after a {what} token the carried trim is that token's right marker")
        tag = body_src("is_tag_token(token)")
        ok = bool(tag) and tag[0] == "stream.trim_carry = token.wc[-1]" and tag[-1] == "left_trim = stream.trim_carry"
        _ob(obs, f"liquid2.parser:Parser.{name}/site.trim-carry.tag", ok, "a tag publishes its right marker in stream.trim_carry before it parses and the carry is read back afterwards")
    # block tags leave trim_carry = right marker of their end tag: every parse_block caller is followed by expect_tag / reads
    # (2) Content.parse: the right trim is the left marker of the next markup token
    cm = repo.module("liquid2.builtin.content")
    fn = cm.find("Content.parse") if cm else None
    ok = False
    if fn is not None:
        src = ast.unparse(fn)
        ok = ("right_trim = WhitespaceControl.DEFAULT" in src and "peeked = stream.peek()" in src and "right_trim = peeked.wc[0]" in src
              and "left_trim=left_trim" in src and "right_trim=right_trim" in src)
    _ob(obs, "liquid2.builtin.content:Content.parse/site.right-trim", ok, "right trim = left marker (wc[0]) of the following markup token, DEFAULT at end of input")
    fn = cm.find("ContentNode.render_to_output") if cm else None
    ok = fn is not None and "buffer.write(context.env.trim(self.text, self.left_trim, self.right_trim))" in ast.unparse(fn)
    _ob(obs, "liquid2.builtin.content:ContentNode.render_to_output/site.trim-only", ok, "literal text reaches the output through Environment.trim(text, left, right) and nothing else")
    # (3) blank soundness: a node that writes to the buffer itself is not blank (unless what it writes is whitespace)
    for m in repo.all_modules():
        for cname, c in m.classes.items():
            bases = class_bases(repo, m, cname)
            if "Node" not in bases[1:] and cname != "Node":
                continue
            writes = False
            for meth in ("render_to_output", "render_to_output_async"):
                fn = next((st for st in c.body if isinstance(st, (ast.FunctionDef, ast.AsyncFunctionDef)) and st.name == meth), None)
                if fn is None:
                    continue
                for call in _calls(fn):
                    if isinstance(call.func, ast.Attribute) and call.func.attr == "write" and ast.unparse(call.func.value) in ("buffer", "buf", "_buffer"):
                        writes = True
                    # ... or hands its output buffer to something that is not one of its own child nodes (a loaded template, a
                    # macro's block, a parent's block): what that writes is not covered by the children's blank flags either
                    if isinstance(call.func, ast.Attribute) and call.func.attr.startswith("render") \
                            and any(isinstance(a, ast.Name) and a.id == "buffer" for a in list(call.args) + [k.value for k in call.keywords]):
                        own = {"self"}      # names that hold the node itself or (elements of) its own fields
                        for _ in range(3):
                            for x in ast.walk(fn):
                                tv = None
                                if isinstance(x, ast.Assign) and len(x.targets) == 1:
                                    tv = (x.targets[0], x.value)
                                elif isinstance(x, (ast.For, ast.AsyncFor)):
                                    tv = (x.target, x.iter)
                                elif isinstance(x, ast.comprehension):
                                    tv = (x.target, x.iter)
                                if tv and any(isinstance(y, ast.Name) and y.id in own for y in ast.walk(tv[1])) \
                                        and not any(isinstance(y, ast.Call) for y in ast.walk(tv[1])):
                                    own |= {y.id for y in ast.walk(tv[0]) if isinstance(y, ast.Name)}
                        root = call.func.value
                        while isinstance(root, (ast.Attribute, ast.Subscript)):
                            root = root.value
                        if not (isinstance(root, ast.Name) and root.id in own):
                            writes = True
            if not writes:
                continue
            init = next((st for st in c.body if isinstance(st, ast.FunctionDef) and st.name == "__init__"), None)
            blank_src = None
            if init is not None:
                for n in own_nodes(init):
                    if isinstance(n, ast.Assign) and ast.unparse(n.targets[0]) == "self.blank":
                        blank_src = ast.unparse(n.value)
            ok = blank_src == "False" or blank_src == "not text or text.isspace()"
            _ob(obs, f"{m.name}:{cname}/site.blank-sound", ok,
                f"{cname} writes to the buffer and sets blank = {blank_src}" if ok else f"{cname} writes to the buffer but keeps blank = {blank_src or 'True (default)'}")
    # (4) suppression writes nothing else: ast.BlockNode renders its children into a NullIO and returns 0
    am = repo.module("liquid2.ast")
    for meth in ("render_to_output", "render_to_output_async"):
        fn = am.find(f"BlockNode.{meth}") if am else None
        ok = False
        if fn is not None:
            first = _body_wo_doc(fn)[0]
            if isinstance(first, ast.If) and isinstance(first.test, ast.BoolOp) and isinstance(first.test.op, ast.And) \
                    and sorted(ast.unparse(v) for v in first.test.values) == ["context.env.suppress_blank_control_flow_blocks", "self.blank"]:
                b = [ast.unparse(s) for s in first.body]
                uses_buffer = any("buffer" in s for s in b)
                ok = b[0] == "buf = NullIO()" and b[-1] == "return 0" and not uses_buffer
        _ob(obs, f"liquid2.ast:BlockNode.{meth}/site.suppression", ok, "a suppressed blank block renders its children into a NullIO (side effects kept) and writes nothing")
    # (5) blank of composite nodes is the conjunction of their children's
    tm = repo.module("liquid2.ast")
    fn = tm.find("BlockNode.__init__") if tm else None
    ok = fn is not None and "self.blank = all((node.blank for node in nodes))" in ast.unparse(fn)
    _ob(obs, "liquid2.ast:BlockNode.__init__/site.blank-all-children", ok, "BlockNode.blank = all(child.blank)")
    # (5b) a node that renders child blocks into the output buffer is blank only if every one of them is
    from .sites_c11 import _methods, Roots, node_classes
    for m, c in node_classes(repo, "Node"):
        meth = _methods(repo, m, c)
        rendered = {}
        for mn in ("render_to_output", "render_to_output_async"):
            if mn not in meth or meth[mn][1].name != c.name:
                continue
            fn = meth[mn][2]
            bufname = fn.args.args[2].arg if len(fn.args.args) > 2 else "buffer"
            roots = Roots(fn, meth)
            for call in ast.walk(fn):
                if isinstance(call, ast.Call) and isinstance(call.func, ast.Attribute) and call.func.attr in ("render", "render_async") \
                        and any(isinstance(a, ast.Name) and a.id == bufname for a in call.args):
                    for f in roots.of(call.func.value):
                        rendered.setdefault(f, call.lineno)
        if not rendered:
            continue
        init = next((st for st in c.body if isinstance(st, ast.FunctionDef) and st.name == "__init__"), None)
        expr = None
        for n in (ast.walk(init) if init else []):
            if isinstance(n, ast.Assign) and ast.unparse(n.targets[0]) == "self.blank":
                expr = n.value
        if expr is None:
            _ob(obs, f"{m.name}:{c.name}/site.blank-covers-rendered-children", False, f"{c.name} renders {sorted(rendered)} into the output buffer but never sets self.blank (default True)")
            continue
        if isinstance(expr, ast.Constant) and expr.value is False:
            continue
        # fields whose `.blank` the expression consults: X.blank with X rooted at the field (parameter, self.field or a loop variable over it)
        iroots = Roots(init, meth, seed={a.arg: {a.arg} for a in init.args.args[1:] + init.args.kwonlyargs})
        consulted = set()
        for n in ast.walk(expr):
            if isinstance(n, ast.Attribute) and n.attr == "blank":
                consulted |= iroots.of(n.value)
        miss = sorted(f for f in rendered if f not in consulted)
        _ob(obs, f"{m.name}:{c.name}/site.blank-covers-rendered-children", not miss,
            f"blank = {ast.unparse(expr)[:90]} consults every block rendered into the output ({sorted(rendered)})" if not miss
            else f"{c.name} renders self.{miss[0]} into the output buffer but blank = {ast.unparse(expr)[:90]} does not consult {miss[0]}.blank")
    # (6) markers are read only by the lexer/parser, Content, Raw, trim and the serialisers
    bad = []
    allowed_fn = {"parse", "parse_block", "__str__", "__init__", "trim", "_expression_as_string", "_tag_as_line_statement"}
    for m, qual, cls, fn2, parent in _all_functions(repo):
        if m.name in ("liquid2.lexer", "liquid2.token", "liquid2.parser", "liquid2.stream"):
            continue
        top = qual.split(".")[-1] if parent is None else qual.split(".")[-2]
        for n in own_nodes(fn2):
            if isinstance(n, ast.Attribute) and n.attr in ("wc", "left_trim", "right_trim", "trim_carry", "default_trim") and isinstance(n.ctx, ast.Load):
                if top in allowed_fn or (cls == "ContentNode" and top == "render_to_output") or m.name == "liquid2.environment":
                    continue
                bad.append(f"{m.name}:{qual}@{n.lineno} reads .{n.attr}")
    _ob(obs, "liquid2/site.markers-only-feed-trim", not bad, "whitespace-control markers are read only by the lexer, parser, Content/Raw parsing, Environment.trim and __str__" if not bad else str(bad[:4]))
    return {"obligations": obs, "samples": [{"obligation": o["oid"], "backend": "site", "note": o["note"]} for o in obs[:2]],
            "trusted": ["str.strip/lstrip/rstrip remove only whitespace (resp. the given characters) from the ends"],
            "functions": [], "assumptions": ["`only whitespace differs` for a whole template is the composition of these facts, argued in DESIGN.md, not machine-checked"],
            "not_covered": ["tags that keep stream.trim_carry up to date while parsing their own block are checked only through the parser pattern"]}


# --------------------------------------------------------------------------- C12
import re as _re


def _fstring_literal(fn):
    """Concatenated literal text of every f-string / string constant in a __str__ method."""
    out = []
    for n in ast.walk(fn):
        if isinstance(n, ast.JoinedStr):
            out.append("".join(v.value if isinstance(v, ast.Constant) else "\x00" for v in n.values))
        elif isinstance(n, ast.Constant) and isinstance(n.value, str):
            out.append(n.value)
    return out


def _tag_registrations(repo):
    """[(key, TagClassName, module)] from register_default_tags_and_filters and Environment.setup_tags_and_filters."""
    regs = []
    for m in repo.all_modules():
        for qual, cls, fn, parent in function_defs(m):
            if fn.name not in ("register_default_tags_and_filters", "setup_tags_and_filters"):
                continue
            for n in own_nodes(fn):
                if isinstance(n, ast.Assign) and isinstance(n.targets[0], ast.Subscript) and ast.unparse(n.targets[0].value) in ("env.tags", "self.tags"):
                    key = n.targets[0].slice
                    if isinstance(key, ast.Constant) and isinstance(n.value, ast.Call) and isinstance(n.value.func, ast.Name):
                        regs.append((key.value, n.value.func.id, m))
    return regs


@register("C12")
def c12_wc_pairs(repo_root, tier):
    """A tag is printed with its own whitespace-control markers: inside one `{%..%}` / `{{..}}` of a __str__ the left marker
    (<tok>.wc[0]) and the right marker (<tok>.wc[1]) are read from the same token."""
    import re as _re
    repo = Repo(repo_root)
    obs = []
    n_pairs = 0
    for m, qual, cls, fn, parent in _all_functions(repo):
        if fn.name != "__str__" or cls is None:
            continue
        alias = {}
        for a in own_nodes(fn):
            if isinstance(a, ast.Assign) and len(a.targets) == 1 and isinstance(a.targets[0], ast.Name):
                alias[a.targets[0].id] = None if a.targets[0].id in alias else a.value   # a name bound twice is not an alias

        def src(e):
            e2 = e
            if isinstance(e, ast.Subscript) and isinstance(e.value, ast.Name) and alias.get(e.value.id) is not None:
                return f"{ast.unparse(alias[e.value.id])}[{ast.unparse(e.slice)}]"
            return ast.unparse(e2)

        joined = sorted([j for j in own_nodes(fn) if isinstance(j, ast.JoinedStr)], key=lambda j: (j.lineno, j.col_offset))
        if not joined:
            continue
        open_ = None
        bad = []
        pairs = 0
        for j in joined:
            for v in j.values:
                if not isinstance(v, ast.FormattedValue):
                    continue
                t = src(v.value)
                m0 = _re.fullmatch(r"(.+)\.wc\[0\]", t)
                m1 = _re.fullmatch(r"(.+)\.wc\[1\]", t)
                if m0:
                    open_ = m0.group(1)
                elif m1:
                    pairs += 1
                    if open_ is not None and open_ != m1.group(1):
                        bad.append(f"line {v.value.lineno}: left marker of `{open_}`, right marker of `{m1.group(1)}`")
                    open_ = None
        if pairs:
            n_pairs += pairs
            _ob(obs, f"{m.name}:{qual}/site.wc-markers-of-one-token", not bad,
                f"{pairs} printed tags: both markers of each come from one token" if not bad
                else f"a tag is printed with markers of two different tokens ({bad[0]}): the reparsed template trims differently")
    _ob(obs, "liquid2/site.wc-pairs.count", n_pairs >= 40, f"{n_pairs} printed marker pairs")
    return {"obligations": obs, "samples": [], "trusted": [], "functions": [], "assumptions": []}


@register("C12")
def c12_sites(repo_root, tier):
    repo = Repo(repo_root)
    obs = []
    regs = _tag_registrations(repo)
    _ob(obs, "liquid2/site.tag-registrations.count", len(regs) >= 20, f"{len(regs)} tag registrations found")
    for key, tagcls, m in regs:
        if key.startswith("__"):
            continue
        r = repo.resolve_name(m, tagcls)
        if not r or r[0] != "class":
            _ob(obs, f"liquid2/site.tag-name.{key}", False, f"tag class {tagcls} not resolved")
            continue
        tm, tc = r[1], r[2]
        # node class
        node_cls = None
        for st in tc.body:
            if isinstance(st, ast.Assign) and ast.unparse(st.targets[0]) == "node_class":
                node_cls = ast.unparse(st.value)
        pfn0 = next((st for st in tc.body if isinstance(st, ast.FunctionDef) and st.name == "parse"), None)
        if node_cls is None and pfn0 is not None:
            # `return XNode(...)` in parse()
            for n in ast.walk(pfn0):
                if isinstance(n, ast.Return) and isinstance(n.value, ast.Call) and isinstance(n.value.func, ast.Name) and n.value.func.id.endswith("Node"):
                    node_cls = n.value.func.id
        nr = repo.resolve_name(tm, node_cls) if node_cls else None
        if not nr or nr[0] != "class":
            _ob(obs, f"{tm.name}:{tagcls}/site.tag-name", False, f"node_class of {tagcls} not found")
            continue
        nm, nc = nr[1], nr[2]
        sfn = next((st for st in nc.body if isinstance(st, ast.FunctionDef) and st.name == "__str__"), None)
        if sfn is None:
            _ob(obs, f"{nm.name}:{nc.name}.__str__/site.tag-name", False, f"{nc.name} has no __str__")
            continue
        lits = _fstring_literal(sfn)
        text = " ".join(lits)
        opens = _re.findall(r"\{%\x00 ([a-z_]+)", text)
        ok = bool(opens) and opens[0] == key
        _ob(obs, f"{nm.name}:{nc.name}.__str__/site.tag-name", ok,
            f"str() opens the tag as `{{% {opens[0] if opens else '?'}` and it is registered as {key!r}")
        # end tag: every `end<word>` printed must be one the tag's parse() expects / stops at
        printed_ends = set(_re.findall(r"\{%\x00 (end[a-z_]+)", text))
        expected = set()
        pfn = next((st for st in tc.body if isinstance(st, ast.FunctionDef) and st.name == "parse"), None)
        for st in tc.body:
            if isinstance(st, ast.Assign) and ast.unparse(st.targets[0]) in ("end_block", "end", "end_tag"):
                expected |= {x.value for x in ast.walk(st.value) if isinstance(x, ast.Constant) and isinstance(x.value, str)}
        if pfn is not None:
            for c in _calls(pfn):
                if isinstance(c.func, ast.Attribute) and c.func.attr in ("expect_tag", "parse_block"):
                    expected |= {x.value for x in ast.walk(c) if isinstance(x, ast.Constant) and isinstance(x.value, str)}
        if printed_ends:
            ok = printed_ends <= expected
            _ob(obs, f"{nm.name}:{nc.name}.__str__/site.end-tag-name", ok,
                f"end tags printed {sorted(printed_ends)}; parse() expects {sorted(e for e in expected if e.startswith('end'))}")
    # (b) every field a node's render reads is printed by its __str__
    for m in repo.all_modules():
        for cname, c in m.classes.items():
            bases = class_bases(repo, m, cname)
            if not any(b in ("Node", "Expression") for b in bases[1:]):
                continue
            sfn = next((st for st in c.body if isinstance(st, ast.FunctionDef) and st.name == "__str__"), None)
            run = [st for st in c.body if isinstance(st, (ast.FunctionDef, ast.AsyncFunctionDef)) and st.name in ("render_to_output", "evaluate")]
            if sfn is None or not run:
                continue
            slots = set()
            for st in c.body:
                if isinstance(st, ast.Assign) and ast.unparse(st.targets[0]) == "__slots__":
                    slots = {x.value for x in ast.walk(st.value) if isinstance(x, ast.Constant) and isinstance(x.value, str)}
            used = {n.attr for f in run for n in ast.walk(f) if isinstance(n, ast.Attribute) and isinstance(n.value, ast.Name) and n.value.id == "self" and n.attr in slots}
            printed = {n.attr for n in ast.walk(sfn) if isinstance(n, ast.Attribute) and isinstance(n.value, ast.Name) and n.value.id == "self"}
            # derived / positional fields that carry no syntax of their own
            ignore = {"token", "end_tag_token", "blank", "cycle_hash", "leading_whitespace",
                      # whitespace-control markers of a content node are printed by the neighbouring markup
                      "left_trim", "right_trim"}
            if cname == "_AnyExpression":
                ignore |= {"left"}      # the `case` subject: printed once, by CaseNode
            if cname == "LiquidNode":
                ignore |= {"block"}     # a {% liquid %} tag prints its own token (line statements keep their layout)
            missing = sorted(used - printed - ignore)
            _ob(obs, f"{m.name}:{cname}.__str__/site.prints-used-fields", not missing,
                f"{cname}.__str__ prints every field its evaluation reads" if not missing else f"{cname}.__str__ does not print {missing}")
    # (c) grammar facts of individual serialisers
    em = repo.module("liquid2.builtin.expressions")
    fn = em.find("Null.__str__") if em else None
    ok = fn is not None and any(isinstance(n, ast.Return) and isinstance(n.value, ast.Constant) and n.value.value in ("nil", "null") for n in ast.walk(fn))
    _ob(obs, "liquid2.builtin.expressions:Null.__str__/site.keyword", ok, "nil is printed as a keyword the lexer reads back as nil")
    fn = em.find("Filter.__str__") if em else None
    ok = False
    if fn is not None:
        joins = [c for c in _calls(fn) if isinstance(c.func, ast.Attribute) and c.func.attr == "join" and isinstance(c.func.value, ast.Constant)]
        ok = bool(joins) and all(c.func.value.value.strip() == "," for c in joins)
    _ob(obs, "liquid2.builtin.expressions:Filter.__str__/site.argument-separator", ok, "filter arguments are printed separated by commas")
    def _quoting_ok(fn):
        """Text segments are printed bare / dotted only under RE_PROPERTY.fullmatch(seg); quoted text is produced by
        _escape_string(seg, q) between two q's (Liquid escapes) and never by Python's repr()."""
        if fn is None:
            return False, "not found"
        src = ast.unparse(fn)
        if "!r}" in src or any(isinstance(c, ast.Call) and isinstance(c.func, ast.Name) and c.func.id == "repr" for c in ast.walk(fn)):
            return False, "a string is printed with Python's repr(): `${`, \\xNN and \\UNNNNNNNN are not what the Liquid lexer reads back"
        tests = [ast.unparse(n.test) for n in ast.walk(fn) if isinstance(n, ast.If)]
        if any("RE_PROPERTY.match(" in t or "RE_PROPERTY.search(" in t for t in tests):
            return False, "a segment is tested with a partial match of RE_PROPERTY"
        esc = [c for c in ast.walk(fn) if isinstance(c, ast.Call) and isinstance(c.func, ast.Name) and c.func.id == "_escape_string"]
        for j in [j for j in ast.walk(fn) if isinstance(j, ast.JoinedStr)]:
            vals = [v for v in j.values if isinstance(v, ast.FormattedValue)]
            for k, v in enumerate(vals):
                if isinstance(v.value, ast.Call) and v.value in esc:
                    q = ast.unparse(v.value.args[1]) if len(v.value.args) > 1 else None
                    if not (0 < k < len(vals) - 1 and ast.unparse(vals[k - 1].value) == q and ast.unparse(vals[k + 1].value) == q):
                        return False, "escaped text is not enclosed by the quote character it was escaped for"
        return True, ""

    fn = em.find("Path.__str__") if em else None
    ok, why = _quoting_ok(fn)
    if ok:
        tests = [ast.unparse(n.test) for n in ast.walk(fn) if isinstance(n, ast.If)]
        n_esc = sum(1 for c in ast.walk(fn) if isinstance(c, ast.Call) and isinstance(c.func, ast.Name) and c.func.id == "_escape_string")
        ok = sum(1 for t in tests if t.startswith("RE_PROPERTY.fullmatch(")) >= 2 and n_esc >= 2 and "isinstance(root, str)" in tests
        why = "root and later segments are not both tested with RE_PROPERTY.fullmatch and quoted through _escape_string"
    _ob(obs, "liquid2.builtin.expressions:Path.__str__/site.root-quoting", ok,
        "a text segment (the root included) is printed bare only if RE_PROPERTY.fullmatch; otherwise in brackets, quoted with Liquid escapes; a root that is a nested path or an index keeps its brackets" if ok else why)
    # a bare root must not spell a word the lexer reads as something else: every keyword of the lexer's KEYWORD_MAP, `empty`, `blank`
    lm = repo.module("liquid2.lexer")
    kw = set()
    for n in ast.walk(lm.tree) if lm else []:
        if isinstance(n, ast.AnnAssign) and isinstance(n.target, ast.Name) and n.target.id == "KEYWORD_MAP" and isinstance(n.value, ast.Dict):
            kw = {k.value for k in n.value.keys if isinstance(k, ast.Constant)}
    reserved = set()
    for n in ast.walk(em.tree) if em else []:
        if isinstance(n, ast.Assign) and len(n.targets) == 1 and isinstance(n.targets[0], ast.Name) and n.targets[0].id == "_RESERVED_WORDS":
            reserved = {c.value for c in ast.walk(n.value) if isinstance(c, ast.Constant) and isinstance(c.value, str)}
    fn = em.find("Path.__str__") if em else None
    okr = fn is not None and bool(kw) and (kw | {"empty", "blank"}) <= reserved and any(
        isinstance(t, ast.If) and "RE_PROPERTY.fullmatch(root)" in ast.unparse(t.test) and "root not in _RESERVED_WORDS" in ast.unparse(t.test) for t in ast.walk(fn))
    _ob(obs, "liquid2.builtin.expressions:Path.__str__/site.keyword-root-quoted", okr,
        f"a root is printed bare only if it is a property name and none of the {len(kw) + 2} reserved words (the lexer's keywords, empty, blank)" if okr
        else f"a root that spells a keyword ({sorted((kw | {'empty', 'blank'}) - reserved)[:3] or 'nil, for, ..'}) is printed bare: `['nil']` is read back as the literal nil")
    # a float literal is read back as a float: its text has a fractional part (repr() of 1e16 is '1e+16', an INT token with an exponent)
    fn = em.find("FloatLiteral.__str__") if em else None
    okf = fn is not None and "partition('e')" in ast.unparse(fn) and "'.' not in" in ast.unparse(fn)
    _ob(obs, "liquid2.builtin.expressions:FloatLiteral.__str__/site.float-text-has-fraction", okf,
        "a float whose repr has an exponent but no fractional part gets `.0` inserted" if okf
        else "FloatLiteral prints repr(value): 1.0e16 is printed as 1e+16, which the lexer reads as an integer literal")
    # operands of comparison / membership operators that are logical expressions (or, on the right, comparisons) are parenthesised
    cmp_classes = ("EqExpression", "NeExpression", "LeExpression", "GeExpression", "LtExpression", "GtExpression", "ContainsExpression", "InExpression")
    badc = []
    for cn in cmp_classes:
        fn = em.find(f"{cn}.__str__") if em else None
        src = ast.unparse(fn) if fn is not None else ""
        if not ("_operand(self.left)" in src and "_operand(self.right, right=True)" in src):
            badc.append(cn)
    fn = em.find("_operand") if em else None
    oks = fn is not None and all(k in ast.unparse(fn) for k in ("LogicalAndExpression", "LogicalOrExpression", "LogicalNotExpression", "BooleanExpression(")) and all(k in ast.unparse(fn) for k in cmp_classes) \
        and not any(isinstance(t, ast.If) and any(isinstance(n, ast.Name) and n.id == "right" for n in ast.walk(t.test)) for t in ast.walk(fn))   # on either side
    _ob(obs, "liquid2.builtin.expressions/site.comparison-operands-parenthesised", not badc and oks,
        "every comparison prints its operands through _operand(): logical operands (and comparisons on the right) in parentheses" if not badc and oks
        else f"{badc or '_operand'}: operands are printed bare, `(a or b) == c` becomes `a or b == c`")
    fn = em.find("Identifier.as_source") if em else None
    oka = fn is not None and "_escape_string(str(self), \"'\")" in ast.unparse(fn) and "replace(" not in ast.unparse(fn)
    _ob(obs, "liquid2.builtin.expressions:Identifier.as_source/site.quoted-with-literal-escapes", oka,
        "a quoted identifier is written as ' + _escape_string(text, \"'\") + '" if oka else "a quoted identifier is escaped by hand: `${` inside it is printed bare and read back as an interpolation")
    # a one-item array literal is an array only by its trailing comma
    fn = em.find("ArrayLiteral.__str__") if em else None
    oka = fn is not None and any(isinstance(t, ast.If) and ast.unparse(t.test) == "len(self.items) == 1" and any(
        isinstance(r, ast.Return) and isinstance(r.value, ast.JoinedStr) and ast.unparse(r.value).rstrip("'\"").endswith(",") for r in ast.walk(t)) for t in ast.walk(fn))
    _ob(obs, "liquid2.builtin.expressions:ArrayLiteral.__str__/site.single-item-trailing-comma", oka,
        "a one-item array literal is printed with its trailing comma" if oka else "a one-item array literal `a,` is printed as `a`, which is the item itself")
    # an optional *name* (a string that may be empty) is printed whenever it is present: tested with `is not None`, not by truthiness
    n_opt = 0
    from .sites_c11 import node_classes as _ncs
    for m_, c_ in _ncs(repo, "Node"):
        init = next((st for st in c_.body if isinstance(st, ast.FunctionDef) and st.name == "__init__"), None)
        sfn = next((st for st in c_.body if isinstance(st, ast.FunctionDef) and st.name == "__str__"), None)
        if init is None or sfn is None:
            continue
        opt_names = {a.arg for a in init.args.args + init.args.kwonlyargs if a.annotation is not None and "None" in ast.unparse(a.annotation)
                     and any(k in ast.unparse(a.annotation) for k in ("str", "Identifier"))}
        # ... where the class tells an empty name from an absent one (the name is part of a hash / key); a field that is only ever
        # used as `self.f or default` treats '' like None, and dropping it changes nothing
        keyed = {n for n in opt_names if any(isinstance(h, ast.Call) and isinstance(h.func, ast.Name) and h.func.id == "hash"
                                              and any(isinstance(x, ast.Attribute) and x.attr == n for x in ast.walk(h)) for h in ast.walk(c_))}
        opt_names = keyed
        for t in ast.walk(sfn):
            if isinstance(t, (ast.If, ast.IfExp)) and isinstance(t.test, ast.Attribute) and isinstance(t.test.value, ast.Name) and t.test.value.id == "self" and t.test.attr in opt_names:
                n_opt += 1
                _ob(obs, f"{m_.name}:{c_.name}.__str__/site.optional-name-by-presence.{t.test.attr}", False,
                    f"`if self.{t.test.attr}` decides whether the name is printed: an empty name ('' is a valid quoted name) is dropped and the tag reparses as the unnamed form")
            elif isinstance(t, (ast.If, ast.IfExp)) and ast.unparse(t.test) in {f"self.{n} is not None" for n in opt_names}:
                n_opt += 1
                _ob(obs, f"{m_.name}:{c_.name}.__str__/site.optional-name-by-presence.{ast.unparse(t.test).split()[0][5:]}", True, "the optional name is printed whenever it is not None")
    _ob(obs, "liquid2/site.optional-names.count", n_opt >= 1, f"{n_opt} optional names in node serialisers")
    for cn in ("StringLiteral", "TemplateString"):
        fn = em.find(f"{cn}.__str__") if em else None
        okq, why = _quoting_ok(fn)
        okq = okq and any(isinstance(c, ast.Call) and isinstance(c.func, ast.Name) and c.func.id == "_escape_string" for c in ast.walk(fn))
        _ob(obs, f"liquid2.builtin.expressions:{cn}.__str__/site.liquid-string-syntax", okq,
            f"{cn} is printed as quote + _escape_string(text, quote) + quote (contract of _escape_string: it decodes back to the text)" if okq else (why or "does not print its text through _escape_string"))
    # (d) logical expressions: operands are printed under their operator's own precedence, a lower-precedence operand and every
    #     nested negation are parenthesised (the parser gives `not` everything to its right)
    fn = em.find("BooleanExpression.__str__") if em else None
    ok = False
    if fn is not None:
        inner = next((st for st in fn.body if isinstance(st, ast.FunctionDef)), None)
        if inner is not None:
            nm, pp = inner.name, inner.args.args[1].arg
            src = ast.unparse(inner)
            ok = (src.count(f"left = {nm}(expression.left, precedence)") == 2 and src.count(f"right = {nm}(expression.right, precedence)") == 2
                  and "precedence = PRECEDENCE_LOGICAL_AND" in src and "precedence = PRECEDENCE_LOGICAL_OR" in src
                  and f"if precedence < {pp}:\n        return f'({{expr}})'" in src
                  and f"if {pp} > 0:\n            return f'({{expr}})'" in src
                  and ast.unparse(fn.body[-1]) == f"return {nm}(self.expression, 0)")
    _ob(obs, "liquid2.builtin.expressions:BooleanExpression.__str__/site.logical-parentheses", ok,
        "and/or operands are printed under the operator's own precedence; lower-precedence operands and nested negations get parentheses")
    # (d1) the parentheses are produced by BooleanExpression.__str__ only: every other expression class whose parser takes a
    #      logical expression (parse_boolean_primitive) as a part - an arrow function's body - prints that part through it
    n_bool = 0
    if em is not None:
        for cname, c in em.classes.items():
            if cname in ("BooleanExpression", "LogicalNotExpression", "LogicalAndExpression", "LogicalOrExpression"):
                continue
            pf = next((st for st in c.body if isinstance(st, ast.FunctionDef) and st.name == "parse"), None)
            if pf is None or not any(isinstance(x, ast.Call) and isinstance(x.func, ast.Name) and x.func.id == "parse_boolean_primitive" for x in ast.walk(pf)):
                continue
            n_bool += 1
            sf = next((st for st in c.body if isinstance(st, ast.FunctionDef) and st.name == "__str__"), None)
            okb = sf is not None and any(isinstance(x, ast.Call) and isinstance(x.func, ast.Name) and x.func.id == "BooleanExpression" for x in ast.walk(sf))
            _ob(obs, f"liquid2.builtin.expressions:{cname}.__str__/site.logical-part-printed-with-parentheses", okb,
                f"{cname} prints its logical sub-expression through BooleanExpression.__str__" if okb
                else f"{cname}.parse takes a logical expression (parentheses allowed) but __str__ prints it with the operators' bare __str__: `(a or b) and c` is printed as `a or b and c`")
    _ob(obs, "liquid2.builtin.expressions/site.logical-parts.count", n_bool >= 1, f"{n_bool} expression classes with a logical sub-expression")
    # (d2) a field parsed with parse_string_or_identifier (a word *or* a quoted string) is printed through Identifier.as_source()
    n_ident = 0
    for key, tagcls, m in regs:
        r = repo.resolve_name(m, tagcls)
        if not r or r[0] != "class":
            continue
        tm, tc = r[1], r[2]
        pfn = next((st for st in tc.body if isinstance(st, ast.FunctionDef) and st.name == "parse"), None)
        if pfn is None:
            continue
        idents = set()
        for n in ast.walk(pfn):
            # the local *is* the Identifier (not a value derived from it, e.g. StringLiteral(value=str(parse_string_or_identifier(t))))
            if isinstance(n, (ast.Assign, ast.AnnAssign)) and isinstance(n.value, ast.Call) and ast.unparse(n.value.func) == "parse_string_or_identifier":
                tgt = n.targets[0] if isinstance(n, ast.Assign) else n.target
                if isinstance(tgt, ast.Name):
                    idents.add(tgt.id)
        if not idents:
            continue
        # which node fields receive them
        for call in [c for c in ast.walk(pfn) if isinstance(c, ast.Call) and (ast.unparse(c.func) == "self.node_class" or ast.unparse(c.func).endswith("Node"))]:
            ncname = None
            if ast.unparse(call.func) == "self.node_class":
                for st in tc.body:
                    if isinstance(st, ast.Assign) and ast.unparse(st.targets[0]) == "node_class":
                        ncname = ast.unparse(st.value)
            else:
                ncname = ast.unparse(call.func)
            nr = repo.resolve_name(tm, ncname) if ncname else None
            if not nr or nr[0] != "class":
                continue
            nc = nr[2]
            init = next((st for st in nc.body if isinstance(st, ast.FunctionDef) and st.name == "__init__"), None)
            sfn = next((st for st in nc.body if isinstance(st, ast.FunctionDef) and st.name == "__str__"), None)
            if init is None or sfn is None:
                continue
            params = [a.arg for a in init.args.args[1:]]
            passed = {}
            for i, a in enumerate(call.args):
                if isinstance(a, ast.Name) and a.id in idents and i < len(params):
                    passed[params[i]] = a.id
            for k in call.keywords:
                if isinstance(k.value, ast.Name) and k.value.id in idents:
                    passed[k.arg] = k.value.id
            for pname in passed:
                fld = None
                for st in ast.walk(init):
                    if isinstance(st, ast.Assign) and isinstance(st.value, ast.Name) and st.value.id == pname and isinstance(st.targets[0], ast.Attribute):
                        fld = st.targets[0].attr
                if fld is None:
                    continue
                n_ident += 1
                bare = [ast.unparse(v.value) for v in ast.walk(sfn) if isinstance(v, ast.FormattedValue) and ast.unparse(v.value) == f"self.{fld}"]
                quoted = [1 for v in ast.walk(sfn) if isinstance(v, ast.FormattedValue) and ast.unparse(v.value) == f"self.{fld}.as_source()"]
                okq = not bare and bool(quoted)
                _ob(obs, f"{nr[1].name}:{nc.name}.__str__/site.identifier-quoted.{fld}", okq,
                    f"self.{fld} (a word or a quoted string in the source) is printed with as_source()" if okq else f"self.{fld} may have been written as a quoted string but is printed bare")
    _ob(obs, "liquid2/site.identifier-fields.count", n_ident >= 8, f"{n_ident} identifier fields found")
    # ... and the other direction: a module whose nodes print names through as_source() (so possibly quoted) reads every name
    # token back with parse_string_or_identifier - a bare-word-only parse_identifier() rejects what __str__ wrote (endblock 'a b')
    for m in repo.all_modules():
        if ".tags." not in m.name:
            continue
        src_has_as_source = any(isinstance(c, ast.Call) and isinstance(c.func, ast.Attribute) and c.func.attr == "as_source" for c in ast.walk(m.tree))
        if not src_has_as_source:
            continue
        bare = [c.lineno for c in ast.walk(m.tree) if isinstance(c, ast.Call) and isinstance(c.func, ast.Name) and c.func.id == "parse_identifier"]
        _ob(obs, f"{m.name}/site.quoted-names-read-back", not bare,
            "names that are printed through as_source() are parsed with parse_string_or_identifier everywhere in the module" if not bare
            else f"parse_identifier() (bare words only) at line {bare[0]} in a module that prints names through as_source(): a quoted name written by __str__ is rejected on reparse")
    fn = em.find("Identifier.as_source") if em else None
    ok = fn is not None and "if is_token_type(self.token, TokenType.WORD):\n    return str(self)" in ast.unparse(fn).replace("\n        ", "\n    ")
    _ob(obs, "liquid2.builtin.expressions:Identifier.as_source/site.bare-only-if-word", ok, "an identifier is printed bare only if it was lexed as a WORD token; otherwise quoted with backslash and quote escaped")
    # (g) PathToken.__str__ (used when a {% liquid %} tag is serialised): a string segment is written in dotted form only if the
    #     *whole* segment is a property name, otherwise in bracket-quote form
    tkm = repo.module("liquid2.token")
    fn = tkm.find("PathToken.__str__") if tkm else None
    okp = False
    if fn is not None:
        from .frame import significant_body
        body = significant_body(fn)
        # either the path's own source text (the token's span of the source: exactly what was lexed) ...
        okp = len(body) == 1 and isinstance(body[0], ast.Return) and ast.unparse(body[0].value) == "self.source[self.start:self.stop]"
        if not okp:
            # ... or rebuilt under the quoting rule of Path.__str__
            okp, _w = _quoting_ok(fn)
            okp = okp and any(ast.unparse(n.test).startswith("RE_PROPERTY.fullmatch(") for n in ast.walk(fn) if isinstance(n, ast.If))
    _ob(obs, "liquid2.token:PathToken.__str__/site.segment-quoting", okp, "a path token is printed as the span of source text it was lexed from (or rebuilt with whole-segment RE_PROPERTY tests and Liquid-escaped quoted segments)")
    # (f) pickling: a class whose __new__ takes required keyword-only arguments tells pickle about them (the default protocol
    #     re-creates the object with cls.__new__(cls, *args) only); node and expression classes are plain slotted objects
    for m in repo.all_modules():
        for cname, c in m.classes.items():
            newfn = next((st for st in c.body if isinstance(st, ast.FunctionDef) and st.name == "__new__"), None)
            if newfn is None:
                continue
            req_kw = [a.arg for a, d in zip(newfn.args.kwonlyargs, newfn.args.kw_defaults) if d is None]
            if not req_kw:
                continue
            has = any(isinstance(st, ast.FunctionDef) and st.name in ("__getnewargs_ex__", "__reduce__", "__reduce_ex__") for st in c.body)
            srcr = ""
            for st in c.body:
                if isinstance(st, ast.FunctionDef) and st.name == "__getnewargs_ex__":
                    srcr = ast.unparse(st)
            okp = has and all(f"'{k}'" in srcr or f'"{k}"' in srcr for k in req_kw) if srcr else has
            _ob(obs, f"{m.name}:{cname}/site.picklable-new", okp,
                f"{cname}.__new__ requires keyword-only {req_kw}; the class passes them to pickle through __getnewargs_ex__" if okp
                else f"{cname}.__new__ requires keyword-only {req_kw} but the class defines no __getnewargs_ex__/__reduce__: unpickling a template that contains one fails")
    # (e) a branch tag is printed whenever the branch exists (its markers trim neighbouring text even when its block is empty)
    for mn, cn in (("liquid2.builtin.tags.if_tag", "IfNode"), ("liquid2.builtin.tags.unless_tag", "UnlessNode"), ("liquid2.builtin.tags.case_tag", "CaseNode"), ("liquid2.builtin.tags.for_tag", "ForNode")):
        m2 = repo.module(mn)
        fn = m2.find(f"{cn}.__str__") if m2 else None
        ok = fn is not None
        tests = []
        if fn is not None:
            for n in ast.walk(fn):
                if isinstance(n, (ast.If, ast.IfExp)) and "default" in ast.unparse(n.test):
                    tests.append(ast.unparse(n.test))
            ok = bool(tests) and all(t in ("self.default", "self.default is not None") for t in tests)
        _ob(obs, f"{mn}:{cn}.__str__/site.else-printed-when-present", ok,
            f"the else branch is printed exactly when it exists ({tests})" if ok else f"the else branch is printed under {tests}: an existing but empty branch would lose its tag and whitespace control")
    return {"obligations": obs, "samples": [{"obligation": o["oid"], "backend": "site", "note": o["note"]} for o in obs[:2]],
            "trusted": [], "functions": [],
            "assumptions": [],
            "not_covered": ["parse(str(t)) == t in general, whitespace-control fidelity of every serialiser, and pickling (no function of the repository implements pickling: nothing to put a contract on)"]}


# --------------------------------------------------------------------------- C15
@register("C15")
def c15_sites(repo_root, tier):
    """(A) relational lemma: the family looked up at run time (run_family) and the family reported (static_family) - the two
    specification functions the translate contracts pin the code to - agree on every combination of literal operands.
    (B) site obligations over the extraction visitor in liquid2/messages.py and the render methods of the translate tag."""
    from contracts.c_translate import run_family, static_family
    repo = Repo(repo_root)
    obs = []
    # ---- (A) `t` filter: all operands present are literals; count is absent / None-like at run time / a usable number
    for ctx in ("absent", "literal"):
        for plural in ("absent", "literal"):
            for count in ("absent", "none-at-run-time", "number"):
                run = run_family(plural == "literal", count == "number", ctx == "literal")
                stat = static_family(plural == "literal", ctx == "literal")
                oid = f"liquid2.builtin.filters.translate:Translate/lemma.family[context={ctx},plural={plural},count={count}]"
                _ob(obs, oid, run == stat, f"render looks up {run}, extraction reports {stat}", backend="lemma",
                    witness=None if run == stat else _c15_program(
                        "{{ 'one' | t: " + ", ".join(x for x in ("'ctx'" if ctx == "literal" else "", "plural: 'many'" if plural == "literal" else "",
                                                               "" if count == "absent" else ("count: nil" if count != "number" else "count: 2")) if x) + " }}", run, stat))
    # ---- (A') translate tag: count is never None at run time (resolve_count contract), context literal (non-empty / empty) or absent
    for pb in (False, True):
        for ctx in ("absent", "literal", "empty-literal"):
            run = run_family(pb, True, ctx == "literal")
            stat = static_family(pb, ctx == "literal")
            _ob(obs, f"liquid2.builtin.tags.translate_tag:TranslateNode/lemma.family[plural_block={pb},context={ctx}]", run == stat,
                f"render looks up {run}, extraction reports {stat}", backend="lemma")
    # ---- (B) render hands gettext() the resolved count and context
    tm = repo.module("liquid2.builtin.tags.translate_tag")
    for meth in ("render_to_output", "render_to_output_async"):
        fn = tm.find(f"TranslateNode.{meth}") if tm else None
        ok = False
        if fn is not None:
            src = [ast.unparse(s) for s in _body_wo_doc(fn)]
            ok = ("count = self.resolve_count(context, namespace)" in src and "message_context = self.resolve_message_context(context, namespace)" in src
                  and any(s.startswith("message_text = self.gettext(translations, count=count, message_context=message_context)") for s in src)
                  and sum(1 for c in _calls(fn) if isinstance(c.func, ast.Attribute) and c.func.attr in ("gettext", "ngettext", "pgettext", "npgettext")) == 1)
        _ob(obs, f"liquid2.builtin.tags.translate_tag:TranslateNode.{meth}/site.single-lookup", ok,
            "render makes its one catalog lookup through self.gettext(translations, count=resolve_count(..), message_context=resolve_message_context(..))")
    # catalog functions are called nowhere else in the package
    extra = []
    for m, qual, cls, fn2, parent in _all_functions(repo):
        for c in _calls(fn2):
            if isinstance(c.func, ast.Attribute) and c.func.attr in ("gettext", "ngettext", "pgettext", "npgettext") and ast.unparse(c.func.value) != "self":
                if (m.name, (qual.split(".")[0])) in (("liquid2.builtin.filters.translate", "Translate"), ("liquid2.builtin.filters.translate", "GetText"),
                                                      ("liquid2.builtin.filters.translate", "NGetText"), ("liquid2.builtin.filters.translate", "PGetText"),
                                                      ("liquid2.builtin.filters.translate", "NPGetText"), ("liquid2.builtin.tags.translate_tag", "TranslateNode")):
                    continue
                extra.append(f"{m.name}:{qual}@{c.lineno}")
    _ob(obs, "liquid2/site.catalog-lookups-only-under-contract", not extra,
        "every *gettext call of the package is in a function under contract" if not extra else f"catalog lookups outside the contracts: {extra[:4]}")
    # ---- (B) the extraction visitor
    mm = repo.module("liquid2.messages")
    ext = mm.find("extract_from_template") if mm else None
    if ext is None:
        _ob(obs, "liquid2.messages:extract_from_template/site.found", False, "not found")
        return {"obligations": obs, "samples": [], "trusted": [], "functions": [], "assumptions": []}
    inner = {st.name: st for st in ext.body if isinstance(st, ast.FunctionDef)}
    visit, vexp = inner.get("visit"), inner.get("visit_expression")
    # never fails on an empty template
    src = ast.unparse(ext)
    guarded = all(_guarded_by(ext, n, "template.nodes") for n in ast.walk(ext)
                  if isinstance(n, ast.Subscript) and ast.unparse(n.value) == "template.nodes")
    _ob(obs, "liquid2.messages:extract_from_template/site.empty-template", guarded, "template.nodes[..] is indexed only where `template.nodes` is known to be non-empty")
    # root loop: every root node's expressions and the node itself are visited
    root = [st for st in ext.body if isinstance(st, ast.For) and ast.unparse(st.iter) == "template.nodes"]
    ok = len(root) == 1 and _visits_expressions_and_node(root[0], ast.unparse(root[0].target))
    _ob(obs, "liquid2.messages:extract_from_template/site.visits-every-root-node", ok, "for node in template.nodes: each of node.expressions() goes to visit_expression and node goes to visit")
    ok = False
    if visit is not None:
        loops = [st for st in visit.body if isinstance(st, ast.For) and isinstance(st.iter, ast.Call) and ast.unparse(st.iter.func) == "node.children"]
        ok = len(loops) == 1 and _visits_expressions_and_node(loops[0], ast.unparse(loops[0].target))
    _ob(obs, "liquid2.messages:extract_from_template.visit/site.visits-every-child", ok, "for child in node.children(..): each of child.expressions() goes to visit_expression and child goes to visit")
    ok = False
    if visit is not None:
        # translatable tags: every message of node.messages() is yielded with the line number it carries
        for n in ast.walk(visit):
            if isinstance(n, ast.For) and ast.unparse(n.iter) == "node.messages()":
                tgt = ast.unparse(n.target)
                ys = [y for y in ast.walk(n) if isinstance(y, ast.Yield)]
                ok = tgt == "(lineno, funcname, message)" and len(ys) == 1 and ast.unparse(ys[0].value).startswith("MessageTuple(lineno=lineno, funcname=funcname, message=message,")
    _ob(obs, "liquid2.messages:extract_from_template.visit/site.yields-tag-messages", ok, "every MessageText of a translatable tag is yielded with its own lineno, funcname and message")
    ok = False
    if vexp is not None:
        rec = [st for st in vexp.body if isinstance(st, ast.For) and ast.unparse(st.iter) == "expr.children()"]
        ok = len(rec) == 1 and ast.unparse(rec[0].body[0]) == f"yield from visit_expression({ast.unparse(rec[0].target)}, lineno)"
        first = _body_wo_doc(vexp)[0] if _body_wo_doc(vexp) else None
        ok = ok and isinstance(first, ast.If) and ast.unparse(first.test) == "isinstance(expr, (FilteredExpression, TernaryFilteredExpression))"
        if ok:
            loop = first.body[0]
            ok = isinstance(loop, ast.For) and ast.unparse(loop.iter) == "_extract_from_filters(template.env, expr, lineno, _keywords)"
            ys = [y for y in ast.walk(loop) if isinstance(y, ast.Yield)]
            ok = ok and len(ys) == 1 and ast.unparse(ys[0].value).startswith("MessageTuple(lineno=_lineno, funcname=funcname, message=message,") and ast.unparse(loop.target) == "(_lineno, funcname, message)"
    _ob(obs, "liquid2.messages:extract_from_template.visit_expression/site.filters-then-children", ok,
        "a (ternary) filtered expression is handed to _extract_from_filters, every message it reports is yielded unchanged, and every child expression is visited")
    # _extract_from_filters: the first filter of a filtered expression is applied to `left`; of a ternary, to `alternative`, after the left branch
    eff = mm.find("_extract_from_filters")
    ok = False
    if eff is not None:
        calls = [c for c in _calls(eff) if isinstance(c.func, ast.Attribute) and c.func.attr == "message"]
        args = sorted(tuple(ast.unparse(a) for a in c.args) for c in calls)
        rec = [c for c in _calls(eff) if isinstance(c.func, ast.Name) and c.func.id == "_extract_from_filters"]
        ok = (args == [("branch", "tail_filter", "lineno"), ("expression.alternative", "first_filter", "lineno"), ("expression.left", "first_filter", "lineno")]
              and len(rec) == 1 and [ast.unparse(a) for a in rec[0].args] == ["environment", "expression.left", "lineno", "keywords"]
              and all(ast.unparse(n.value) == "expression.filters[0]" for n in ast.walk(eff) if isinstance(n, ast.Assign) and ast.unparse(n.targets[0]) == "first_filter"))
        # no condition other than the documented ones guards the call
        tests = sorted({ast.unparse(n.test) for n in ast.walk(eff) if isinstance(n, ast.If)})
        allowed = {"isinstance(expression, FilteredExpression) and expression.filters", "first_filter.name in keywords", "isinstance(filter_callable, TranslatableFilter)",
                   "isinstance(expression, TernaryFilteredExpression)", "expression.filters and expression.alternative",
                   # the tail filter (`a if c else b || t`) is the first filter of every branch that has no filter of its own
                   "expression.tail_filters", "tail_filter.name in keywords", "not expression.left.filters", "expression.alternative and (not expression.filters)"}
        src_e = ast.unparse(eff)
        ok = ok and "tail_filter = expression.tail_filters[0]" in src_e and "branches.append(expression.left.left)" in src_e and "branches.append(expression.alternative)" in src_e \
            and "for branch in branches:" in src_e
        walrus = {t for t in tests if t.startswith("(message := filter_callable.message(") or t.startswith("message := filter_callable.message(")}
        ok = ok and (set(tests) - walrus) <= allowed
    _ob(obs, "liquid2.messages:_extract_from_filters/site.first-filter-on-literal-operand", ok,
        "message() is asked about (left, filters[0]) of a filtered expression, (alternative, filters[0]) of a ternary and (branch, tail_filters[0]) for each branch without filters of its own; the ternary's left branch is recursed into; only the documented guards apply")
    # translator comments: attached to the next message only
    ok = False
    if visit is not None and vexp is not None:
        ok = True
        for fn in (visit, vexp):
            for y in [n for n in ast.walk(fn) if isinstance(n, ast.Yield)]:
                # the statement right after each yield of a MessageTuple clears the pending comments,
                # and the statement before it drops comments that are not on the line just above
                par = _parent_body(fn, y)
                if par is None:
                    ok = False
                    continue
                body, idx = par
                after = ast.unparse(body[idx + 1]) if idx + 1 < len(body) else ""
                before = ast.unparse(body[idx - 1]) if idx > 0 else ""
                ok = ok and after == "_comments.clear()" and before.replace("\n", " ").startswith("if _comments and _comments[-1][0] < ") and "_comments.clear()" in before
        # a new translator comment replaces the pending one
        cm = [n for n in ast.walk(visit) if isinstance(n, ast.Call) and ast.unparse(n.func) == "_comments.append"]
        ok = ok and len(cm) == 1
    _ob(obs, "liquid2.messages:extract_from_template/site.comments-attach-to-next-message-only", ok,
        "pending comments are cleared right after the first message that takes them, dropped when not on the line just above, and replaced by a newer comment")
    return {"obligations": obs, "samples": [{"obligation": o["oid"], "backend": o["backend"], "note": o["note"]} for o in obs[:2]],
            "trusted": ["Filter.evaluate passes positional and keyword filter arguments to the filter callable as written in the template",
                        "Expression.children()/Node.children()/Node.expressions() enumerate every sub-expression and child (that is C11's obligation)"],
            "functions": [], "assumptions": ["auto_escape is off (with auto_escape_message the message id looked up is the escaped text, by design)",
                                              "message_interpolation does not perform catalog lookups (format_message only reads the context)"],
            "not_covered": ["templates reached through include/render are extracted on their own (include_partials=False)",
                            "non-literal message contexts of the translate tag cannot be reported statically and are outside the claim"]}


C15_PROGRAM = """
import gettext, json
from liquid2 import Environment
from liquid2.messages import extract_from_template
SOURCE = %r
calls = []
class Recording(gettext.NullTranslations):
    def gettext(self, m): calls.append(("gettext", (m,))); return m
    def ngettext(self, s, p, n): calls.append(("ngettext", (s, p))); return s if n == 1 else p
    def pgettext(self, c, m): calls.append(("pgettext", ((c, "c"), m))); return m
    def npgettext(self, c, s, p, n): calls.append(("npgettext", ((c, "c"), s, p))); return s if n == 1 else p
t = Environment().from_string(SOURCE)
t.render(translations=Recording())
reported = [(m.funcname, tuple(m.message)) for m in extract_from_template(t)]
missing = [c for c in calls if c not in reported]
VIOLATES = bool(missing)
OBSERVED = json.dumps({"template": SOURCE, "looked_up_at_run_time": calls, "reported_by_extraction": reported})
"""


def _c15_program(source, run, stat):
    return {"program": C15_PROGRAM % source, "template": source, "run_time_family": run, "reported_family": stat}


def _guarded_by(fn, node, expr_src):
    """Is `node` inside the body of `if <expr_src>` / the true arm of `X if <expr_src> else Y`?"""
    for n in ast.walk(fn):
        if isinstance(n, ast.IfExp) and ast.unparse(n.test) == expr_src and any(x is node for x in ast.walk(n.body)):
            return True
        if isinstance(n, ast.If) and ast.unparse(n.test) == expr_src and any(x is node for s in n.body for x in ast.walk(s)):
            return True
    return False


def _visits_expressions_and_node(loop, var):
    body = [ast.unparse(s).replace("\n", " ") for s in loop.body]
    import re as _r
    has_expr = any(_r.fullmatch(rf"for (\w+) in {var}\.expressions\(\):\s+yield from visit_expression\(\1, _line_number\(\1\.token\)\)", b) for b in body)
    has_visit = f"yield from visit({var})" in body
    return has_expr and has_visit


def _parent_body(fn, node):
    for n in ast.walk(fn):
        for field in ("body", "orelse", "finalbody"):
            b = getattr(n, field, None)
            if isinstance(b, list):
                for i, st in enumerate(b):
                    if isinstance(st, ast.Expr) and st.value is node:
                        return b, i
    return None


# --------------------------------------------------------------------------- C19 (selection filters)
@register("C19")
def c19_sites(repo_root, tier):
    """find / find_index / has / where / reject: the string-key form and the lambda form select by the same predicate
    (Liquid truthiness of the looked-up value, resp. equality with the given value), and `has` is `a match exists`."""
    repo = Repo(repo_root)
    obs = []
    spec = {("liquid2.builtin.filters.find_filters", "FindFilter"): False, ("liquid2.builtin.filters.find_filters", "FindIndexFilter"): False,
            ("liquid2.builtin.filters.find_filters", "HasFilter"): False, ("liquid2.builtin.filters.filtering_filters", "WhereFilter"): False,
            ("liquid2.builtin.filters.filtering_filters", "RejectFilter"): True}
    for (mn, cn), negated in spec.items():
        m = repo.module(mn)
        fn = m.find(f"{cn}.__call__") if m else None
        if fn is None:
            _ob(obs, f"{mn}:{cn}.__call__/site.selection-predicate", False, "not found")
            continue
        conds = []
        for n in ast.walk(fn):
            if isinstance(n, ast.comprehension):
                conds.extend(ast.unparse(c) for c in n.ifs)
            elif isinstance(n, ast.If) and "rv" in ast.unparse(n.test):
                conds.append(ast.unparse(n.test))
            elif isinstance(n, ast.Call) and ast.unparse(n.func) == "any" and n.args and isinstance(n.args[0], ast.GeneratorExp) and not n.args[0].generators[0].ifs:
                conds.append(ast.unparse(n.args[0].elt))
        lam_ok = ("is_undefined(r) or not is_truthy(r)" if negated else "not is_undefined(r) and is_truthy(r)")
        want = {lam_ok, lam_ok.replace("(r)", "(rv)"),
                # the equality of the `==` operator (_eq: a boolean equals only a boolean), not Python's (True == 1)
                ("not _eq(_getitem(itm, key), value)" if negated else "_eq(_getitem(itm, key), value)"),
                ("not is_truthy(_getitem(itm, key))" if negated else "is_truthy(_getitem(itm, key))")}
        bad = [c for c in conds if c not in want]
        ok = not bad and len(conds) >= 3
        _ob(obs, f"{mn}:{cn}.__call__/site.selection-predicate", ok,
            f"selects by {sorted(set(conds))}: Liquid truthiness (is_truthy) / Liquid equality (_eq) of the looked-up value in the string-key form, as in the lambda form" if ok
            else f"selection predicates {bad or conds} differ from the lambda form's truthiness / equality (e.g. `not in (False, None)` is false for 0; Python `==` makes true equal 1)")
    # has == a match exists: any() over booleans, not over the matching items
    m = repo.module("liquid2.builtin.filters.find_filters")
    fn = m.find("HasFilter.__call__") if m else None
    ok = fn is not None
    if fn is not None:
        for n in ast.walk(fn):
            if isinstance(n, ast.Call) and ast.unparse(n.func) == "any":
                g = n.args[0]
                ok = ok and isinstance(g, ast.GeneratorExp) and not g.generators[0].ifs and not isinstance(g.elt, ast.Name)
    # exact decimal arithmetic: binary floating point (+ - * %) is applied to two integers only; any float operand goes
    # through Decimal(str(x)), the decimal value the template author sees
    mm = repo.module("liquid2.builtin.filters.math")
    for fname in ("plus", "minus", "times", "modulo"):
        fn = mm.find(fname) if mm else None
        if fn is None:
            _ob(obs, f"liquid2.builtin.filters.math:{fname}/site.native-arithmetic-only-on-integers", False, "not found")
            continue
        params = [a.arg for a in fn.args.args][:2]
        guard = {f"isinstance({params[0]}, int) and isinstance({params[1]}, int)", f"isinstance({params[1]}, int) and isinstance({params[0]}, int)"}
        bad = []
        n_native = n_dec = 0
        for n in ast.walk(fn):
            if isinstance(n, ast.BinOp) and isinstance(n.left, ast.Name) and isinstance(n.right, ast.Name) and {n.left.id, n.right.id} <= set(params):
                n_native += 1
                inside = any(isinstance(i, ast.If) and ast.unparse(i.test) in guard and any(x is n for st in i.body for x in ast.walk(st)) for i in ast.walk(fn))
                if not inside:
                    bad.append(f"@{n.lineno}: {ast.unparse(n)}")
            if isinstance(n, ast.BinOp) and ast.unparse(n.left) == f"decimal.Decimal(str({params[0]}))" and ast.unparse(n.right) == f"decimal.Decimal(str({params[1]}))":
                n_dec += 1
        ok2 = not bad and n_native == 1 and n_dec == 1
        _ob(obs, f"liquid2.builtin.filters.math:{fname}/site.native-arithmetic-only-on-integers", ok2,
            "the native operator is applied under `isinstance(left, int) and isinstance(right, int)` only; otherwise Decimal(str(left)) op Decimal(str(right))" if ok2
            else f"native binary floating-point arithmetic outside the both-integers guard: {bad or 'pattern not found'}")
    # sorting: ordered, stable permutations that never compare the items themselves when a key is given
    sf = repo.module("liquid2.builtin.filters.sorting_filters")
    n_sorted = 0
    bad = []
    for qual, cls, fn, parent in (function_defs(sf) if sf else []):
        for call in _calls(fn):
            if not (isinstance(call.func, ast.Name) and call.func.id == "sorted") and not (isinstance(call.func, ast.Attribute) and call.func.attr == "sort"):
                continue
            n_sorted += 1
            if isinstance(call.func, ast.Attribute):
                bad.append(f"{qual}@{call.lineno}: in-place .sort()")
                continue
            kw = {k.arg: k.value for k in call.keywords}
            arg = ast.unparse(call.args[0]) if call.args else ""
            if "key" not in kw:
                # plain values: allowed only as sorted(left) inside try/except TypeError -> LiquidTypeError
                guarded = any(isinstance(t, ast.Try) and any(x is call for st in t.body for x in ast.walk(st))
                              and any(h.type is not None and "TypeError" in ast.unparse(h.type) for h in t.handlers) for t in ast.walk(fn))
                if not (arg == "left" and guarded):
                    bad.append(f"{qual}@{call.lineno}: sorted({arg}) without key= compares the elements themselves")
                continue
            if arg == "items":
                # decorated (item, key) pairs: the key function reads element 1 only
                k = ast.unparse(kw["key"])
                reads0 = any(isinstance(x, ast.Subscript) and isinstance(x.slice, ast.Constant) and x.slice.value == 0 for x in ast.walk(kw["key"]))
                if not (k == "itemgetter(1)" or ("[1]" in k and not reads0)):
                    bad.append(f"{qual}@{call.lineno}: key={k} does not select the computed key of the (item, key) pair")
    _ob(obs, "liquid2.builtin.filters.sorting_filters/site.sort-by-key-only", not bad and n_sorted >= 9,
        f"{n_sorted} sorted() calls: each orders by a key function (stable, no comparison of the items themselves); the key-less sort of plain values converts TypeError" if not bad else str(bad[:3]))
    # text conversion of filter arguments goes through the Liquid string form: a data parameter is never re-bound to Python's
    # str() of itself (nil would read 'None', true 'True', an array its Python repr)
    from .sites_c05 import data_vars
    bad = []
    n_filters = 0
    for m in repo.all_modules():
        if ".filters." not in m.name:
            continue
        for qual, cls, fn, parent in function_defs(m):
            if not (cls is None or fn.name == "__call__"):
                continue
            n_filters += 1
            dv = data_vars(fn, True)
            for n in own_nodes(fn):
                if isinstance(n, ast.Assign) and len(n.targets) == 1 and isinstance(n.targets[0], ast.Name) and n.targets[0].id in dv \
                        and isinstance(n.value, ast.Call) and isinstance(n.value.func, ast.Name) and n.value.func.id == "str" \
                        and len(n.value.args) == 1 and isinstance(n.value.args[0], ast.Name) and n.value.args[0].id == n.targets[0].id:
                    bad.append(f"{m.name}:{qual}: {ast.unparse(n)}")
    _ob(obs, "liquid2.builtin.filters/site.liquid-string-form-of-arguments", not bad and n_filters >= 60,
        f"{n_filters} filter callables: no argument is converted to text with Python's str()" if not bad else f"str() of a data argument: {bad[:4]}")
    # an arrow function applied to an item may evaluate to undefined (the item lacks the property): every consumer of
    # `<lambda>.map(context, items)` tests each result with is_undefined() before anything else is done with it (compared, sorted,
    # converted to text - which raises under the strict policies although the same filter with a string key treats it as missing)
    n_maps = 0
    for m in repo.all_modules():
        if ".filters." not in m.name:
            continue
        for qual, cls, fn, parent in function_defs(m):
            for c in _calls(fn):
                if not (isinstance(c.func, ast.Attribute) and c.func.attr == "map" and c.args and ast.unparse(c.args[0]) == "context" and any(x is c for x in own_nodes(fn))):
                    continue
                n_maps += 1
                okm, why = False, "its results are not consumed item by item in a for loop / comprehension"
                for loop in own_nodes(fn):
                    gens = []
                    if isinstance(loop, (ast.For, ast.AsyncFor)):
                        gens = [(loop.target, loop.iter, loop.body)]
                    elif isinstance(loop, (ast.ListComp, ast.GeneratorExp, ast.SetComp)):
                        gens = [(g.target, g.iter, [loop.elt] + list(g.ifs)) for g in loop.generators]
                    for tgt, it, body in gens:
                        if not any(x is c for x in ast.walk(it)):
                            continue
                        # the name bound to the lambda's result: the target itself, or the element of the target tuple at the
                        # position of the map() call among the arguments of zip()/enumerate()
                        name = None
                        if it is c and isinstance(tgt, ast.Name):
                            name = tgt.id
                        elif isinstance(it, ast.Call) and isinstance(it.func, ast.Name) and isinstance(tgt, ast.Tuple):
                            if it.func.id == "zip":
                                pos = [i for i, a in enumerate(it.args) if a is c]
                                if pos and pos[0] < len(tgt.elts) and isinstance(tgt.elts[pos[0]], ast.Name):
                                    name = tgt.elts[pos[0]].id
                            elif it.func.id == "enumerate" and it.args and it.args[0] is c and len(tgt.elts) == 2 and isinstance(tgt.elts[1], ast.Name):
                                name = tgt.elts[1].id
                        if name is None:
                            why = "the loop does not bind the lambda's result to a name"
                            continue
                        tested = any(isinstance(x, ast.Call) and isinstance(x.func, ast.Name) and x.func.id == "is_undefined" and x.args
                                     and isinstance(x.args[0], ast.Name) and x.args[0].id == name for b in body for x in ast.walk(b))
                        okm = tested
                        why = f"`{name}` (a lambda result) is used without an is_undefined() test"
                _ob(obs, f"{m.name}:{qual}/site.lambda-result-undefined-tested@{_ordinal(fn, c)}", okm,
                    "each result of the arrow function is tested with is_undefined() where it is consumed" if okm
                    else f"`{ast.unparse(c)}`: {why}: a missing property then raises under StrictUndefined (or compares as a value) in the lambda form only")
    _ob(obs, "liquid2.builtin.filters/site.lambda-maps.count", n_maps >= 12, f"{n_maps} applications of an arrow-function argument")
    # the string-key form chooses between `property == value` and `property is truthy` by whether a value was given at all
    # (not nil, not undefined) - never by the truthiness of the value (0, false and '' are values to compare with)
    n_guard = 0
    for mn, cn in (("liquid2.builtin.filters.find_filters", "FindFilter"), ("liquid2.builtin.filters.find_filters", "FindIndexFilter"), ("liquid2.builtin.filters.find_filters", "HasFilter"),
                   ("liquid2.builtin.filters.filtering_filters", "WhereFilter"), ("liquid2.builtin.filters.filtering_filters", "RejectFilter")):
        mm_ = repo.module(mn)
        fn = mm_.find(f"{cn}.__call__") if mm_ else None
        tests = [n.test for n in own_nodes(fn) if isinstance(n, ast.If)] if fn is not None else []
        vt = [t for t in tests if any(isinstance(x, ast.Name) and x.id == "value" for x in ast.walk(t))]
        want = {"value is not None and (not is_undefined(value))", "not is_undefined(value) and value is not None"}
        okg = bool(vt) and all(ast.unparse(t) in want for t in vt)
        n_guard += len(vt)
        _ob(obs, f"{mn}:{cn}.__call__/site.value-given-guard", okg,
            "the equality form is chosen by `value is not None and not is_undefined(value)`" if okg
            else f"the equality form is chosen by `{ast.unparse(vt[0]) if vt else '?'}`: a falsy value to compare with (0, false, '') falls through to the truthiness form")
    # what a filter returns is template data: nil for "no value", never a private placeholder object of the module (which the
    # next filter - compact, json, sort, where - does not recognise as nil)
    n_ret = 0
    for m in repo.all_modules():
        if ".filters." not in m.name:
            continue
        sentinels = set()
        for st in m.tree.body:
            if isinstance(st, ast.Assign) and len(st.targets) == 1 and isinstance(st.targets[0], ast.Name) and isinstance(st.value, ast.Call) and isinstance(st.value.func, ast.Name) \
                    and (st.value.func.id == "object" or st.value.func.id.startswith("_")):
                sentinels.add(st.targets[0].id)
        if not sentinels:
            continue
        for qual, cls, fn, parent in function_defs(m):
            if not (cls is None or fn.name == "__call__"):
                continue
            for r in own_nodes(fn):
                if not (isinstance(r, ast.Return) and r.value is not None):
                    continue
                vals = [r.value.elt] if isinstance(r.value, (ast.ListComp, ast.GeneratorExp)) else [r.value]
                leaked = sorted({x.id for v in vals for x in ast.walk(v) if isinstance(x, ast.Name) and x.id in sentinels
                                 and not any(isinstance(k, ast.keyword) and any(y is x for y in ast.walk(k.value)) for k in ast.walk(v))})
                n_ret += 1
                if leaked:
                    _ob(obs, f"{m.name}:{qual}/site.no-placeholder-in-result@{_ordinal(fn, r, ast.Return)}", False,
                        f"the filter returns the module's private placeholder `{leaked[0]}` as a value: downstream filters (compact, json, sort) do not treat it as nil")
    _ob(obs, "liquid2.builtin.filters/site.placeholder-free-results", True, f"{n_ret} return statements of filters in modules with private placeholder objects examined")
    # the string-key form reads a property that an item may not have: a missing property is nil (as in the lambda form, where
    # the path evaluates to undefined) - item[key] is read through _getitem(..) or inside a try that handles KeyError
    n_sub = 0
    for m in repo.all_modules():
        if ".filters." not in m.name:
            continue
        for qual, cls, fn, parent in function_defs(m):
            if fn.name != "__call__" or "key" not in [a.arg for a in fn.args.args + fn.args.kwonlyargs]:
                continue
            bad = []
            for n in own_nodes(fn):
                if isinstance(n, ast.Subscript) and isinstance(n.ctx, ast.Load) and isinstance(n.slice, ast.Name) and n.slice.id == "key":
                    n_sub += 1
                    def _covers(t):
                        names = " ".join(ast.unparse(h.type) if h.type is not None else "Exception" for h in t.handlers)
                        return any(k in names for k in ("LookupError", "Exception")) or ("KeyError" in names and "IndexError" in names)
                    guarded = any(isinstance(t, ast.Try) and any(x is n for st in t.body for x in ast.walk(st)) and _covers(t) for t in ast.walk(fn))
                    if not guarded:
                        bad.append(f"line {n.lineno}: {ast.unparse(n)}")
            if bad or any(isinstance(n, ast.Subscript) and isinstance(n.slice, ast.Name) and n.slice.id == "key" for n in own_nodes(fn)):
                _ob(obs, f"{m.name}:{qual}/site.missing-property-is-nil", not bad,
                    "item[key] is read inside a try that handles KeyError and IndexError" if not bad
                    else f"{bad[0]} outside try/except (KeyError, IndexError): an item without the property (or shorter than an integer key) makes the filter fail with a bare lookup error instead of treating it as nil")
    _ob(obs, "liquid2.builtin.filters.find_filters:HasFilter.__call__/site.any-over-matches", ok, "has reduces any() over the match tests, not over the matching items (whose own truthiness is irrelevant)")
    return {"obligations": obs, "samples": [], "trusted": ["user __getitem__ is deterministic (the same lookup gives the same value in both forms)"], "functions": [],
            "assumptions": [], "not_covered": ["sort/uniq/compact/map/concat and list-slice laws, join on lists, base64 inverses: not under contract (site rules only for sorting and selection predicates)"]}


@register("C01")
def c01_blank_sites(repo_root, tier):
    """Rendering semantics include `a block that would write text is never suppressed as blank`: the blank-flag obligations of C18."""
    r = c18_sites(repo_root, tier)
    # ... and `literal text verbatim, modulo explicit whitespace control`: which marker trims which text (the parser's carry)
    obs = [o for o in r["obligations"] if "blank" in o["oid"] or "suppression" in o["oid"] or "trim-carry" in o["oid"]]
    obs += c18_block_trim(repo_root, tier)["obligations"]
    return {"obligations": obs, "samples": [], "trusted": [], "functions": [], "assumptions": []}


# --------------------------------------------------------------------------- C02 (library calls that raise outside the error model)
@register("C02")
def c02_sites(repo_root, tier):
    repo = Repo(repo_root)
    obs = []
    n = 0
    for m, qual, cls, fn, parent in _all_functions(repo):
        for call in _calls(fn):
            # (babel's format_datetime converts a numeric `datetime` argument with datetime.fromtimestamp itself)
            if ast.unparse(call.func).endswith("datetime.fromtimestamp") or ast.unparse(call.func) == "dates.format_datetime":
                n += 1
                ok = False
                for t in ast.walk(fn):
                    if isinstance(t, ast.Try) and any(x is call for st in t.body for x in ast.walk(st)):
                        names = " ".join(ast.unparse(h.type) for h in t.handlers if h.type is not None)
                        ok = ok or ("OverflowError" in names and "OSError" in names)
                if ast.unparse(call.func) == "dates.format_datetime" and ok:
                    # babel also looks up every letter of the (data-supplied) pattern: an unknown one is a KeyError
                    ok = any(isinstance(t, ast.Try) and any(x is call for st in t.body for x in ast.walk(st))
                             and any(h.type is not None and "KeyError" in ast.unparse(h.type) for h in t.handlers) for t in ast.walk(fn))
                _ob(obs, f"{m.name}:{qual}/site.fromtimestamp-guarded@{_ordinal(fn, call)}", ok,
                    "datetime.fromtimestamp(x) for a data-supplied x sits in a try that handles OverflowError and OSError" if ok
                    else "datetime.fromtimestamp(x) outside try/except (OverflowError, OSError): a large timestamp escapes as a non-Liquid exception")
    _ob(obs, "liquid2/site.fromtimestamp.count", n >= 3, f"{n} fromtimestamp call sites")
    # printf-style interpolation of a message that comes from a string literal or a catalog (`text % mapping` in filter code): the
    # text decides which keys are looked up, so a key the mapping lacks (KeyError - which Filter.evaluate does not convert) must
    # be handled where the formatting happens
    n_fmt = 0
    for m, qual, cls, fn, parent in _all_functions(repo):
        if ".filters." not in m.name:
            continue
        dict_vars = {t.id for a in own_nodes(fn) if isinstance(a, ast.Assign) and isinstance(a.value, (ast.Dict, ast.DictComp)) for t in a.targets if isinstance(t, ast.Name)}
        for b in own_nodes(fn):
            if isinstance(b, ast.BinOp) and isinstance(b.op, ast.Mod) and isinstance(b.left, ast.Name) and isinstance(b.right, ast.Name) and b.right.id in dict_vars:
                n_fmt += 1
                ok = any(isinstance(t, ast.Try) and any(x is b for st in t.body for x in ast.walk(st))
                         and any(h.type is None or any(k in ast.unparse(h.type) for k in ("KeyError", "LookupError", "Exception")) for h in t.handlers) for t in ast.walk(fn))
                _ob(obs, f"{m.name}:{qual}/site.message-format-keyerror-handled@{_ordinal(fn, b)}", ok,
                    f"`{ast.unparse(b)}` sits in a try that handles KeyError" if ok
                    else f"`{ast.unparse(b)}`: a message naming a key the mapping lacks (e.g. '%(count)d') raises a bare KeyError that nothing converts")
    _ob(obs, "liquid2/site.message-format.count", n_fmt >= 1, f"{n_fmt} printf-style message interpolations in filter code")
    # `.value` exists on plain tokens only (paths, ranges, template strings and markup tokens have none): reading it from a token
    # whose kind has not been established raises AttributeError - at parse time, for a particular shape of (malformed) input
    n_val = 0
    for m, qual, cls, fn, parent in _all_functions(repo):
        if m.name in ("liquid2.token", "liquid2.lexer"):
            continue
        ann = {a.arg: (ast.unparse(a.annotation) if a.annotation is not None else "") for a in fn.args.posonlyargs + fn.args.args + fn.args.kwonlyargs}
        for n in own_nodes(fn):
            if not (isinstance(n, ast.Attribute) and n.attr == "value" and isinstance(n.value, ast.Name) and "token" in n.value.id.lower()):
                continue
            n_val += 1
            v = n.value.id

            def _kind_test(e):
                return any(isinstance(c, ast.Call) and isinstance(c.func, ast.Name) and c.func.id in ("is_token_type", "isinstance") and c.args
                           and isinstance(c.args[0], ast.Name) and c.args[0].id == v for c in ast.walk(e))
            ok = ann.get(v) == "Token"
            for g in own_nodes(fn):
                if isinstance(g, (ast.If, ast.IfExp)):
                    body = g.body if isinstance(g.body, list) else [g.body]
                    if _kind_test(g.test) and any(x is n for st in body for x in ast.walk(st)):
                        ok = True
                if isinstance(g, ast.BoolOp) and isinstance(g.op, ast.And):
                    idx = [i for i, x in enumerate(g.values) if any(y is n for y in ast.walk(x))]
                    if idx and any(_kind_test(x) for x in g.values[:idx[0]]):
                        ok = True
            # `stream.expect(TokenType.X)` immediately followed by `v = cast(Token, stream.next())`
            for blk in [b for x in ast.walk(fn) for b in (getattr(x, "body", None), getattr(x, "orelse", None)) if isinstance(b, list)]:
                for i, st in enumerate(blk):
                    if isinstance(st, ast.Assign) and len(st.targets) == 1 and isinstance(st.targets[0], ast.Name) and st.targets[0].id == v \
                            and ast.unparse(st.value).replace(" ", "") in ("cast(Token,stream.next())", "stream.next()") and i > 0 \
                            and isinstance(blk[i - 1], ast.Expr) and ast.unparse(blk[i - 1].value).startswith("stream.expect(TokenType."):
                        ok = True
            _ob(obs, f"{m.name}:{qual}/site.token-value-kind-established@{_ordinal(fn, n, ast.Attribute)}", ok,
                f"`{v}.value` is read where `{v}` is known to be a plain token (is_token_type / isinstance test, `Token` parameter, or stream.expect(..) just before)" if ok
                else f"`{v}.value` is read from a token of unestablished kind: a path, range or template-string token there raises AttributeError instead of a Liquid syntax error")
    _ob(obs, "liquid2/site.token-value-reads.count", n_val >= 30, f"{n_val} reads of a token's .value outside the lexer")
    # html.parser asserts on some malformed declarations: feeding it data-supplied text happens inside a try that handles AssertionError
    hm = repo.module("liquid2.utils.html")
    fn = hm.find("strip_tags") if hm else None
    okh = False
    if fn is not None:
        feeds = [c for c in _calls(fn) if isinstance(c.func, ast.Attribute) and c.func.attr in ("feed", "close")]
        okh = bool(feeds) and all(any(isinstance(t, ast.Try) and any(x is c for st in t.body for x in ast.walk(st))
                                      and any(h.type is not None and "AssertionError" in ast.unparse(h.type) for h in t.handlers) for t in ast.walk(fn)) for c in feeds)
    _ob(obs, "liquid2.utils.html:strip_tags/site.parser-assertions-handled", okh,
        "HTMLParser.feed()/close() on data-supplied text sit in a try that handles AssertionError" if okh
        else "HTMLParser.feed() of data-supplied text outside try/except AssertionError: '<![x>' escapes as AssertionError")
    # RenderContext.get[_async]: no assert on data-dependent values (a path whose root is not a name resolves to undefined)
    cm = repo.module("liquid2.context")
    for name in ("RenderContext.get", "RenderContext.get_async"):
        fn = cm.find(name) if cm else None
        ok = fn is not None and not any(isinstance(x, ast.Assert) for x in ast.walk(fn))
        _ob(obs, f"liquid2.context:{name}/site.no-assert-on-data", ok, "variable lookup has no assert statement that template input could fail")
    return {"obligations": obs, "samples": [], "trusted": [], "functions": [], "assumptions": []}


# --------------------------------------------------------------------------- C06 (every per-item rendering loop is accounted)
@register("C06")
def c06_sites(repo_root, tier):
    """A loop limit bounds *nests* of loops only if every construct that renders a block or partial once per item makes its
    length visible to the loops nested in it: the loop must sit inside `with <ctx>.loop(..)` or `with <ctx>.loop_iterations(..)`."""
    from .sites_c11 import node_classes
    repo = Repo(repo_root)
    obs = []
    n_loops = 0
    RENDER = {"render", "render_async", "render_with_context", "render_with_context_async"}
    for m, c in node_classes(repo, "Node"):
        for fn in [st for st in c.body if isinstance(st, (ast.FunctionDef, ast.AsyncFunctionDef)) and st.name in ("render_to_output", "render_to_output_async")]:
            for li, loop in enumerate(sorted([n for n in ast.walk(fn) if isinstance(n, (ast.For, ast.AsyncFor, ast.While))], key=lambda n: n.lineno)):
                renders = [x for st in loop.body for x in ast.walk(st) if isinstance(x, ast.Call) and isinstance(x.func, ast.Attribute) and x.func.attr in RENDER]
                if not renders:
                    continue
                it = ast.unparse(loop.iter) if not isinstance(loop, ast.While) else ""
                # a fixed structural iteration over the node's own children (if/elsif alternatives, when clauses, block nodes) is not a data loop
                if it.startswith("self.") :
                    continue
                n_loops += 1
                ok = False
                for w in ast.walk(fn):
                    if isinstance(w, (ast.With, ast.AsyncWith)) and any(x is loop for st in w.body for x in ast.walk(st)):
                        for item in w.items:
                            ce = item.context_expr
                            if isinstance(ce, ast.Call) and isinstance(ce.func, ast.Attribute) and ce.func.attr in ("loop", "loop_iterations"):
                                ok = True
                _ob(obs, f"{m.name}:{c.name}.{fn.name}/site.data-loop-accounted.{li}", ok,
                    f"`for {ast.unparse(loop.target) if not isinstance(loop, ast.While) else '...'} in {it}` renders per item inside `with ctx.loop(..)`/`loop_iterations(..)`" if ok
                    else f"`for .. in {it}` at line {loop.lineno} renders a block or partial per item but is not registered with the loop limit: loops nested in it are checked on their own")
    # a context copied for a macro body, a rendered partial or an overriding block keeps the iteration count of the loops around
    # the copy: carry_loop_iterations is the literal True at every copy() made by tag code (contract of copy: the carry is the
    # product of the active loop lengths and the carry already held - it is 1 without the flag, whatever loops are running)
    n_copies = 0
    for m, qual, cls, fn, parent in _all_functions(repo):
        if ".tags." not in m.name:
            continue
        for c in _calls(fn):
            if isinstance(c.func, ast.Attribute) and c.func.attr == "copy" and any(x is c for x in own_nodes(fn)) \
                    and {k.arg for k in c.keywords} & {"namespace", "token", "disabled_tags", "block_scope", "template", "carry_loop_iterations"}:
                n_copies += 1
                kw = {k.arg: k.value for k in c.keywords}
                v = kw.get("carry_loop_iterations")
                ok = isinstance(v, ast.Constant) and v.value is True
                _ob(obs, f"{m.name}:{qual}/site.copy-carries-iterations@{_ordinal(fn, c)}", ok,
                    f"{ast.unparse(c.func)}(.., carry_loop_iterations=True)" if ok
                    else f"{ast.unparse(c.func)}(..) with carry_loop_iterations={ast.unparse(v) if v is not None else 'absent (False)'}: loops in the copied context are counted without the loops (or the carry) around the copy")
    _ob(obs, "liquid2/site.context-copies.count", n_copies >= 6, f"{n_copies} context copies in tag code")
    # the iterations of a per-item loop are registered on the context the items are rendered with: `with X.loop_iterations(n)` /
    # `with X.loop(..)` around `render*(X, ..)` - registered on another context (the caller's, when the partial renders in a
    # copy) they multiply nothing inside the partial
    n_acc = 0
    for m, qual, cls, fn, parent in _all_functions(repo):
        if ".tags." not in m.name:
            continue
        for w in own_nodes(fn):
            if not isinstance(w, (ast.With, ast.AsyncWith)):
                continue
            for item in w.items:
                ce = item.context_expr
                if not (isinstance(ce, ast.Call) and isinstance(ce.func, ast.Attribute) and ce.func.attr in ("loop", "loop_iterations")):
                    continue
                recv = ast.unparse(ce.func.value)
                used = []
                for st in w.body:
                    for c in ast.walk(st):
                        if isinstance(c, ast.Call) and isinstance(c.func, ast.Attribute) and c.func.attr.startswith("render"):
                            ctx_args = [ast.unparse(a) for a in list(c.args)[:1]] + [ast.unparse(k.value) for k in c.keywords if k.arg == "context"]
                            used += [a for a in ctx_args if a in ("context", "ctx") or a.endswith("_context")]
                if not used:
                    continue
                n_acc += 1
                okr = all(u == recv for u in used)
                _ob(obs, f"{m.name}:{qual}/site.iterations-registered-on-rendering-context@{_ordinal(fn, ce)}", okr,
                    f"`with {recv}.{ce.func.attr}(..)` around renders with `{recv}`" if okr
                    else f"`with {recv}.{ce.func.attr}(..)` but the items are rendered with `{[u for u in used if u != recv][0]}`: loops inside are not multiplied by this loop")
    _ob(obs, "liquid2/site.accounted-renders.count", n_acc >= 8, f"{n_acc} per-item loops that render with an explicit context")
    _ob(obs, "liquid2/site.data-loops.count", n_loops >= 8, f"{n_loops} per-item rendering loops found in node render methods")
    return {"obligations": obs, "samples": [], "trusted": [], "functions": [], "assumptions": ["macros called in a loop inherit the iteration carry through context.copy(carry_loop_iterations=True) (contract of copy)"]}


# --------------------------------------------------------------------------- C17 (bounded native probe of error positions)
@register("C15")
def c15_catalog_entry_point(repo_root, tier):
    """Extraction never fails on a template that parses - also through the catalog-building entry point with a custom keywords
    mapping: the argument spec of a message is looked up by its standard *gettext name with a fallback, never by keywords[name]."""
    repo = Repo(repo_root)
    obs = []
    m = repo.module("liquid2.messages")
    fn = m.find("extract_from_templates") if m else None
    bad = [ast.unparse(n) for n in ast.walk(fn) if isinstance(n, ast.Subscript) and isinstance(n.ctx, ast.Load) and ast.unparse(n.value) == "keywords"] if fn is not None else ["not found"]
    _ob(obs, "liquid2.messages:extract_from_templates/site.spec-lookup-total", not bad,
        "the argument spec is looked up with .get() and falls back to the default spec" if not bad
        else f"`{bad[0]}`: a keywords mapping that names the filters (`t`) but not the standard function names raises KeyError")
    return {"obligations": obs, "samples": [], "trusted": [], "functions": [], "assumptions": []}


@register("C17")
def c17_error_tokens(repo_root, tier):
    """A raised error refers to the construct it describes: when the message of a syntax error quotes a token (its kind, text or
    class), the error carries that token - not the one after it. And no token is built with a position outside every source."""
    repo = Repo(repo_root)
    obs = []
    n = 0
    for m, qual, cls, fn, parent in _all_functions(repo):
        for r in own_nodes(fn):
            if not (isinstance(r, ast.Raise) and isinstance(r.exc, ast.Call) and r.exc.args and isinstance(r.exc.args[0], ast.JoinedStr)):
                continue
            tokkw = [k.value for k in r.exc.keywords if k.arg == "token"]
            if not tokkw:
                continue
            quoted = set()
            for v in r.exc.args[0].values:
                if isinstance(v, ast.FormattedValue):
                    for a in ast.walk(v.value):
                        if isinstance(a, ast.Attribute) and a.attr in ("type_", "value", "__class__") and isinstance(a.value, ast.Name) and "token" in a.value.id.lower():
                            quoted.add(a.value.id)
            if len(quoted) != 1:
                continue
            n += 1
            q = next(iter(quoted))
            ok = ast.unparse(tokkw[0]) == q
            _ob(obs, f"{m.name}:{qual}/site.error-carries-the-token-it-quotes@{_ordinal(fn, r, ast.Raise)}", ok,
                f"the message quotes `{q}` and the error carries `{q}`" if ok
                else f"the message quotes `{q}` but the error carries `{ast.unparse(tokkw[0])}`: the reported position is that of another token (or none, at the end of an expression)")
    _ob(obs, "liquid2/site.errors-quoting-a-token.count", n >= 10, f"{n} syntax errors whose message quotes a token")
    # the end-of-input marker of an expression stream
    sm = repo.module("liquid2.stream")
    neg = []
    for c in ast.walk(sm.tree) if sm else []:
        if isinstance(c, ast.Call) and ast.unparse(c.func) == "Token":
            for k in c.keywords:
                if k.arg == "index" and isinstance(k.value, ast.UnaryOp) and isinstance(k.value.op, ast.USub):
                    neg.append(ast.unparse(c))
    _ob(obs, "liquid2.stream:TokenStream.eoi/site.no-token-outside-the-source", not neg,
        "no token is constructed with a negative position" if not neg
        else f"`{neg[0]}`: errors raised when the parser runs off the end of an expression carry this token - position -1, empty source - so they have no line or column although the enclosing tag is known",
        witness=None if not neg else {"program": "from liquid2 import Environment\nfrom liquid2.exceptions import LiquidError\ntry:\n    Environment().from_string('{% assign x = %}')\n    VIOLATES = False\n    OBSERVED = 'parsed'\nexcept LiquidError as e:\n    VIOLATES = e.token is not None and e.token.start < 0\n    OBSERVED = f'error token start={e.token.start} stop={e.token.stop} context={e.context()}'\n"})
    return {"obligations": obs, "samples": [], "trusted": [], "functions": [], "assumptions": []}


@register("C17")
def c17_probe(repo_root, tier):
    import json as _json
    import subprocess
    import sys as _sys
    env = dict(os.environ)
    env["PYTHONPATH"] = repo_root
    obs = []
    try:
        p = subprocess.run([_sys.executable, os.path.join(os.path.dirname(os.path.abspath(__file__)), "probe_c17.py")], capture_output=True, text=True, timeout=120, env=env, cwd=repo_root)
        line = [l for l in p.stdout.splitlines() if l.startswith("{")]
        pr = _json.loads(line[-1]) if line else {"error": (p.stderr or p.stdout)[-300:], "violations": [], "checked": 0}
    except Exception as e:  # noqa: BLE001
        pr = {"error": f"{type(e).__name__}: {e}", "violations": [], "checked": 0}
    if pr.get("error"):
        _ob(obs, "liquid2/bounded.native-error-position-probe", False, f"probe could not run: {pr['error']}", status="unknown", backend="bounded-native")
    else:
        bad = pr["violations"]
        _ob(obs, "liquid2/bounded.native-error-position-probe", not bad,
            f"{pr['checked']} checks: _error_context reports the line and column each index lies on; the tokens of the probe sources tile them and nest in order" if not bad
            else f"{bad[0]['text']!r} @ {bad[0]['index']}: {bad[0]['outcome']}",
            witness=None if not bad else {"program": "from pyvc import probe_c17\nr = probe_c17.run()\nVIOLATES = bool(r['violations'])\nOBSERVED = str(r['violations'][:3])\n", "failing": bad[:5]},
            backend="bounded-native")
    return {"obligations": obs, "samples": [], "trusted": [], "functions": [], "assumptions": [],
            "bounded": ["liquid2/bounded.native-error-position-probe: LiquidError._error_context against an independent line/column reference on a fixed set of texts, every index; tiling and recursive nesting/order of the tokens of 10 fixed sources incl. interpolated template strings (pyvc/probe_c17.py); bounded, not counted as proved"]}



# --------------------------------------------------------------------------- C10 / C01: obligations shared with C07 and C03
@register("C10")
def c10_scope_sites(repo_root, tier):
    """Lookup precedence presupposes the scope-stack discipline of C07: the stack is pushed and popped only by extend(), and a
    generator that binds lambda parameters keeps every yield inside `with context.extend(..)`."""
    r = c07_sites(repo_root, tier)
    obs = [o for o in r["obligations"] if "scope-push-pop" in o["oid"] or "generator-scope" in o["oid"] or "scoped-with" in o["oid"]]
    return {"obligations": obs, "samples": [], "trusted": [], "functions": [], "assumptions": []}


@register("C10")
def c10_message_vars(repo_root, tier):
    """The keyword arguments of a translation filter are its innermost, block-scoped bindings: the message variables are looked
    up while those arguments are pushed as a scope (`with context.extend(namespace=message_vars)`), so they win over every outer layer."""
    repo = Repo(repo_root)
    obs = []
    m = repo.module("liquid2.builtin.filters.translate")
    fn = m.find("BaseTranslateFilter.format_message") if m else None
    ok = False
    why = "format_message not found"
    if fn is not None:
        params = [a.arg for a in fn.args.args]
        resolves = [c for c in _calls(fn) if isinstance(c.func, ast.Attribute) and c.func.attr == "resolve" and ast.unparse(c.func.value) == "context"]
        withs = [w for w in ast.walk(fn) if isinstance(w, ast.With) and any(
            isinstance(i.context_expr, ast.Call) and ast.unparse(i.context_expr.func) == "context.extend"
            and any(isinstance(a, ast.Name) and a.id in params for a in list(i.context_expr.args) + [k.value for k in i.context_expr.keywords]) for i in w.items)]
        inside = [c for c in resolves if any(any(x is c for st in w.body for x in ast.walk(st)) for w in withs)]
        plain = all(len(c.args) == 1 and not c.keywords for c in resolves)
        ok = bool(resolves) and len(inside) == len(resolves) and plain
        why = "message variables are resolved outside `with context.extend(<message vars>)` or with a fallback default: an outer binding of the same name wins over the filter's keyword argument"
    _ob(obs, "liquid2.builtin.filters.translate:BaseTranslateFilter.format_message/site.message-vars-innermost", ok,
        "every message variable is resolved by context.resolve(name) inside `with context.extend(namespace=message_vars)`" if ok else why)
    return {"obligations": obs, "samples": [], "trusted": [], "functions": [], "assumptions": []}


@register("C02")
def c02_twin(repo_root, tier):
    """Totality is shown for the sync methods; it holds on the async path because every async method is the await-erasure of its
    sync twin (the C03 obligations): the same primitives, the same handlers, the same error tokens."""
    from .twin import run_twin
    tw = run_twin(repo_root, tier)
    return {"obligations": [o for o in tw["obligations"] if o["oid"].endswith("/twin")], "samples": [], "trusted": [], "functions": [], "assumptions": []}


@register("C12")
def c12_twin(repo_root, tier):
    """`same behaviour after a round trip` is argued for the sync path; the async path evaluates and renders by the await-erasure of
    the same code (the C03 obligations of the evaluate / render pairs)."""
    from .twin import run_twin
    tw = run_twin(repo_root, tier)
    obs = [o for o in tw["obligations"] if o["oid"].endswith("/twin") and (".evaluate/" in o["oid"] or ".render_to_output/" in o["oid"] or ".render/" in o["oid"])]
    return {"obligations": obs, "samples": [], "trusted": [], "functions": [], "assumptions": []}


@register("C10")
def c10_twin(repo_root, tier):
    """Names are bound, shadowed and released by the tags' render methods; the precedence they establish is the same on the async
    path because each render_to_output_async is the await-erasure of its sync twin (the C03 obligations for those pairs)."""
    from .twin import run_twin
    tw = run_twin(repo_root, tier)
    obs = [o for o in tw["obligations"] if o["oid"].endswith("/twin") and (".render_to_output/" in o["oid"] or ".get/" in o["oid"] or ".resolve/" in o["oid"] or ".map/" in o["oid"])]
    return {"obligations": obs, "samples": [], "trusted": [], "functions": [], "assumptions": []}


@register("C14")
def c14_twin(repo_root, tier):
    """Cache keys and freshness are computed by the same code on both paths: every loader method and every tag that loads a
    template has an async twin that is the await-erasure of the sync one (the C03 obligations for those pairs)."""
    from .twin import run_twin
    tw = run_twin(repo_root, tier)
    obs = [o for o in tw["obligations"] if o["oid"].endswith("/twin") and (".loaders." in o["oid"] or "liquid2.loader:" in o["oid"] or "_build_block_stacks" in o["oid"]
                                                                         or "get_template" in o["oid"] or ".tags.include_tag" in o["oid"] or ".tags.render_tag" in o["oid"] or ".tags.extends_tag" in o["oid"])]
    return {"obligations": obs, "samples": [], "trusted": [], "functions": [], "assumptions": []}


@register("C20")
def c20_probe(repo_root, tier):
    """A template-string literal denotes its text: the pieces the lexer cuts it into cover every character between the quotes
    (bounded native probe shared with C17; labelled bounded, not counted as proved)."""
    return c17_probe(repo_root, tier)


@register("C20")
def c20_single_quote_step(repo_root, tier):
    """`\\'` is an escape of single-quoted text only. The pre-step that rewrites it (`.replace("\\\\'", "'")`) is applied where the
    text is known to be single-quoted - under `is_token_type(tok, TokenType.SINGLE_QUOTE_STRING)` or on the not-double-quote
    branch of a test of the quote character - never to double-quoted text, where `\\\\` followed by `'` is a backslash and a quote.
    Also: an output statement is never blank (a whitespace string literal written as `{{ ' ' }}` is output, not layout)."""
    repo = Repo(repo_root)
    obs = []
    n = 0
    for m, qual, cls, fn, parent in _all_functions(repo):
        for c in _calls(fn):
            if not (isinstance(c.func, ast.Attribute) and c.func.attr == "replace" and len(c.args) == 2 and all(isinstance(a, ast.Constant) for a in c.args)
                    and c.args[0].value == "\\'" and c.args[1].value == "'" and any(x is c for x in own_nodes(fn))):
                continue
            n += 1
            ok = False
            for g in own_nodes(fn):
                if not isinstance(g, ast.If):
                    continue
                t = ast.unparse(g.test)
                in_body = any(x is c for st in g.body for x in ast.walk(st))
                in_else = any(x is c for st in g.orelse for x in ast.walk(st))
                if in_body and ("SINGLE_QUOTE" in t or t in ("quote == \"'\"", "quote != '\"'")):
                    ok = True
                if in_else and t in ("quote == '\"'",) and not (len(g.orelse) == 1 and isinstance(g.orelse[0], ast.If)):
                    ok = True
            _ob(obs, f"{m.name}:{qual}/site.single-quote-step-on-single-quoted-text@{_ordinal(fn, c)}", ok,
                "the backslash-quote pre-step is applied to single-quoted text only" if ok
                else "`.replace(\"\\\\'\", \"'\")` is applied to text that may be double-quoted: `\\\\'` there is an escaped backslash followed by a quote, and the rewrite leaves an invalid escape")
    _ob(obs, "liquid2/site.single-quote-steps.count", n >= 6, f"{n} backslash-quote pre-steps")
    obs += [o for o in c18_sites(repo_root, tier)["obligations"] if "blank-sound" in o["oid"] and ("OutputNode" in o["oid"] or "EchoNode" in o["oid"])]
    return {"obligations": obs, "samples": [], "trusted": [], "functions": [], "assumptions": []}


@register("C01")
def c01_range_layout(repo_root, tier):
    """The meaning of a range does not depend on layout: a variable is a PATH token when the dots follow it directly (`a..3`) and a
    WORD token when whitespace comes first (`a .. 3`); the range scanner accepts the same kinds of token for its start as for its stop."""
    repo = Repo(repo_root)
    obs = []
    m = repo.module("liquid2.lexer")
    fn = m.find("Lexer.accept_range") if m else None
    sets = {}
    for t in ast.walk(fn) if fn is not None else []:
        if isinstance(t, ast.If) and isinstance(t.test, ast.Compare) and isinstance(t.test.ops[0], ast.NotIn) and isinstance(t.test.comparators[0], ast.Tuple):
            who = ast.unparse(t.test.left)
            sets[who] = {ast.unparse(e) for e in t.test.comparators[0].elts}
    start = sets.get("range_start_token.type_", set())
    stop = sets.get("range_stop_token.type_", set())
    ok = bool(start) and start == stop and "TokenType.WORD" in start and "TokenType.PATH" in start
    _ob(obs, "liquid2.lexer:Lexer.accept_range/site.start-and-stop-accept-the-same-tokens", ok,
        f"start and stop of a range accept {sorted(x.split('.')[-1] for x in start)}" if ok
        else f"range start accepts {sorted(x.split('.')[-1] for x in start)}, stop accepts {sorted(x.split('.')[-1] for x in stop)}: `(a .. 3)` (a WORD before the dots) is rejected while `(a..3)` is accepted")
    return {"obligations": obs, "samples": [], "trusted": [], "functions": [], "assumptions": []}


@register("C01")
def c01_array_string_form(repo_root, tier):
    """The Liquid string form of an array is the concatenation of the Liquid string forms of its items (nil vanishes, booleans
    are true/false, nested arrays flatten): in both copies of the stringifier every join over the items applies the stringifier
    itself to each item, passing auto_escape on. (The scalar cases are the SMT contract of the two functions.)"""
    repo = Repo(repo_root)
    obs = []
    for mn, fname in (("liquid2.stringify", "to_liquid_string"), ("liquid2.builtin.expressions", "_to_liquid_string")):
        m = repo.module(mn)
        fn = m.find(fname) if m else None
        joins = [c for c in _calls(fn) if isinstance(c.func, ast.Attribute) and c.func.attr == "join"] if fn is not None else []
        bad = []
        for c in joins:
            g = c.args[0] if c.args else None
            ok = isinstance(g, (ast.GeneratorExp, ast.ListComp)) and len(g.generators) == 1 and not g.generators[0].ifs and isinstance(g.generators[0].target, ast.Name) \
                and isinstance(g.elt, ast.Call) and isinstance(g.elt.func, ast.Name) and g.elt.func.id == fname and len(g.elt.args) == 1 \
                and isinstance(g.elt.args[0], ast.Name) and g.elt.args[0].id == g.generators[0].target.id \
                and {k.arg: ast.unparse(k.value) for k in g.elt.keywords} == {"auto_escape": "auto_escape"} and ast.unparse(g.generators[0].iter) == "val"
            if not ok:
                bad.append(ast.unparse(c)[:90])
        _ob(obs, f"{mn}:{fname}/site.array-items-stringified-recursively", len(joins) >= 2 and not bad,
            f"{len(joins)} joins over the items of an array, each item through {fname}(item, auto_escape=auto_escape)" if len(joins) >= 2 and not bad
            else f"an array is joined without applying {fname} to each item ({bad[:1] or 'joins not found'}): nil / booleans / nested arrays inside an array get Python's str()")
    return {"obligations": obs, "samples": [], "trusted": [], "functions": [], "assumptions": []}


@register("C01")
def c01_twin(repo_root, tier):
    """Rendering semantics hold on the async path because every node's render_to_output_async and every expression's
    evaluate_async is the await-erasure of its sync twin (the C03 obligations for those pairs)."""
    from .twin import run_twin
    tw = run_twin(repo_root, tier)
    obs = [o for o in tw["obligations"] if o["oid"].endswith("/twin") and (".render_to_output/" in o["oid"] or ".evaluate/" in o["oid"] or ".render/" in o["oid"])]
    return {"obligations": obs, "samples": [], "trusted": [], "functions": [], "assumptions": []}


# --------------------------------------------------------------------------- C16: optional context variables, twin obligations
@register("C16")
def c16_optional_lookups(repo_root, tier):
    """A filter that looks up an *optional* context variable (context.resolve(name) without a default) holds a possibly-undefined
    value: under the strict policy any truth test, comparison or conversion of it raises although the template never used the name.
    Such a value must be tested with is_undefined() (or isinstance) before anything else is done with it."""
    repo = Repo(repo_root)
    obs = []
    n_sites = 0
    def _is_opt_resolve(c):
        return (isinstance(c, ast.Call) and isinstance(c.func, ast.Attribute) and c.func.attr == "resolve" and ast.unparse(c.func.value) in ("context", "ctx")
                and len(c.args) == 1 and not c.keywords)

    def _type_test(e, var):
        """+1: e is true only if var is known to be defined (isinstance / not is_undefined); -1: e is false only if so; 0: neither."""
        neg = False
        while isinstance(e, ast.UnaryOp) and isinstance(e.op, ast.Not):
            e, neg = e.operand, not neg
        if isinstance(e, ast.Call) and isinstance(e.func, ast.Name) and e.args and isinstance(e.args[0], ast.Name) and e.args[0].id == var:
            if e.func.id == "isinstance" and "Undefined" not in ast.unparse(e.args[1] if len(e.args) > 1 else e):
                return -1 if neg else 1
            if e.func.id == "is_undefined":
                return 1 if neg else -1
        return 0

    for m, qual, cls, fn, parent in _all_functions(repo):
        opt = {}
        for n in own_nodes(fn):
            if isinstance(n, ast.Assign) and len(n.targets) == 1 and isinstance(n.targets[0], ast.Name) and any(_is_opt_resolve(c) for c in ast.walk(n.value)):
                opt[n.targets[0].id] = n.lineno
        parents = {}
        for n in own_nodes(fn):
            for ch in ast.iter_child_nodes(n):
                parents[id(ch)] = n
        for var, line in opt.items():
            n_sites += 1
            bad = []
            for n in own_nodes(fn):
                uses = []   # (node, what)
                if isinstance(n, (ast.If, ast.While, ast.IfExp)) and isinstance(n.test, ast.Name):
                    uses.append((n.test, "truth test"))
                elif isinstance(n, ast.BoolOp):
                    uses.extend((v, "truth test") for v in n.values if isinstance(v, ast.Name))
                elif isinstance(n, ast.UnaryOp) and isinstance(n.op, ast.Not) and isinstance(n.operand, ast.Name):
                    uses.append((n.operand, "truth test"))
                elif isinstance(n, ast.Compare):
                    for opnd, op in zip([n.left] + list(n.comparators), [None] + list(n.ops)):
                        if isinstance(opnd, ast.Name) and not all(isinstance(o, (ast.Is, ast.IsNot)) for o in n.ops):
                            uses.append((opnd, "comparison"))
                for t, what in uses:
                    if not (t.id == var and getattr(t, "lineno", 0) >= line):
                        continue
                    guarded = False
                    # (a) an earlier `if` that tested is_undefined(var) settles definedness on both branches; an isinstance(var, T)
                    #     test says something only where it succeeded (in the body of that `if`)
                    for g in own_nodes(fn):
                        if not (isinstance(g, ast.If) and g.lineno <= t.lineno and g.test is not t and not any(x is t for x in ast.walk(g.test))):
                            continue
                        tests = [g.test] + (list(g.test.values) if isinstance(g.test, ast.BoolOp) else [])
                        if any(isinstance(c, ast.Call) and isinstance(c.func, ast.Name) and c.func.id == "is_undefined" and c.args and isinstance(c.args[0], ast.Name) and c.args[0].id == var
                               for c in ast.walk(g.test)):
                            guarded = True
                        elif any(_type_test(e, var) == 1 for e in tests) and not (isinstance(g.test, ast.BoolOp) and isinstance(g.test.op, ast.Or)) \
                                and any(x is t for st in g.body for x in ast.walk(st)):
                            guarded = True
                    # (b) short circuit inside one boolean expression: `isinstance(v, T) and <use>` / `not isinstance(v, T) or <use>`
                    cur = t
                    while id(cur) in parents and not guarded:
                        par = parents[id(cur)]
                        if isinstance(par, ast.BoolOp):
                            idx = [i for i, v in enumerate(par.values) if v is cur or any(x is cur for x in ast.walk(v))]
                            before = par.values[:idx[0]] if idx else []
                            if isinstance(par.op, ast.And) and any(_type_test(e, var) == 1 for e in before):
                                guarded = True
                            if isinstance(par.op, ast.Or) and any(_type_test(e, var) == -1 for e in before):
                                guarded = True
                        if isinstance(par, ast.stmt):
                            break
                        cur = par
                    if not guarded:
                        bad.append(f"line {t.lineno}: {what} of `{var}`")
            _ob(obs, f"{m.name}:{qual}/site.optional-lookup-guarded.{var}", not bad,
                f"`{var}` = context.resolve(..) (optional variable) is examined through is_undefined()/isinstance() before any truth test or comparison" if not bad
                else f"`{var}` may be undefined (optional context variable) and is examined directly ({bad[0]}): under StrictUndefined that raises although the template never used the name")
    # an Undefined is constructed for a *missing* name only - never because a value that exists happens to be nil / falsy.
    # A local assigned from an evaluation (expr.evaluate(..), get_item(..), a lookup) is a data value; `if <data value> is None`
    # (or a truth test of it) must not decide that an Undefined is made.
    n_ctor = 0
    for m, qual, cls, fn, parent in _all_functions(repo):
        if m.name == "liquid2.undefined":
            continue
        ctor = [c for c in _calls(fn) if isinstance(c.func, ast.Attribute) and c.func.attr == "undefined" and any(x is c for x in own_nodes(fn))]
        if not ctor:
            continue
        data = set()
        for n in own_nodes(fn):
            if isinstance(n, ast.Assign) and any(isinstance(c, ast.Call) and isinstance(c.func, ast.Attribute) and c.func.attr in ("evaluate", "evaluate_async", "get_item", "get_item_async")
                                                 for c in ast.walk(n.value)):
                data.update(t.id for t in n.targets if isinstance(t, ast.Name))
        for c in ctor:
            n_ctor += 1
            bad = []
            for g in own_nodes(fn):
                if isinstance(g, (ast.If, ast.IfExp)) and any(x is c for st in (g.body if isinstance(g.body, list) else [g.body]) + (g.orelse if isinstance(g.orelse, list) else [g.orelse]) for x in ast.walk(st)):
                    tops = [g.test] + [v for b in ast.walk(g.test) if isinstance(b, ast.BoolOp) for v in b.values] \
                        + [u.operand for u in ast.walk(g.test) if isinstance(u, ast.UnaryOp) and isinstance(u.op, ast.Not)]
                    for x in ast.walk(g.test):
                        nil_cmp = isinstance(x, ast.Compare) and any(isinstance(o, ast.Name) and o.id in data for o in [x.left] + x.comparators) \
                            and any(isinstance(o, ast.Constant) and o.value is None for o in [x.left] + x.comparators)
                        truth = isinstance(x, ast.Name) and x.id in data and any(x is t for t in tops)
                        if nil_cmp or truth:
                            bad.append(f"`{ast.unparse(g.test)}` (line {g.lineno}) tests the evaluated value for nil / falsiness")
            _ob(obs, f"{m.name}:{qual}/site.undefined-only-for-missing@{_ordinal(fn, c)}", not bad,
                "the Undefined is made where a name / argument is missing, not depending on an evaluated value" if not bad
                else f"an Undefined is constructed depending on {bad[0]}: a variable that exists with value nil would fail a strict render")
    _ob(obs, "liquid2/site.undefined-constructors.count", n_ctor >= 12, f"{n_ctor} Undefined construction sites outside liquid2.undefined")
    # the default policy never fails with UndefinedError: that error is raised by the strict policies' own methods only - no other
    # module of the package raises it (for an undefined value of whatever policy)
    raisers = []
    for m, qual, cls, fn, parent in _all_functions(repo):
        if m.name == "liquid2.undefined":
            continue
        for r in own_nodes(fn):
            if isinstance(r, ast.Raise) and r.exc is not None and "UndefinedError" in ast.unparse(r.exc.func if isinstance(r.exc, ast.Call) else r.exc):
                raisers.append(f"{m.name}:{qual} line {r.lineno}")
    _ob(obs, "liquid2/site.undefined-error-raised-by-policies-only", not raisers,
        "UndefinedError is raised in liquid2/undefined.py only" if not raisers
        else f"{raisers[0]} raises UndefinedError itself: it does so for the default (lax) Undefined too, under which a missing variable never fails that way")
    # a strict failure is never swallowed: no handler in the package catches a class wide enough to include UndefinedError
    # (LiquidError, UndefinedError, Exception, BaseException, bare except) without raising again
    n_broad = 0
    for m, qual, cls, fn, parent in _all_functions(repo):
        for t in own_nodes(fn):
            if not isinstance(t, ast.Try):
                continue
            for h in t.handlers:
                names = ast.unparse(h.type) if h.type is not None else "<bare except>"
                parts = [p.strip(" ()") for p in names.split(",")]
                if not any(p in ("LiquidError", "UndefinedError", "Exception", "BaseException", "<bare except>") for p in parts):
                    continue
                n_broad += 1
                reraises = any(isinstance(x, ast.Raise) for st in h.body for x in ast.walk(st))
                _ob(obs, f"{m.name}:{qual}/site.undefined-error-not-swallowed@{_ordinal(fn, t, ast.Try)}", reraises,
                    f"`except {names}` raises again" if reraises
                    else f"`except {names}` ends without raising: an UndefinedError raised under a strict policy inside the try is turned into a value, and the strict render succeeds with different output")
    _ob(obs, "liquid2/site.broad-handlers.count", n_broad >= 3, f"{n_broad} handlers wide enough to catch UndefinedError")
    _ob(obs, "liquid2/site.optional-lookups.count", n_sites >= 4, f"{n_sites} optional context lookups found")
    # strict failures are the same on both paths: twin obligations of every evaluate / render pair
    from .twin import run_twin
    tw = run_twin(repo_root, tier)
    obs += [o for o in tw["obligations"] if o["oid"].endswith("/twin") and (".evaluate/" in o["oid"] or ".render_to_output/" in o["oid"])]
    return {"obligations": obs, "samples": [], "trusted": [], "functions": [], "assumptions": []}
