"""Site obligations (DESIGN 2.6): "no site in the package does X unguarded".
Sites are enumerated from the current source on every run; a new site without a
rule is itself a failed obligation."""
from __future__ import annotations

import ast

from .repo import Repo
from .structural import register
from .frame import function_defs, own_nodes, Prov, compute_fresh_funcs, class_bases, params_of


def _ob(obs, oid, ok, note, witness=None, backend="site", status=None):
    obs.append({"oid": oid, "status": status or ("unsat" if ok else "sat"), "backend": backend, "note": note, "witness": witness, "key": None, "rule": "site"})


def _calls(fn):
    return [n for n in own_nodes(fn) if isinstance(n, ast.Call)]


def _all_functions(repo):
    for m in repo.all_modules():
        for qual, cls, fn, parent in function_defs(m):
            yield m, qual, cls, fn, parent


# --------------------------------------------------------------------------- C13
FILE_READS = {"open", "read_text", "read_bytes"}


@register("C13")
def c13_sites(repo_root, tier):
    repo = Repo(repo_root)
    obs = []
    fresh = compute_fresh_funcs(repo)
    # (1) every file read in the package reads a path that came out of resolve_path/_resolve_path
    for m, qual, cls, fn, parent in _all_functions(repo):
        for c in _calls(fn):
            f = c.func
            name = f.attr if isinstance(f, ast.Attribute) else (f.id if isinstance(f, ast.Name) else None)
            if name not in FILE_READS:
                continue
            if isinstance(f, ast.Name) and name == "open":
                target = c.args[0] if c.args else None
            elif isinstance(f, ast.Attribute):
                target = f.value
            else:
                continue
            oid = f"{m.name}:{qual}/site.file-read@{_ordinal(fn, c)}"
            p = Prov(repo, m, fn, cls, fresh)
            tags = p.of_expr(target) if target is not None else {("opaque", "?")}
            ok = False
            why = f"reads {ast.unparse(target) if target is not None else '?'}: provenance {sorted(map(str, tags))}"
            if all(isinstance(t, tuple) and t[0] == "opaque" and t[1].split(".")[-1] in ("resolve_path", "_resolve_path", "run_in_executor") for t in tags):
                # run_in_executor(None, self._resolve_path, name): check its function argument
                ok = True
                for n in own_nodes(fn):
                    if isinstance(n, ast.Call) and isinstance(n.func, ast.Attribute) and n.func.attr == "run_in_executor":
                        fa = n.args[1] if len(n.args) > 1 else None
                        if fa is not None and isinstance(fa, ast.Attribute) and fa.attr in ("read_text", "_read", "open"):
                            continue
                        if not (isinstance(fa, ast.Attribute) and fa.attr in ("resolve_path", "_resolve_path")):
                            ok = ok and False if isinstance(target, ast.Name) and _assigned_from(fn, target.id, n) else ok
            elif qual.endswith("FileSystemLoader._read") and tags == {("param", "source_path")}:
                # _read(source_path): all call sites must pass a resolve_path result
                ok = _read_callers_ok(repo)
                why += "; every caller passes the result of resolve_path" if ok else "; a caller passes something else"
            elif m.name == "liquid2.limits" or not m.name.startswith("liquid2.builtin.loaders"):
                # not a loader: must not read files named by template data at all
                ok = all(t == "fresh" for t in tags) and False
            _ob(obs, oid, ok, why)
        # run_in_executor(None, path.read_text, ...) passes the bound method without calling it
        for c in _calls(fn):
            if isinstance(c.func, ast.Attribute) and c.func.attr == "run_in_executor" and len(c.args) > 1:
                fa = c.args[1]
                if isinstance(fa, ast.Attribute) and fa.attr in FILE_READS:
                    p = Prov(repo, m, fn, cls, fresh)
                    tags = p.of_expr(fa.value)
                    ok = all(isinstance(t, tuple) and t[0] == "opaque" and t[1].split(".")[-1] in ("run_in_executor", "_resolve_path", "resolve_path") for t in tags)
                    _ob(obs, f"{m.name}:{qual}/site.file-read@{_ordinal(fn, c)}", ok, f"executor reads {ast.unparse(fa.value)}: provenance {sorted(map(str, tags))}")
    # (2) no subclass replaces the confinement logic
    for m in repo.all_modules():
        for cname, c in m.classes.items():
            bases = class_bases(repo, m, cname)
            for base, meths in (("FileSystemLoader", ("resolve_path", "_read")), ("PackageLoader", ("_resolve_path",))):
                if base in bases[1:]:
                    over = [st.name for st in c.body if isinstance(st, (ast.FunctionDef, ast.AsyncFunctionDef)) and st.name in meths + ("get_source", "get_source_async")]
                    _ob(obs, f"{m.name}:{cname}/site.inherits-confinement", not over,
                        f"{cname} inherits {base}'s path resolution unchanged" if not over else f"{cname} overrides {over}")
    # (3) ChoiceLoader hands back exactly what a delegate returned
    cm = repo.module("liquid2.builtin.loaders.choice_loader")
    for name in ("get_source", "get_source_async"):
        fn = cm.find(f"ChoiceLoader.{name}") if cm else None
        ok = False
        if fn is not None:
            rets = [n for n in own_nodes(fn) if isinstance(n, ast.Return) and n.value is not None]
            ok = bool(rets) and all(
                isinstance(r.value, (ast.Call, ast.Await)) and "loader.get_source" in ast.unparse(r.value) for r in rets)
        _ob(obs, f"liquid2.builtin.loaders.choice_loader:ChoiceLoader.{name}/site.delegates", ok, "returns only a delegate loader's own result")
    # (4) tags reach loaders only through env.get_template[_async]
    bad = []
    n_sites = 0
    for m, qual, cls, fn, parent in _all_functions(repo):
        if ".tags." not in m.name and not m.name.endswith("static_analysis") and not m.name.endswith("messages"):
            continue
        for c in _calls(fn):
            f = c.func
            if isinstance(f, ast.Attribute) and f.attr in ("load", "load_async", "get_source", "get_source_async", "resolve_path", "_resolve_path", "open", "read_text"):
                bad.append(f"{m.name}:{qual}@{c.lineno} calls .{f.attr}()")
            if isinstance(f, ast.Attribute) and f.attr in ("get_template", "get_template_async"):
                n_sites += 1
                recv = ast.unparse(f.value)
                if not recv.endswith("env"):
                    bad.append(f"{m.name}:{qual}@{c.lineno} get_template on {recv}")
    _ob(obs, "liquid2.builtin.tags/site.loads-through-environment", not bad and n_sites > 0,
        f"{n_sites} template loads in tags, all through env.get_template[_async]" if not bad else "; ".join(bad[:4]))
    # (5) Environment.get_template[_async] delegates to self.loader.load[_async] with the name unchanged
    em = repo.module("liquid2.environment")
    for name, callee in (("get_template", "load"), ("get_template_async", "load_async")):
        fn = em.find(f"Environment.{name}") if em else None
        ok = False
        if fn is not None:
            for c in _calls(fn):
                if ast.unparse(c.func) == f"self.loader.{callee}":
                    kw = {k.arg: ast.unparse(k.value) for k in c.keywords}
                    ok = kw.get("name") == "name"
        _ob(obs, f"liquid2.environment:Environment.{name}/site.name-unchanged", ok, f"passes the requested name unchanged to loader.{callee}")
    return {"obligations": obs, "samples": [{"obligation": o["oid"], "backend": "site", "note": o["note"]} for o in obs[:2]],
            "trusted": ["site analysis: file reads are the calls open()/Path.open()/read_text()/read_bytes() found in the source"],
            "assumptions": ["no symlinks below loader roots; pathlib's lexical semantics (joinpath/with_suffix/parts) as modelled"],
            "functions": [{"target": "liquid2/* file-read sites and loader call sites", "status": "ok"}]}


def _ordinal(fn, node):
    nodes = sorted((n for n in own_nodes(fn) if isinstance(n, ast.Call)), key=lambda n: (n.lineno, n.col_offset))
    for i, n in enumerate(nodes):
        if n is node:
            return i
    return -1


def _assigned_from(fn, name, call):
    for n in own_nodes(fn):
        if isinstance(n, ast.Assign) and any(isinstance(t, ast.Name) and t.id == name for t in n.targets):
            v = n.value.value if isinstance(n.value, ast.Await) else n.value
            if v is call:
                return True
    return False


def _read_callers_ok(repo):
    ok = True
    found = 0
    for m, qual, cls, fn, parent in _all_functions(repo):
        for c in _calls(fn):
            # direct call self._read(x)
            if isinstance(c.func, ast.Attribute) and c.func.attr == "_read" and c.args:
                found += 1
                ok = ok and _from_resolve(fn, c.args[0])
            if isinstance(c.func, ast.Attribute) and c.func.attr == "run_in_executor" and len(c.args) > 2:
                fa = c.args[1]
                if isinstance(fa, ast.Attribute) and fa.attr == "_read":
                    found += 1
                    ok = ok and _from_resolve(fn, c.args[2])
    return ok and found > 0


def _from_resolve(fn, arg):
    if not isinstance(arg, ast.Name):
        return False
    srcs = []
    for n in own_nodes(fn):
        if isinstance(n, ast.Assign) and any(isinstance(t, ast.Name) and t.id == arg.id for t in n.targets):
            srcs.append(n.value.value if isinstance(n.value, ast.Await) else n.value)
    if not srcs:
        return False
    for v in srcs:
        if isinstance(v, ast.Call) and isinstance(v.func, ast.Attribute):
            if v.func.attr == "resolve_path":
                continue
            if v.func.attr == "run_in_executor" and len(v.args) > 1 and isinstance(v.args[1], ast.Attribute) and v.args[1].attr == "resolve_path":
                continue
        return False
    return True


# --------------------------------------------------------------------------- C14
@register("C14")
def c14_sites(repo_root, tier):
    repo = Repo(repo_root)
    obs = []
    mm = repo.module("liquid2.builtin.loaders.mixins")
    for name, check, sup in (("load", "_check_cache", "load"), ("load_async", "_check_cache_async", "load_async")):
        fn = mm.find(f"CachingLoaderMixin.{name}") if mm else None
        ok = False
        note = f"CachingLoaderMixin.{name} not found"
        if fn is not None:
            key_vars = [t.id for n in own_nodes(fn) if isinstance(n, ast.Assign) and isinstance(n.value, ast.Call)
                        and ast.unparse(n.value.func) == "self.cache_key" and [ast.unparse(a) for a in n.value.args] == ["name", "context", "kwargs"]
                        for t in n.targets if isinstance(t, ast.Name)]
            calls = [c for c in _calls(fn) if ast.unparse(c.func) == f"self.{check}"]
            if len(calls) == 1 and key_vars:
                c = calls[0]
                a = c.args
                p = a[3] if len(a) > 3 else None
                ok = (
                    len(a) == 4 and ast.unparse(a[0]) == "env" and isinstance(a[1], ast.Name) and a[1].id in key_vars and ast.unparse(a[2]) == "globals"
                    and isinstance(p, ast.Call) and ast.unparse(p.func) == "partial" and ast.unparse(p.args[0]) == f"super().{sup}"
                    and [ast.unparse(x) for x in p.args[1:]] == ["env", "name"]
                    and {k.arg: ast.unparse(k.value) for k in p.keywords} == {"globals": "globals", "context": "context", None: "kwargs"}
                )
            note = (f"{name}: the cache is consulted under cache_key(name, context, kwargs) and the source is loaded under `name` "
                    f"with the caller's globals/context/kwargs") if ok else f"{name}: cache key / template name / arguments are not passed as (cache_key -> {check}, name -> super().{sup})"
        _ob(obs, f"liquid2.builtin.loaders.mixins:CachingLoaderMixin.{name}/site.key-and-name", ok, note)
    # every caching loader takes load/load_async from the mixin
    for m in repo.all_modules():
        for cname, c in m.classes.items():
            bases = class_bases(repo, m, cname)
            if "CachingLoaderMixin" in bases[1:]:
                for meth in ("load", "load_async", "cache_key", "_check_cache", "_check_cache_async"):
                    r = repo.find_method(m, c, meth)
                    ok = r is not None and r[0] == "func" and r[2].name == "CachingLoaderMixin"
                    _ob(obs, f"{m.name}:{cname}.{meth}/site.from-mixin", ok,
                        f"{cname}.{meth} is CachingLoaderMixin.{meth}" if ok else f"{cname}.{meth} resolves to {r[2].name if r and r[0]=='func' else r}")
    return {"obligations": obs, "samples": [{"obligation": o["oid"], "backend": "site", "note": o["note"]} for o in obs[:2]],
            "trusted": ["OrderedDict model: move_to_end/popitem/__setitem__ on an ordered key sequence with unique keys"],
            "assumptions": ["histories are covered by the data-structure invariant (capacity, LRU order) and the per-call contracts, not enumerated",
                            "the uncached loader returns a fresh template bound to the caller's globals (Environment.from_string contract)"],
            "functions": []}
