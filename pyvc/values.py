"""Symbolic values, heap objects and control signals of the VC generator."""
from __future__ import annotations

import z3

IntSort = z3.IntSort()
BoolSort = z3.BoolSort()
RealSort = z3.RealSort()
StrSort = z3.SeqSort(z3.IntSort())  # strings are sequences of code points (see DESIGN 2.2)
ObjSort = z3.DeclareSort("Obj")


class SV:
    """A symbolic value wrapping a z3 term."""

    __slots__ = ("t",)
    kind = "?"

    def __init__(self, t):
        self.t = t

    def __repr__(self):
        s = str(self.t)
        return f"<{self.kind} {s[:60]}>"


class SInt(SV):
    kind = "int"


class SBool(SV):
    kind = "bool"


class SStr(SV):
    kind = "str"


class SReal(SV):
    """A *finite* float or Decimal, read as a mathematical real (assumption:
    machine arithmetic treated as mathematical; listed in evidence)."""

    __slots__ = ("t", "num")
    kind = "real"

    def __init__(self, t, num="float"):
        self.t = t
        self.num = num  # 'float' | 'decimal'


class SAny(SV):
    """An opaque value of unknown dynamic type."""

    kind = "any"


class SSeq(SV):
    """A symbolic immutable sequence; `elem` is the kind of its elements."""

    __slots__ = ("t", "elem", "rev")
    kind = "seq"

    def __init__(self, t, elem):
        self.t = t
        self.elem = elem
        self.rev = False


class SLazy:
    """A value whose alternative (one of a Union type) is chosen when first read."""

    def __init__(self, tag, alts, name):
        self.tag = tag  # z3 Int
        self.alts = alts  # list of Type
        self.name = name
        self.resolved = None
        self.defer = False   # True: stays unresolved while it is only passed around (e.g. used as a dict key that covers all alternatives)


class SMarkup(SV):
    """markupsafe.Markup value: a str subclass carrying the safe-by-type invariant."""

    kind = "markup"


ELEM_SORT = {"int": IntSort, "str": StrSort, "bool": BoolSort, "any": ObjSort, "real": RealSort,
             "seq_any": z3.SeqSort(ObjSort)}


def wrap(t, kind, num="float"):
    if kind == "int":
        return SInt(t)
    if kind == "bool":
        return SBool(t)
    if kind == "str":
        return SStr(t)
    if kind == "real":
        return SReal(t, num)
    if kind == "any":
        return SAny(t)
    if kind == "markup":
        return SMarkup(t)
    if kind == "seq_any":
        return SSeq(t, "any")
    raise ValueError(kind)


def str_const(s: str):
    if not s:
        return z3.Empty(StrSort)
    units = [z3.Unit(z3.IntVal(ord(c))) for c in s]
    return units[0] if len(units) == 1 else z3.Concat(*units)


class ClassRef:
    """A class of the repository (mod, node) or an external class (pyobj)."""

    def __init__(self, name, mod=None, node=None, pyobj=None):
        self.name = name
        self.mod = mod
        self.node = node
        self.pyobj = pyobj

    def __repr__(self):
        return f"<class {self.name}>"


class HObj:
    """Heap object: instance of a class with named fields."""

    def __init__(self, cls: ClassRef, fields=None, label=None):
        self.cls = cls
        self.fields = fields if fields is not None else {}
        self.label = label

    def __repr__(self):
        return f"<obj {self.cls.name} {self.label or ''}>"


class HList:
    """Heap list. Either `items` (python list of values, known length) or `sym`
    (SSeq, symbolic content)."""

    def __init__(self, items=None, sym=None):
        self.items = items
        self.sym = sym


class HJoin:
    """list[str] that is only appended to and finally joined: represented by the
    concatenation of its elements (exact for append/extend-of-str/join)."""

    def __init__(self, acc):
        self.acc = acc  # SStr | str
        self.count = 0


class HListView:
    """`d[k]` of a dict of lists: a live view (alias) of the list stored under key k."""

    def __init__(self, d, kt):
        self.d = d
        self.kt = kt

    @property
    def seq(self):
        return z3.Select(self.d.val, self.kt)


class HSet:
    """Heap set with symbolic members: `has` Array(K -> Bool), `count` Int (number of members)."""

    def __init__(self, kind=None, has=None, count=None):
        self.kind = kind
        self.has = has
        self.count = count if count is not None else z3.IntVal(0)


class HSpecList:
    """A list abstracted by ghost state (`state`) with contract-supplied hooks for its
    operations (e.g. `append` issues the tiling obligations and advances `last_stop`)."""

    def __init__(self, name, hooks, state):
        self.name = name
        self.hooks = hooks
        self.state = state


class HDict:
    """Heap dict. concrete: python dict (concrete hashable keys -> values).
    symbolic: `has` Array(K->Bool), `val` Array(K->V), optional `order` Seq(K)."""

    def __init__(self, concrete=None, ksort=None, vkind=None, has=None, val=None, order=None):
        self.concrete = concrete
        self.ksort = ksort
        self.vkind = vkind
        self.has = has
        self.val = val
        self.order = order


class Tagged(tuple):
    """Engine pseudo-values (sets, deferred generators, ...): a tuple subclass with a
    tag in slot 0, never confused with a program-level tuple."""

    def __new__(cls, *a):
        return super().__new__(cls, a)


def is_tagged(v, *tags):
    return isinstance(v, Tagged) and (not tags or v[0] in tags)


class ExcVal:
    def __init__(self, cls: str, args=(), attrs=None, clsref=None):
        self.cls = cls
        self.args = tuple(args)
        self.attrs = attrs or {}
        self.clsref = clsref

    def __repr__(self):
        return f"<exc {self.cls}>"


class FuncRef:
    def __init__(self, mod, node, cls=None, closure=None, qual=None):
        self.mod = mod
        self.node = node
        self.cls = cls  # (mod, ClassDef) of the defining class, for super()
        self.closure = closure
        self.qual = qual or getattr(node, "name", "<lambda>")

    def __repr__(self):
        return f"<func {self.qual}>"


class BoundMethod:
    def __init__(self, self_val, func: FuncRef):
        self.self_val = self_val
        self.func = func


class ExternalRef:
    """A value from outside the repository (stdlib / third party), the real object."""

    def __init__(self, obj, qual):
        self.obj = obj
        self.qual = qual

    def __repr__(self):
        return f"<external {self.qual}>"


class BoundIntrinsic:
    def __init__(self, recv, tname, mname):
        self.recv = recv
        self.tname = tname
        self.mname = mname

    def __repr__(self):
        return f"<method {self.tname}.{self.mname}>"


class ModuleRef:
    def __init__(self, mod):
        self.mod = mod


class EnumVal:
    def __init__(self, enum, member):
        self.enum = enum
        self.member = member

    def __eq__(self, o):
        return isinstance(o, EnumVal) and (self.enum, self.member) == (o.enum, o.member)

    def __hash__(self):
        return hash((self.enum, self.member))

    def __repr__(self):
        return f"{self.enum}.{self.member}"


class PyCallable:
    """An engine-level model of a callable parameter: fn(ex, args, kwargs) -> value (may raise RaiseSig)."""

    def __init__(self, fn, label="callable"):
        self.fn = fn
        self.label = label


class SuperRef:
    def __init__(self, self_val, cls):
        self.self_val = self_val
        self.cls = cls  # (mod, ClassDef) whose MRO successor is searched


class SpecRef:
    def __init__(self, name, fn):
        self.name = name
        self.fn = fn


# ---- control signals ------------------------------------------------------


class Signal(Exception):
    pass


class ReturnSig(Signal):
    def __init__(self, value):
        self.value = value


class BreakSig(Signal):
    pass


class ContinueSig(Signal):
    pass


class RaiseSig(Signal):
    def __init__(self, exc: ExcVal, primitive=None):
        self.exc = exc
        self.primitive = primitive  # description of the primitive that raised, if implicit


class PathEnd(Signal):
    """The current path is finished (infeasible, or cut after a loop body)."""

    def __init__(self, why=""):
        self.why = why


class Unsupported(Exception):
    """Construct outside the supported subset: the function is *undecided*."""


# ---- solver calls: z3's own timeout; a hang inside z3 is caught by the per-check wall-clock guard
# in pyvc/check.py (worker processes are terminated), because interrupting z3 from a second
# thread corrupted its heap in this build.
def timed_check(solver, ms, *assumptions):
    try:
        return solver.check(*assumptions)
    except z3.Z3Exception:
        return z3.unknown
