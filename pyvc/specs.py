"""Specification functions usable in contract clauses (DESIGN 3, Appendix C).
Each has a symbolic meaning (`sym`) and a native reference implementation (`py`)
used by the replay harness and the run-time cross-check."""
from __future__ import annotations

import ast

import z3

from .values import *  # noqa: F403
from . import intrinsics as I_

REGISTRY: dict = {}


class SpecFn:
    def __init__(self, name, sym, py):
        self.name = name
        self._sym = sym
        self.py = py

    def sym(self, ex, *args, **kw):
        return self._sym(ex, *args, **kw)


def spec(name, py):
    def deco(fn):
        REGISTRY[name] = SpecFn(name, fn, py)
        return fn

    return deco


# -- logic ----------------------------------------------------------------------
@spec("implies", lambda a, b: (not a) or b)
def _implies(ex, a, b):
    ta, tb = ex.truth(a), ex.truth(b)
    if isinstance(ta, bool):
        return tb if ta else True
    if isinstance(tb, bool):
        return True if tb else ex.to_bool_value(z3.Not(ta))
    return SBool(z3.Implies(ta, tb))


@spec("iff", lambda a, b: bool(a) == bool(b))
def _iff(ex, a, b):
    ta, tb = ex.truth(a), ex.truth(b)
    ta = z3.BoolVal(ta) if isinstance(ta, bool) else ta
    tb = z3.BoolVal(tb) if isinstance(tb, bool) else tb
    return ex.to_bool_value(ta == tb)


@spec("ite", lambda c, a, b: a if c else b)
def _ite(ex, c, a, b):
    tc = ex.truth(c)
    if isinstance(tc, bool):
        return a if tc else b
    ta, ka = ex.lift(a)
    tb, kb = ex.lift(b)
    if ka != kb:
        raise Unsupported("ite with different kinds")
    return wrap(z3.If(tc, ta, tb), ka)


# -- strings ----------------------------------------------------------------------
def _utf8len_py(s):
    return len(s.encode("utf-8", "surrogatepass"))


def utf8len_term(ex, t):
    """utf8len with its homomorphism unfolded structurally (axioms: additive over
    concatenation, 0 on the empty string, len <= utf8len <= 4*len)."""
    if z3.is_app(t) and t.decl().kind() == z3.Z3_OP_SEQ_CONCAT:
        return z3.Sum(*[utf8len_term(ex, t.arg(i)) for i in range(t.num_args())])
    if z3.is_app(t) and t.decl().kind() == z3.Z3_OP_SEQ_EMPTY:
        return z3.IntVal(0)
    r = I_.F_utf8len(t)
    key = ("utf8len", t.sexpr())
    if key not in ex.facts_seen:
        ex.facts_seen.add(key)
        ex.assume(z3.And(r >= z3.Length(t), r <= 4 * z3.Length(t)))
    return r


@spec("utf8len", _utf8len_py)
def _utf8len(ex, s):
    ex.used_intrinsics.add("utf8len: additive over concatenation, len(s) <= utf8len(s) <= 4*len(s)")
    if isinstance(s, str):
        return _utf8len_py(s)
    return SInt(utf8len_term(ex, s.t))


def _nl_py(s):
    return s.replace("\r\n", "\n").replace("\r", "\n")


@spec("nl_translate", _nl_py)
def _nl(ex, s):
    return SStr(I_.F_nl_translate(ex.to_str_term(s)))


@spec("concat", lambda *a: "".join(a))
def _concat(ex, *parts):
    return SStr(z3.Concat(*[ex.to_str_term(p) for p in parts])) if len(parts) > 1 else parts[0]


# -- folds ----------------------------------------------------------------------
def _fold_fn(name):
    return z3.Function(name, z3.SeqSort(ObjSort), IntSort)


def field_fn(field, kind="int"):
    return z3.Function(f"field_{field}", ObjSort, ELEM_SORT[kind])


def product_term(ex, seq_t, field):
    """prod_field(seq): product of x.field over seq; unfolded at concat/unit/empty and
    at init-segments (s[0:len-1]) that occur."""
    F = _fold_fn(f"prod_{field}")
    fld = field_fn(field)
    if z3.is_app(seq_t):
        k = seq_t.decl().kind()
        if k == z3.Z3_OP_SEQ_EMPTY:
            return z3.IntVal(1)
        if k == z3.Z3_OP_SEQ_UNIT:
            return fld(seq_t.arg(0))
        if k == z3.Z3_OP_SEQ_CONCAT:
            r = product_term(ex, seq_t.arg(0), field)
            for i in range(1, seq_t.num_args()):
                r = r * product_term(ex, seq_t.arg(i), field)
            return r
        if k == z3.Z3_OP_SEQ_EXTRACT:
            base, lo, ln = seq_t.arg(0), seq_t.arg(1), seq_t.arg(2)
            # s[0:len(s)-1] with len(s) > 0 :  prod(s) = prod(init) * last.field
            key = ("prod-init", seq_t.sexpr())
            if key not in ex.facts_seen:
                ex.facts_seen.add(key)
                blen = z3.Length(base)
                cond = z3.And(lo == 0, ln == blen - 1, blen > 0)
                ex.assume(z3.Implies(cond, product_term(ex, base, field) == F(seq_t) * fld(base[blen - 1])))
    return F(seq_t)


@spec("Product", None)
def _product(ex, seq, field="length"):
    s = ex.as_symbolic_seq(seq)
    if s is None:
        items = ex.iter_concrete(seq)
        r = 1
        for x in items:
            r = ex.binop(ast.Mult(), r, ex.getattr(x, field))
        return r
    return SInt(product_term(ex, s.t, field))


def fold_product(ex, gen, init):
    """reduce(mul, (<x>.<field> for <x> in seq), init)"""
    _, node, frame, seq = gen
    g = node.generators[0]
    elt = node.elt
    if (
        isinstance(elt, ast.Attribute)
        and isinstance(elt.value, ast.Name)
        and isinstance(g.target, ast.Name)
        and elt.value.id == g.target.id
        and not g.ifs
        and seq.elem == "any"
    ):
        ex.used_intrinsics.add("functools.reduce(mul, (x.f for x in seq), init) = init * product of x.f over seq")
        return ex.binop(ast.Mult(), init, SInt(product_term(ex, seq.t, elt.attr)))
    raise Unsupported("reduce(mul, <generator>) of unsupported shape")


def fold_sum(ex, gen, init):
    _, node, frame, seq = gen
    src = ast.unparse(node.elt)
    F = z3.Function(f"sum[{src}]", seq.t.sort(), IntSort)
    ex.used_intrinsics.add(f"sum(<{src}> for x in seq) as an uninterpreted fold")
    r = SInt(F(seq.t))
    # sizes are non-negative when the body is sys.getsizeof
    if "getsizeof" in src:
        ex.assume(r.t >= 0)
    return ex.binop(ast.Add(), init, r)


# -- opaque mappings ---------------------------------------------------------------
@spec("map_has", lambda m, k: k in m)
def _map_has(ex, m, k):
    kt, kk = ex.lift(k)
    return SBool(z3.Function(f"map_has_{kk}", ObjSort, ELEM_SORT[kk], BoolSort)(m.t, kt))


@spec("map_at", lambda m, k: m[k])
def _map_at(ex, m, k):
    kt, kk = ex.lift(k)
    return SAny(z3.Function(f"map_at_{kk}", ObjSort, ELEM_SORT[kk], ObjSort)(m.t, kt))


# -- paths ---------------------------------------------------------------------------
def _inside_py(p, roots):
    import os

    rp = os.path.normpath(os.path.abspath(str(p)))
    return any(rp.startswith(os.path.normpath(os.path.abspath(str(r))) + os.sep) for r in roots)


@spec("inside", _inside_py)
def _inside(ex, p, roots=None):
    """The resolved path is lexically inside the search root it was joined to."""
    if getattr(p, "inside", None) is None:
        return False
    return ex.to_bool_value(p.inside)


@spec("is_file", lambda p: p.is_file())
def _isfile(ex, p):
    if not hasattr(p, "isfile"):
        return False
    return ex.to_bool_value(p.isfile)


@spec("is_absolute_name", lambda s: __import__("pathlib").Path(s).is_absolute())
def _is_abs(ex, s):
    from .intrinsics_lib import P_abs

    return SBool(P_abs(ex.to_str_term(s)))


@spec("has_pardir", lambda s: ".." in __import__("pathlib").Path(s).parts)
def _has_pardir(ex, s):
    from .intrinsics_lib import P_pardir

    return SBool(P_pardir(ex.to_str_term(s)))


# -- ghost call trace -----------------------------------------------------------------
@spec("calls", None)
def _calls(ex, name):
    """Number of opaque (dynamically dispatched) calls of method `name` on this path."""
    return sum(1 for e in ex.trace if e[0] == "call" and e[1] == name)


@spec("range_start", lambda r: r.start)
def _range_start(ex, r):
    if isinstance(r, range):
        return r.start
    return r[1]


@spec("range_len", lambda r: len(r))
def _range_len(ex, r):
    if isinstance(r, range):
        return len(r)
    lo, hi = ex.to_int_term(r[1]), ex.to_int_term(r[2])
    return SInt(z3.If(hi - lo > 0, hi - lo, 0))


# -- ghost scalars ---------------------------------------------------------------------------
@spec("ghost", None)
def _ghost(ex, name):
    t = ex.ghost[name]
    if z3.is_int(t):
        return SInt(t)
    if z3.is_bool(t):
        return SBool(t)
    return SAny(t)


@spec("is_new", None)
def _is_new(ex, o):
    """The object was allocated by the function under contract (distinct from every object it received)."""
    return SBool(z3.Function("is_fresh_object", ObjSort, BoolSort)(o.t))


@spec("is_int_str", lambda s: isinstance(s, str) and __import__("re").fullmatch(r"\s*[-+]?[0-9]+(_[0-9]+)*\s*", s) is not None)
def _is_int_str(ex, s):
    """int(s) parses (the uninterpreted predicate the int() intrinsic branches on)."""
    from .intrinsics import P_is_int_str
    return SBool(P_is_int_str(ex.to_str_term(s)))
