"""Bounded native probe for C13 (labelled *bounded* in evidence, never counted as proved): the real loaders of the tree under
verification are asked for a fixed list of adversarial template names in a scratch directory layout; every answer must be a
TemplateNotFoundError or a file inside the search root. Its value is the concrete failing input it yields when the lexical
proof cannot speak about a changed implementation (os.path.realpath, unicode normalisation ...). Runs as a subprocess with
PYTHONPATH=<repo>."""
import json
import os
import sys
import tempfile
import importlib
from pathlib import Path

NAMES = ["../secret.html", "a/../../secret.html", "sub/../../secret.html", "..", "../", "", ".", "/etc/hostname", "//etc/hostname",
         "../root_private/secret.html", "../root_private/secret", "..\\secret.html", "．．/secret.html", "‥/secret.html",
         "․․/secret.html", "．．／secret.html", "sub/../index.html", "sub/../../root_private/secret.html",
         "./../secret.html", "index.html/../../secret.html", "%2e%2e/secret.html", "..%2fsecret.html", "sub", "sub/"]


def run():
    out = {"violations": [], "checked": 0, "error": None}
    try:
        from liquid2 import Environment
        from liquid2.exceptions import TemplateNotFoundError, LiquidError
        loaders_mod = importlib.import_module("liquid2.builtin")
        with tempfile.TemporaryDirectory() as tmp:
            tmp = os.path.realpath(tmp)
            root = Path(tmp) / "root"
            (root / "sub").mkdir(parents=True)
            (Path(tmp) / "root_private").mkdir()
            (root / "index.html").write_text("INSIDE")
            (root / "sub" / "inner.html").write_text("INSIDE")
            (Path(tmp) / "secret.html").write_text("OUTSIDE")
            (Path(tmp) / "root_private" / "secret.html").write_text("OUTSIDE")
            abs_secret = str(Path(tmp) / "secret.html")
            # exactly two leading slashes are a different pathlib anchor ('//'), still an absolute name
            names = NAMES + [abs_secret, "／" + abs_secret.lstrip("/"), "/" + abs_secret, "/" + str(Path(tmp) / "secret.liquid"), "/" + str(Path(tmp) / "secret"),
                             "//" + abs_secret]
            makers = {}
            for cname in ("FileSystemLoader", "CachingFileSystemLoader"):
                cls = getattr(loaders_mod, cname, None)
                if cls is None:
                    continue
                makers[cname] = lambda cls=cls: cls(root)
                makers[cname + "(ext)"] = lambda cls=cls: cls(root, ext=".html")
                makers[cname + "(two roots)"] = lambda cls=cls: cls([Path(tmp) / "nothing", root])
            # a scratch package for PackageLoader: <tmp>/probe_pkg/templates/..., secrets next to the package
            pkg = Path(tmp) / "probe_pkg"
            (pkg / "templates" / "sub").mkdir(parents=True)
            (pkg / "__init__.py").write_text("")
            (pkg / "templates" / "index.liquid").write_text("INSIDE")
            (pkg / "templates" / "index.html").write_text("INSIDE")
            (pkg / "secret.liquid").write_text("OUTSIDE")
            (pkg / "secret.html").write_text("OUTSIDE")
            (Path(tmp) / "secret.liquid").write_text("OUTSIDE")
            sys.path.insert(0, tmp)
            PL = getattr(loaders_mod, "PackageLoader", None)
            pkg_root = pkg / "templates"
            if PL is not None:
                makers["PackageLoader"] = lambda: PL("probe_pkg")
                makers["PackageLoader(ext html)"] = lambda: PL("probe_pkg", ext=".html")
            names = names + ["../secret.liquid", "../secret", "．．/secret", "‥/secret.liquid", "../../secret.liquid", "sub/../../secret"]
            for label, make in makers.items():
                for name in names:
                    out["checked"] += 1
                    env = Environment(loader=make())
                    try:
                        t = env.get_template(name)
                    except LiquidError:
                        continue
                    except Exception as e:  # noqa: BLE001
                        out["violations"].append({"loader": label, "name": name, "outcome": f"raised {type(e).__name__}: {e}"[:200]})
                        continue
                    try:
                        text = t.render()
                    except Exception as e:  # noqa: BLE001
                        text = f"<render failed: {type(e).__name__}>"
                    p = os.path.realpath(str(getattr(t, "path", "") or ""))
                    base = pkg_root if label.startswith("PackageLoader") else root
                    inside = p.startswith(str(base) + os.sep) and os.path.isfile(p)
                    if "OUTSIDE" in text or not inside:
                        out["violations"].append({"loader": label, "name": name, "outcome": f"loaded {p!r} rendering {text[:40]!r}"})
    except Exception as e:  # noqa: BLE001
        out["error"] = f"{type(e).__name__}: {e}"
    return out


if __name__ == "__main__":
    print(json.dumps(run()))
