#!/bin/sh
# Build the overlay venv for the checker: Python 3.12 (the repository's interpreter)
# + z3-solver / cvc5 / jsonschema from the offline wheelhouse, with /venv's
# site-packages appended so that `liquid2` and its dependencies import for replay.
set -e
HERE="$(cd "$(dirname "$0")/.." && pwd)"
VENV="$HERE/.venv"
if [ -x "$VENV/bin/python" ] && "$VENV/bin/python" -c "import z3, jsonschema, markupsafe" 2>/dev/null; then
    exit 0
fi
rm -rf "$VENV"
/venv/bin/python -m venv "$VENV"
PIP_NO_INDEX=1 "$VENV/bin/python" -m pip install -q --no-index --find-links /opt/veriftools/wheels \
    z3-solver cvc5 jsonschema >/dev/null
SP="$("$VENV/bin/python" -c 'import sysconfig; print(sysconfig.get_paths()["purelib"])')"
echo "import site; site.addsitedir('/venv/lib/python3.12/site-packages')" > "$SP/_verif_overlay.pth"
"$VENV/bin/python" -c "import z3, jsonschema, markupsafe; print('overlay venv ok', z3.get_version_string())"
