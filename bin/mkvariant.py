# Behaviour-preserving whole-package variants of /repo/liquid2 (DESIGN 13.9): python3 bin/mkvariant.py A|B|C <empty-dst-dir>
# A: rename every local; B: insert a dead store at the top of every function; C: re-emit every file with ast.unparse.
# Then: bin/check Cxx --repo <dst> --no-evidence  (every check must exit 0). Remove <dst> afterwards.
import ast, os, sys, shutil
mode, dst = sys.argv[1], sys.argv[2]
shutil.copytree('/repo/liquid2', os.path.join(dst,'liquid2'))
class Ins(ast.NodeTransformer):
    def visit_FunctionDef(self, node):
        self.generic_visit(node)
        if any(isinstance(d, ast.Name) and d.id=="overload" for d in node.decorator_list): return node
        body=node.body
        i = 1 if body and isinstance(body[0], ast.Expr) and isinstance(body[0].value, ast.Constant) and isinstance(body[0].value.value,str) else 0
        if len(body)==i: return node
        if len(body)==i+1 and isinstance(body[i], (ast.Expr,)) and isinstance(body[i].value, ast.Constant): return node  # `...` stubs
        node.body = body[:i]+[ast.parse("_trace_marker = None").body[0]]+body[i:]
        return node
    visit_AsyncFunctionDef = visit_FunctionDef
class Ren(ast.NodeTransformer):
    """rename locals (not parameters) of every function that has no nested defs/lambdas/global decls"""
    def visit_FunctionDef(self, node):
        self.generic_visit(node)
        if any(isinstance(n,(ast.FunctionDef,ast.AsyncFunctionDef,ast.Lambda,ast.Global,ast.Nonlocal,ast.ClassDef)) for n in ast.walk(node) if n is not node): return node
        params={a.arg for a in node.args.args+node.args.kwonlyargs+node.args.posonlyargs}
        if node.args.vararg: params.add(node.args.vararg.arg)
        if node.args.kwarg: params.add(node.args.kwarg.arg)
        assigned=set()
        for n in ast.walk(node):
            if isinstance(n, ast.Name) and isinstance(n.ctx, ast.Store): assigned.add(n.id)
            if isinstance(n, ast.ExceptHandler) and n.name: params.add(n.name)
            if isinstance(n, (ast.Import, ast.ImportFrom)):
                for a in n.names: params.add((a.asname or a.name).split('.')[0])
            if isinstance(n, ast.MatchAs) and n.name: params.add(n.name)
            if isinstance(n, ast.MatchStar) and n.name: params.add(n.name)
        ren={a: a+"_v" for a in assigned-params if not a.startswith("__")}
        for n in ast.walk(node):
            if isinstance(n, ast.Name) and n.id in ren: n.id=ren[n.id]
        return node
    visit_AsyncFunctionDef = visit_FunctionDef
for dp,dn,fns in os.walk(os.path.join(dst,'liquid2')):
    for f in fns:
        if not f.endswith('.py'): continue
        p=os.path.join(dp,f); src=open(p).read(); t=ast.parse(src)
        if mode=='B': t=Ins().visit(t)
        if mode=='A': t=Ren().visit(t)
        ast.fix_missing_locations(t)
        open(p,'w').write(ast.unparse(t)+"\n")
