"""Scope isolation (C07): RenderContext.copy, Node.render / raise_for_disabled."""
import z3
from pyvc.api import *
from contracts.c_context import CTX, ENV, TEMPLATE, LOOPF

COPY_POST_COMMON = [
    "result is not self",
    # nothing the caller assigned, counted or captured is reachable from the copy
    "len(result.locals) == 0 and result.locals is not self.locals",
    "len(result.counters) == 0 and result.counters is not self.counters",
    "result.tag_namespace is not self.tag_namespace and len(result.tag_namespace['macros']) == 0 and len(result.tag_namespace['cycles']) == 0",
    "len(result.loops) == 0",
    "result.scope._maps[0] is result.locals and result.scope._maps[1] is result.globals and result.scope._maps[3] is result.counters and len(result.scope._maps) == 4",
    "result._copy_depth == self._copy_depth + 1",
    "result.env is self.env",
    # caller state is untouched
    "self.locals == old(self.locals) and self.counters == old(self.counters) and self.scope._maps == old(self.scope._maps)",
    "result.loop_iteration_carry == (Product(self.loops) * self.loop_iteration_carry if carry_loop_iterations else 1)",
]

contract(
    "liquid2.context:RenderContext.copy",
    props=["C07", "C06", "C08", "C01"],
    params={"self": CTX(), "token": Any_, "namespace": Any_, "template": Opt(TEMPLATE),
            "disabled_tags": Union(NoneT, Opaque(lambda ex, n: __import__("pyvc.values", fromlist=["Tagged"]).Tagged("set", ("include",)), "{'include'}")),
            "carry_loop_iterations": Union(TrueT, FalseT), "block_scope": Union(TrueT, FalseT)},
    obj_fields=LOOPF,
    obj_protocol="mapping",
    # class invariant established by __init__ (contract in c_globals): every context knows its render's global data
    pre=["self.root_globals is not None"],
    post=COPY_POST_COMMON + [
        # isolated copy (render / call): the globals chain is the arguments over the *global* data only
        # always *the caller's namespace object* (the render tag fills it after the copy), never a replacement for an empty one
        # ... the render's own global data (root_globals), NOT the globals of the context copied from: those, when it is itself an
        # isolated copy, hold the arguments of the enclosing partial / macro, which are not global data
        "implies(not block_scope, isinstance(result.globals, ReadOnlyChainMap) and len(result.globals._maps) == 2 and result.globals._maps[0] is namespace and result.globals._maps[1] is self.root_globals)",
        "result.root_globals is self.root_globals",
        # block-scoped copy (block tag inside extends): arguments over the caller's whole scope, by design
        "implies(block_scope, isinstance(result.globals, ReadOnlyChainMap) and len(result.globals._maps) == 2 and result.globals._maps[0] is namespace and result.globals._maps[1] is self.scope)",
        # the block stacks of an inheritance chain are visible to block-scoped copies only: an isolated copy (render, call) starts without any
        "implies(block_scope, result.tag_namespace['extends'] is self.tag_namespace['extends'])",
        "implies(not block_scope, result.tag_namespace['extends'] is not self.tag_namespace['extends'] and len(result.tag_namespace['extends']) == 0)",
        "implies(disabled_tags is not None, 'include' in result.disabled_tags)",
        "implies(disabled_tags is None, len(result.disabled_tags) == 0)",
    ],
    raises={"ContextDepthError": "self._copy_depth > self.env.context_depth_limit"},
)

TAGTOKEN = Rec("TagToken", _module="liquid2.token", name=Str, type_=Const(__import__("pyvc.values", fromlist=["EnumVal"]).EnumVal("TokenType", "TAG")))

contract(
    "liquid2.ast:Node.raise_for_disabled",
    props=["C07"],
    params={"self": Rec("Node", _module="liquid2.ast", token=Union(TAGTOKEN, Rec("ContentToken", _module="liquid2.token", type_=Const(__import__("pyvc.values", fromlist=["EnumVal"]).EnumVal("TokenType", "CONTENT"))))),
            "disabled_tags": Opaque(lambda ex, n: __import__("pyvc.values", fromlist=["Tagged"]).Tagged("set", ("include", "block")), "{'include','block'}")},
    post=[],
    raises={"DisabledTagError": "isinstance(self.token, TagToken) and self.token.name in disabled_tags"},
)

contract(
    "liquid2.ast:Node.render",
    props=["C07"],
    params={"self": Rec("Node", _module="liquid2.ast", token=TAGTOKEN),
            "context": Rec("RenderContext", _module="liquid2.context",
                           disabled_tags=Union(Opaque(lambda ex, n: __import__("pyvc.values", fromlist=["Tagged"]).Tagged("set", ()), "set()"),
                                               Opaque(lambda ex, n: __import__("pyvc.values", fromlist=["Tagged"]).Tagged("set", ("include",)), "{'include'}"))),
            "buffer": Any_},
    opaque_methods={"render_to_output": Int},
    post=["calls('render_to_output') == 1", "not ('include' in context.disabled_tags and self.token.name == 'include')"],
    post_exc={"DisabledTagError": ["calls('render_to_output') == 0"]},   # a disabled tag renders nothing
    raises={"DisabledTagError": "'include' in context.disabled_tags and self.token.name == 'include'"},
)
