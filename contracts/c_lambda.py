"""LambdaExpression.map (arrow-function arguments of filters): error model and scope discipline (C02, C07, C10)."""
from pyvc.api import *
from contracts.c_context import CTX

LAM = Rec("LambdaExpression", _module="liquid2.builtin.expressions", params=ListOf("str"), expression=Any_)

contract(
    "liquid2.builtin.expressions:LambdaExpression.map",
    props=["C02", "C07", "C10"],
    params={"self": LAM, "context": CTX(), "it": ListOf("any")},
    opaque_methods={"evaluate": Any_},
    loops={0: {"inv": ["context.scope._maps[1:] == old(context.scope._maps)", "len(context.scope._maps) == len(old(context.scope._maps)) + 1"]},
           1: {"inv": ["context.scope._maps[1:] == old(context.scope._maps)", "len(context.scope._maps) == len(old(context.scope._maps)) + 1"]}},
    # the parameter scope is gone when the iteration is over
    post=["context.scope._maps == old(context.scope._maps)"],
    # an arrow function without parameters `() => x` cannot be applied: a ValueError, which Filter.evaluate reports as a
    # LiquidTypeError - never an IndexError (which nothing converts)
    raises={"ValueError": "len(self.params) == 0", "ContextDepthError": None, "BodyError": None},
)
