"""Whitespace control changes nothing but whitespace (C18): Environment.trim against its specification."""
import z3
from pyvc.api import *
from pyvc.specs import spec
from pyvc.values import SStr, EnumVal, StrSort
from pyvc.intrinsics_lib import F_lstrip, F_rstrip

WC = lambda m: Const(EnumVal("WhitespaceControl", m), m)  # noqa: E731
MARK = Union(WC("DEFAULT"), WC("MINUS"), WC("TILDE"), WC("PLUS"))


def _side(which, marker, t):
    if marker == "MINUS":
        return (F_lstrip if which == "l" else F_rstrip)(t)
    if marker == "TILDE":
        return z3.Function(f"str_{which}strip['\\r\\n']", StrSort, StrSort)(t)
    return t   # PLUS: keep


@spec("trim_spec", None)
def _trim_spec(ex, text, left, right, default):
    """docs/whitespace_control.md: `-` strips all whitespace on that side, `~` only line breaks, `+` nothing,
    no marker means the environment's default; the two sides are independent."""
    l = default.member if left.member == "DEFAULT" else left.member
    r = default.member if right.member == "DEFAULT" else right.member
    t = ex.to_str_term(text)
    return SStr(_side("r", r, _side("l", l, t)))


contract(
    "liquid2.environment:Environment.trim",
    props=["C18", "C01"],
    params={"self": Rec("Environment", _module="liquid2.environment", default_trim=Union(WC("MINUS"), WC("TILDE"), WC("PLUS"))),
            "text": Str, "left_trim": MARK, "right_trim": MARK},
    post=[
        "result == trim_spec(text, left_trim, right_trim, self.default_trim)",
        "len(result) <= len(text)",
        # with no trimming in force the text is reproduced character for character
        "implies((left_trim == WhitespaceControl.PLUS or (left_trim == WhitespaceControl.DEFAULT and self.default_trim == WhitespaceControl.PLUS)) and "
        "(right_trim == WhitespaceControl.PLUS or (right_trim == WhitespaceControl.DEFAULT and self.default_trim == WhitespaceControl.PLUS)), result == text)",
    ],
    raises={},
)
