"""Undefined policies (C16): filter-side helpers poke exactly the undefined inputs; FalsyStrictUndefined."""
from pyvc.api import *

UNDEF = Rec("Undefined", _module="liquid2.undefined", path=Str, hint=Opt(Str), token=Any_, obj=Any_)
DATA = Union(UNDEF, Int, Str, NoneT, TrueT, FalseT, Float, Opaque(lambda ex, n: __import__("pyvc.values", fromlist=["HDict"]).HDict(concrete={}), "dict"))

contract(
    "liquid2.filter:bool_arg",
    props=["C16"],
    params={"value": DATA},
    opaque_methods={"poke": Bool},
    post=["calls('poke') == (1 if isinstance(value, Undefined) else 0)",
          "implies(not isinstance(value, Undefined), result == (value is None or value is False))"],
    raises={},
)

contract(
    "liquid2.filter:mapping_arg",
    props=["C16", "C02"],
    params={"value": DATA},
    opaque_methods={"poke": Bool},
    post=["calls('poke') == (1 if isinstance(value, Undefined) else 0)",
          "implies(isinstance(value, Undefined), len(result) == 0)",
          "implies(not isinstance(value, Undefined), result is value)"],
    post_exc={"LiquidTypeError": ["calls('poke') == 0"]},
    raises={"LiquidTypeError": "not isinstance(value, Undefined) and not isinstance(value, dict)"},
)

contract(
    "liquid2.filter:sequence_arg",
    props=["C16", "C10"],
    params={"val": Union(UNDEF, Int, NoneT, TrueT, Float, Opaque(lambda ex, n: __import__("pyvc.values", fromlist=["HDict"]).HDict(concrete={}), "dict"))},
    opaque_methods={"poke": Bool},
    partial_domain="undefined, scalars and mappings only: the str / Sequence / Iterable branches are outside this domain",
    post=["calls('poke') == (1 if isinstance(val, Undefined) else 0)",
          "implies(isinstance(val, Undefined), len(result) == 0)",
          "implies(not isinstance(val, Undefined), len(result) == 1 and result[0] is val)",
          "result is not val"],
    raises={},
)

contract(
    "liquid2.undefined:FalsyStrictUndefined.__bool__",
    props=["C16"],
    params={"self": Rec("FalsyStrictUndefined", _module="liquid2.undefined", path=Str, msg=Str, token=Any_)},
    post=["result == False"],
    raises={},
)

contract(
    "liquid2.undefined:FalsyStrictUndefined.__eq__",
    props=["C16"],
    params={"self": Rec("FalsyStrictUndefined", _module="liquid2.undefined", path=Str, msg=Str, token=Any_), "other": Union(UNDEF, FalseT, TrueT, NoneT, Int, Str)},
    # the refinement the property asks for: a falsy-strict undefined is equal to exactly what the default Undefined is equal to
    # (so `in` / `contains` / `==` on Python level cannot tell the policies apart when the render succeeds)
    post=["result == (isinstance(other, Undefined) or other is None)"],
    raises={},
)

contract(
    "liquid2.undefined:Undefined.__eq__",
    props=["C16"],
    params={"self": UNDEF, "other": Union(UNDEF, NoneT, FalseT, Int, Str)},
    post=["result == (isinstance(other, Undefined) or other is None)"],
    raises={},
)

contract(
    "liquid2.undefined:is_undefined",
    props=["C16", "C03"],
    params={"obj": Union(UNDEF, Rec("StrictUndefined", _module="liquid2.undefined", path=Str, msg=Str, token=Any_), NoneT, Int, Str)},
    post=["result == isinstance(obj, Undefined)"],
    raises={},
    always_inline=True,   # one-line type test: callers see its body
)
