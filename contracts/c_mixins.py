"""liquid2/builtin/loaders/mixins.py - caching transparency (C14)."""
import z3
from pyvc.api import *
from pyvc.specs import spec
from pyvc.values import SAny, SBool, ObjSort, BoolSort, PyCallable, RaiseSig, ExcVal
from contracts.c_lru import LRU

F_uptodate = z3.Function("template_is_up_to_date", ObjSort, BoolSort)


@spec("uptodate", None)
def _uptodate(ex, t):
    return SBool(F_uptodate(t.t))


def _is_up_to_date(ex, obj, args, kwargs):
    ex.used_intrinsics.add("Template.is_up_to_date[_async]() of a cached template: an uninterpreted predicate of the template (file mtime comparison is checked separately)")
    return SBool(F_uptodate(obj.t))


def _load_func(ex, name):
    """The uncached load: returns a fresh template (never one already in the cache) or fails."""

    def call(ex_, args, kwargs):
        ex_.trace_event("load_func")
        fails = ex_.fresh("load_fails", "bool")
        if ex_.decide(fails.t):
            raise RaiseSig(ex_.make_repo_exc("TemplateNotFoundError", None))
        t = ex_.sym("loaded", "any")
        ex_.shared["loaded"] = t
        return t

    return PyCallable(call, "load_func")


@spec("loaded", None)
def _loaded(ex):
    return ex.shared.get("loaded") or ex.sym("loaded", "any")


@spec("load_func_calls", None)
def _calls(ex):
    return sum(1 for e in ex.trace if e[0] == "load_func")


MIXIN = Rec("CachingLoaderMixin", _module="liquid2.builtin.loaders.mixins", auto_reload=Bool, cache=LRU, namespace_key=Str)
ENVG = Rec("Environment", _module="liquid2.environment", globals=DictOf("str", "any"))

for _name in ("_check_cache", "_check_cache_async"):
    contract(
        f"liquid2.builtin.loaders.mixins:CachingLoaderMixin.{_name}",
        # C09: what a cached template renders must not depend on who loaded it before (hit => globals rebound)
        # C10: the template-globals layer of a render is the globals of *this* load
        props=["C14", "C09", "C10"],
        params={"self": MIXIN, "env": ENVG, "cache_key": Str, "globals": Opt(DictOf("str", "any")),
                "load_func": Opaque(_load_func, "load_func")},
        obj_fields={"global_data": "any"},
        mutable_fields=["global_data"],
        obj_methods={"is_up_to_date": _is_up_to_date, "is_up_to_date_async": _is_up_to_date},
        pre=["lru_wf(self.cache)"],
        inline=["liquid2.environment:Environment.make_globals"],
        post=[
            # miss: the uncached loader's template is returned and stored under the key
            "implies(cache_key not in old(self.cache._cache), result is loaded() and self.cache._cache[cache_key] is loaded() and load_func_calls() == 1)",
            # stale entry (auto reload on): reloaded and replaced
            "implies(cache_key in old(self.cache._cache) and self.auto_reload and not uptodate(old(self.cache._cache)[cache_key]),"
            " result is loaded() and self.cache._cache[cache_key] is loaded() and load_func_calls() == 1)",
            # hit: the cached template, not reloaded, and bound to *this* caller's globals
            "implies(cache_key in old(self.cache._cache) and (not self.auto_reload or uptodate(old(self.cache._cache)[cache_key])),"
            " result is old(self.cache._cache)[cache_key] and load_func_calls() == 0 and result.global_data == env.make_globals(globals))",
            "len(lru_keys(self.cache)) <= self.cache.capacity",
            # one caller's globals are never carried into another caller's render: the template object an *earlier* caller was
            # handed (the cached one - the existing tests pin that a hit returns the very same object) keeps the globals it has
            "implies(cache_key in old(self.cache._cache) and (not self.auto_reload or uptodate(old(self.cache._cache)[cache_key])),"
            " old(self.cache._cache)[cache_key].global_data == old(old(self.cache._cache)[cache_key].global_data))",
        ],
        # a failing load leaves every cached template in place
        post_exc={"TemplateNotFoundError": [
            "len(lru_keys(self.cache)) == len(old(lru_keys(self.cache)))",
            "implies(cache_key in old(self.cache._cache), cache_key in self.cache._cache and self.cache._cache[cache_key] == old(self.cache._cache)[cache_key])",
            "implies(cache_key not in old(self.cache._cache), cache_key not in self.cache._cache)",
        ]},
        raises={"TemplateNotFoundError": None},
        returns=Any_,
    )

CTXG = Rec("RenderContext", _module="liquid2.context", globals=Any_)

contract(
    "liquid2.builtin.loaders.mixins:CachingLoaderMixin.cache_key",
    props=["C14"],
    params={"self": MIXIN, "name": Str, "context": Union(NoneT, CTXG), "args": Any_},
    obj_protocol="mapping",
    ghost={"other": Str},
    post=[
        # never serves a template loaded for one namespace to another caller: the key of a namespaced load is not the key of
        # any un-namespaced load (whose key is the bare name `other`)
        "implies(len(self.namespace_key) > 0 and (map_has(args, self.namespace_key) or (context is not None and map_has(context.globals, self.namespace_key))), result != other)",
        "implies(len(self.namespace_key) == 0, result == name)",
        # arguments take priority over the render context; no namespace value: the bare name
        "implies(len(self.namespace_key) > 0 and map_has(args, self.namespace_key), result == str(map_at(args, self.namespace_key)) + '/' + name)",
        "implies(len(self.namespace_key) > 0 and not map_has(args, self.namespace_key) and context is None, result == name)",
        "implies(len(self.namespace_key) > 0 and not map_has(args, self.namespace_key) and context is not None and map_has(context.globals, self.namespace_key),"
        " result == str(map_at(context.globals, self.namespace_key)) + '/' + name)",
        "implies(len(self.namespace_key) > 0 and not map_has(args, self.namespace_key) and context is not None and not map_has(context.globals, self.namespace_key), result == name)",
    ],
    raises={},
    returns=Str,
)

# freshness information
def _uptodate_callable(ex, name):
    """Template.uptodate: returns a bool - or, when a sync check meets an async loader's callable, an awaitable (any non-bool object)."""
    def call(e, a, k):
        isb = e.sym("uptodate_returns_bool", "bool")
        if e.decide(isb.t):
            return e.sym("uptodate_result", "bool")
        o = e.sym("uptodate_awaitable", "any")
        from pyvc.intrinsics import F_any_truth
        e.assume(F_any_truth(o.t))          # e.g. a coroutine object: truthy
        e.assume(z3.Not(z3.Function("isinstance_bool", ObjSort, BoolSort)(o.t)))
        return o
    return PyCallable(call, "uptodate")


contract(
    "liquid2.template:Template.is_up_to_date",
    props=["C14"],
    params={"self": Rec("Template", _module="liquid2.template", uptodate=Union(NoneT, Opaque(_uptodate_callable, "callable")))},
    post=["implies(self.uptodate is None, result == True)",
          "implies(self.uptodate is not None and uptodate_returns_bool(), result == uptodate_result())",
          # anything that is not a bool answer (an un-awaited coroutine of an async loader) means "not known to be fresh": reload
          "implies(self.uptodate is not None and not uptodate_returns_bool(), result == False)"],
    raises={},
)


@spec("uptodate_returns_bool", None)
def _urb(ex):
    return ex.sym("uptodate_returns_bool", "bool")


@spec("uptodate_result", None)
def _ur(ex):
    return ex.sym("uptodate_result", "bool")


contract(
    "liquid2.builtin.loaders.file_system_loader:FileSystemLoader._uptodate",
    props=["C14", "C02"],
    params={"source_path": Opaque(lambda ex, name: __import__("pyvc.intrinsics_lib", fromlist=["SPath"]).SPath(
        z3.BoolVal(False), z3.BoolVal(False), z3.BoolVal(False), z3.BoolVal(True)), "path"), "mtime": Float},
    # up to date iff the file is still there with the recorded modification time; a file that is gone is stale (the reload then
    # reports it as not found) - stat()'s FileNotFoundError never escapes
    post=["implies(not stat_missing(), result == (mtime == stat_mtime()))", "implies(stat_missing(), result == False)"],
    raises={},
)


@spec("stat_missing", None)
def _smiss(ex):
    return ex.sym("stat_file_missing", "bool")


@spec("stat_mtime", None)
def _sm(ex):
    from pyvc.values import SReal
    return SReal(z3.Real("stat.st_mtime"))
