"""liquid2/context.py - resource limits (C06), scope discipline (C07), counters/cycles (C01)."""
from pyvc.api import *

ENV = Shared("env", Rec(
    "Environment", _module="liquid2.environment",
    local_namespace_limit=Opt(Int), context_depth_limit=Int, loop_iteration_limit=Opt(Int),
    output_stream_limit=Opt(Int), auto_escape=Bool,
))
TEMPLATE = Rec("Template", _module="liquid2.template", env=ENV)
SCOPE = Rec("ReadOnlyChainMap", _module="liquid2.utils.chainmap", _maps=ListOf("any"))


def CTX(**over):
    f = dict(
        env=ENV, template=TEMPLATE, scope=SCOPE, loops=ListOf("any"), loop_iteration_carry=Int,
        local_namespace_carry=Int, _copy_depth=Int, locals=DictOf("str", "any"), counters=DictOf("str", "int"),
        globals=Any_, root_globals=Any_, disabled_tags=Any_, parent=Any_, auto_escape=Bool,
        tag_namespace=Opaque(lambda ex, name: HDict(concrete={
            "cycles": DictOf("int", "int").fresh(ex, f"{name}.cycles", True),
            "stopindex": DictOf("str", "int").fresh(ex, f"{name}.stopindex", True),
            "extends": Any_.fresh(ex, f"{name}.extends", True),
            "macros": Any_.fresh(ex, f"{name}.macros", True),
        })),
    )
    f.update(over)
    return Rec("RenderContext", _module="liquid2.context", **f)


LOOPF = {"length": "int"}

# ---- C06: loop iteration limit -------------------------------------------------
contract(
    "liquid2.context:RenderContext.raise_for_loop_limit",
    props=["C06"],
    params={"self": CTX(), "length": Int},
    obj_fields=LOOPF,
    post=["self.loops == old(self.loops)"],
    raises={
        # raises exactly when a limit is configured and the product of the lengths of all active
        # loops, this loop and the iterations carried in from the calling context exceeds it
        "LoopIterationLimitError":
            "self.env.loop_iteration_limit is not None and "
            "Product(self.loops) * length * self.loop_iteration_carry > self.env.loop_iteration_limit",
    },
)

contract(
    "liquid2.context:RenderContext.loop_iterations",
    props=["C06"],
    params={"self": CTX(), "length": Int},
    obj_fields=LOOPF,
    inline=["liquid2.context:RenderContext.raise_for_loop_limit"],
    pre=["length >= 0"],
    # while the body runs, every nested limit check sees this loop's length as a factor (through the carry) ...
    enter=[
        "self.loop_iteration_carry == old(self.loop_iteration_carry) * length",
        "self.loops == old(self.loops)",
        "implies(self.env.loop_iteration_limit is not None, "
        "Product(self.loops) * length * old(self.loop_iteration_carry) <= self.env.loop_iteration_limit)",
    ],
    # ... and whatever way the body is left, the carry is what it was
    post=["self.loop_iteration_carry == old(self.loop_iteration_carry)", "self.loops == old(self.loops)"],
    post_exc={"BodyError": ["self.loop_iteration_carry == old(self.loop_iteration_carry)"],
              "LoopIterationLimitError": ["self.loop_iteration_carry == old(self.loop_iteration_carry)"]},
    raises={"BodyError": None, "LoopIterationLimitError": None},
)

contract(
    "liquid2.context:RenderContext.loop",
    props=["C06", "C07"],
    params={"self": CTX(), "namespace": Any_, "forloop": Any_},
    obj_fields=LOOPF,
    inline=["liquid2.context:RenderContext.raise_for_loop_limit"],
    # on entry to the body: the loop is registered (its length multiplies nested checks) and the
    # namespace is the innermost scope
    enter=[
        "self.loops == old(self.loops) + [forloop]",
        "len(self.scope._maps) == len(old(self.scope._maps)) + 1",
        "self.scope._maps[0] == namespace",
        "self.scope._maps[1:] == old(self.scope._maps)",
        "implies(self.env.loop_iteration_limit is not None, "
        "Product(old(self.loops)) * forloop.length * self.loop_iteration_carry <= self.env.loop_iteration_limit)",
    ],
    # whatever way the body is left, the loop stack and scope stack are restored
    post=["self.loops == old(self.loops)", "self.scope._maps == old(self.scope._maps)", "self.template is old(self.template)"],
    post_exc={"BodyError": ["self.loops == old(self.loops)", "self.scope._maps == old(self.scope._maps)"],
              "LoopIterationLimitError": ["self.loops == old(self.loops)", "self.scope._maps == old(self.scope._maps)"],
              # entering `extend` can fail after the loop was pushed; the render is aborted by that error
              # (no tag catches a LiquidError: template.render_with_context re-raises), so only the scope
              # stack - which `finally` blocks of enclosing constructs pop - is required to be intact
              "ContextDepthError": ["self.scope._maps == old(self.scope._maps)"]},
    raises={"BodyError": None,
            "LoopIterationLimitError": None,
            "ContextDepthError": None},
)

contract(
    "liquid2.context:RenderContext.extend",
    props=["C06", "C07"],
    params={"self": CTX(), "namespace": Any_, "template": Opt(Rec("Template", _module="liquid2.template", env=ENV))},
    enter=[
        "len(self.scope._maps) == len(old(self.scope._maps)) + 1",
        "self.scope._maps[0] == namespace",
        "self.scope._maps[1:] == old(self.scope._maps)",
        "len(old(self.scope._maps)) <= self.env.context_depth_limit",
        "implies(template is not None, self.template is template)",
    ],
    post=["self.scope._maps == old(self.scope._maps)", "self.template is old(self.template)"],
    post_exc={"BodyError": ["self.scope._maps == old(self.scope._maps)", "self.template is old(self.template)"],
              "ContextDepthError": ["self.scope._maps == old(self.scope._maps)", "self.template is old(self.template)"]},
    raises={"BodyError": None,
            "ContextDepthError": "len(self.scope._maps) > self.env.context_depth_limit"},
)

contract(
    "liquid2.context:RenderContext.get_output_buffer",
    props=["C06", "C18", "C01", "C02"],     # C02: whatever buffer the enclosing construct writes to (a NullIO of a suppressed block included), nothing escapes
    params={"self": CTX(), "parent_buffer": Union(NoneT, Rec("LimitedStringIO", _module="liquid2.output", size=Int, limit=Int),
                                                  Rec("StringIO", _module=None), Rec("NullIO", _module="liquid2.output"))},
    pre=["implies(parent_buffer is not None and isinstance(parent_buffer, LimitedStringIO), parent_buffer.size >= 0)"],
    post=[
        # no limit configured: plain buffer; limit configured: the child may write at most what the parent has left
        "iff(self.env.output_stream_limit is None, not isinstance(result, LimitedStringIO))",
        # what a capture (or block.super) writes is kept in a buffer of its own, whatever the parent is - a discarding
        # NullIO of a suppressed blank block included: suppression drops whitespace, never captured text
        "result is not parent_buffer and not isinstance(result, NullIO)",
        "implies(self.env.output_stream_limit is not None and parent_buffer is not None and isinstance(parent_buffer, LimitedStringIO), "
        "result.limit == self.env.output_stream_limit - parent_buffer.size and result.size == 0)",
        "implies(self.env.output_stream_limit is not None and not (parent_buffer is not None and isinstance(parent_buffer, LimitedStringIO)), "
        "result.limit == self.env.output_stream_limit and result.size == 0)",
    ],
    raises={},
)

contract(
    "liquid2.context:RenderContext.assign",
    props=["C06", "C10"],
    params={"self": CTX(), "key": Str, "val": Any_},
    post=[
        "self.locals[key] == val",
        # local namespace limit: a successful assign leaves the score within the limit
        "implies(self.env.local_namespace_limit is not None, "
        "self.get_size_of_locals() <= self.env.local_namespace_limit)",
        "self.counters == old(self.counters)", "self.globals is old(self.globals)",
    ],
    raises={"LocalNamespaceLimitError": None},
)

contract(
    "liquid2.context:RenderContext.increment",
    props=["C01"],
    params={"self": CTX(), "name": Str},
    post=[
        "result == (old(self.counters)[name] if name in old(self.counters) else 0)",
        "self.counters[name] == result + 1",
        "name in self.counters",
    ],
    raises={},
    returns=Int,
    modifies=["self.counters"],
)

contract(
    "liquid2.context:RenderContext.decrement",
    props=["C01"],
    params={"self": CTX(), "name": Str},
    post=[
        "result == (old(self.counters)[name] if name in old(self.counters) else 0) - 1",
        "self.counters[name] == result",
    ],
    raises={},
    returns=Int,
    modifies=["self.counters"],
)

contract(
    "liquid2.context:RenderContext.cycle",
    props=["C01", "C02"],
    params={"self": CTX(), "cycle_hash": Int, "length": Int},
    pre=["length > 0"],
    post=[
        "0 <= result and result < length",
        "result == (old(self.tag_namespace['cycles'])[cycle_hash] if cycle_hash in old(self.tag_namespace['cycles']) else 0) % length",
        "self.tag_namespace['cycles'][cycle_hash] == (old(self.tag_namespace['cycles'])[cycle_hash] if cycle_hash in old(self.tag_namespace['cycles']) else 0) + 1",
    ],
    raises={},
    returns=Int,
    modifies=["self.tag_namespace"],
)

contract(
    "liquid2.context:RenderContext.stopindex",
    props=["C01"],
    params={"self": CTX(), "key": Str, "index": Opt(Int)},
    post=[
        "implies(index is not None, result == index and self.tag_namespace['stopindex'][key] == index)",
        "implies(index is None, result == (old(self.tag_namespace['stopindex'])[key] if key in old(self.tag_namespace['stopindex']) else 0))",
        # nothing else changes
        "implies(index is None, self.tag_namespace['stopindex'] == old(self.tag_namespace['stopindex']))",
        "forall(lambda k: implies(k != key, (k in self.tag_namespace['stopindex']) == (k in old(self.tag_namespace['stopindex']))"
        " and implies(k in self.tag_namespace['stopindex'], self.tag_namespace['stopindex'][k] == old(self.tag_namespace['stopindex'])[k])), 'str')",
    ],
    raises={},
    returns=Int,
    modifies=["self.tag_namespace"],
)
