"""Parse-time validation of filter arguments and run-time coercion of loop arguments fail only with LiquidError (C02)."""
from pyvc.api import *

ARG_FIELDS = {"value": "any", "token": "any", "expression": "any"}

for _mod, _cls in (("uniq_filter", "UniqFilter"), ("find_filters", "FindFilter"), ("map_filter", "MapFilter"), ("sum_filter", "SumFilter"),
                   ("sorting_filters", "SortFilter"), ("filtering_filters", "_FilterFilter"), ("filtering_filters", "CompactFilter")):
    contract(
        f"liquid2.builtin.filters.{_mod}:{_cls}.validate",
        props=["C02"],
        # any number of arguments of any kind (positional / keyword, lambda or not): opaque argument objects
        params={"self": Rec(_cls, _module=f"liquid2.builtin.filters.{_mod}"), "_env": Any_, "token": Any_, "name": Str, "args": ListOf("any")},
        obj_fields=ARG_FIELDS,
        post=[],
        raises={"LiquidTypeError": None},     # in particular no IndexError for a filter written without arguments
    )

contract(
    "liquid2.builtin.expressions:LoopExpression._to_int",
    props=["C02", "C01"],
    params={"self": Rec("LoopExpression", _module="liquid2.builtin.expressions"), "obj": Union(Int, Float, PosInf, NegInf, NaN, Str, NoneT, TrueT, ListOf("any")), "token": Any_},
    globals_={"MAX_STR_INT": Int},
    pre=["MAX_STR_INT == 0 or MAX_STR_INT >= 640"],
    post=["implies(isinstance(obj, int), result == obj)"],
    raises={"LiquidTypeError": None, "LiquidValueError": None},   # limit: / offset: from data, infinities included
    returns=Int,
)

contract(
    "liquid2.builtin.expressions:_contains",
    props=["C02", "C01"],
    params={"token": Any_, "left": Union(Str, ListOf("any"), DictOf("str", "any"), Int, NoneT),
            "right": Union(Str, Int, NoneT, TrueT, FalseT, ListOf("any"))},      # a list on the right is unhashable
    inline=["liquid2.builtin.expressions:_to_liquid_string"],
    post=["implies(isinstance(left, str) and isinstance(right, str), result == (right in left))",
          # the right operand is looked for in its Liquid string form: no string contains nil; true / false are spelled in lower case
          "implies(isinstance(left, str) and right is None, result == False)",
          "implies(isinstance(left, str) and right is True, result == ('true' in left))",
          "implies(isinstance(left, str) and right is False, result == ('false' in left))",
          "implies(isinstance(left, dict) and isinstance(right, list), result == False)"],
    raises={"LiquidTypeError": "not isinstance(left, (str, list, dict))"},
)

contract(
    "liquid2.shopify.tags.tablerow_tag:_int_or_zero",
    props=["C02"],
    params={"arg": Union(Int, Float, PosInf, NegInf, NaN, Str, NoneT, TrueT, ListOf("any"))},
    globals_={"MAX_STR_INT": Int},
    pre=["MAX_STR_INT == 0 or MAX_STR_INT >= 640"],
    post=["implies(isinstance(arg, int), result == arg)"],
    raises={"LiquidValueError": None},       # `cols:` from data - infinities, nan, nil, containers: 0, never OverflowError / ValueError / TypeError
    returns=Int,
)
