"""liquid2/unescape.py against a specification decoder (C20), totality (C02)."""
import z3
from pyvc.api import *
from pyvc.specs import spec
from pyvc.values import SBool, SStr, SInt, StrSort, IntSort, BoolSort, HJoin

import re as _re

# ---- native reference implementations (used only by the replay harness) -----------------
_UNIT = _re.compile(r'(?P<pair>\\u[dD][89abAB][0-9a-fA-F]{2}\\u[dD][c-fC-F][0-9a-fA-F]{2})|(?P<u4>\\u[0-9a-fA-F]{4})|(?P<short>\\["$\\/bfnrt])|(?P<plain>[^\\])', _re.DOTALL)
_SHORT_PY = {'"': '"', "$": "$", "\\": "\\", "/": "/", "b": "\x08", "f": "\x0c", "n": "\n", "r": "\r", "t": "\t"}


def _dec_py(s):
    out, i = [], 0
    while i < len(s):
        m = _UNIT.match(s, i)
        if not m:
            return None
        g = m.lastgroup
        t = m.group()
        if g == "plain":
            if ord(t) < 8:
                return None
            out.append(t)
        elif g == "short":
            out.append(_SHORT_PY[t[1]])
        elif g == "u4":
            cp = int(t[2:], 16)
            if 0xD800 <= cp <= 0xDFFF or cp < 8:
                return None
            out.append(chr(cp))
        else:
            hi, lo = int(t[2:6], 16), int(t[8:12], 16)
            out.append(chr(0x10000 + (hi - 0xD800) * 1024 + (lo - 0xDC00)))
        i = m.end()
    return "".join(out)


def _is_unit_at_py(v, a, b, c):
    m = _UNIT.fullmatch(v[a:b]) if 0 <= a < b <= len(v) else None
    return bool(m) and _dec_py(v[a:b]) == c


_PRE_UNITS = _re.compile(r"(?:[^\\]|\\.)*", _re.DOTALL)


def _scannable_py(v, i):
    return bool(_PRE_UNITS.fullmatch(v[i:]))


def _all_hex_py(s):
    return len(s) >= 4 and all(ch in "0123456789abcdefABCDEF" for ch in s[:4])


BS, U = 92, 117
SHORT = {34: 34, 36: 36, 92: 92, 47: 47, 98: 8, 102: 12, 110: 10, 114: 13, 116: 9}  # " $ \\ / b f n r t

Dec = z3.Function("Dec", StrSort, StrSort)          # the decoded text of a sequence of escape units
WF = z3.Function("Scannable", StrSort, IntSort, BoolSort)   # the suffix from i is a sequence of pre-units


def _digit(ch):
    return z3.If(z3.And(ch >= 48, ch <= 57), ch - 48, z3.If(z3.And(ch >= 65, ch <= 70), ch - 55, ch - 87))


def _is_hex(ch):
    return z3.Or(z3.And(ch >= 48, ch <= 57), z3.And(ch >= 65, ch <= 70), z3.And(ch >= 97, ch <= 102))


def hexval4(s, off=0):
    return _digit(s[off]) * 4096 + _digit(s[off + 1]) * 256 + _digit(s[off + 2]) * 16 + _digit(s[off + 3])


def all_hex4(s, off=0):
    return z3.And(*[_is_hex(s[off + i]) for i in range(4)])


def is_unit_at(v, a, b, c):
    """Escape units of Liquid string literals and the character each denotes (C20 statement):
    v[a:b] is one unit denoting the one-character string c.  Stated over v's own indices."""
    n = b - a
    ch = lambda k: v[a + k]  # noqa: E731
    inb = z3.And(a >= 0, b <= z3.Length(v), n >= 1)
    plain = z3.And(n == 1, ch(0) != BS, ch(0) >= 8, ch(0) <= 0x10FFFF, c == z3.Unit(ch(0)))
    short = z3.And(n == 2, ch(0) == BS, z3.Or(*[z3.And(ch(1) == k, c == z3.Unit(z3.IntVal(val))) for k, val in SHORT.items()]))
    hx = lambda off: _digit(ch(off)) * 4096 + _digit(ch(off + 1)) * 256 + _digit(ch(off + 2)) * 16 + _digit(ch(off + 3))  # noqa: E731
    ishx = lambda off: z3.And(*[_is_hex(ch(off + i)) for i in range(4)])  # noqa: E731
    cp = hx(2)
    u4 = z3.And(n == 6, ch(0) == BS, ch(1) == U, ishx(2), z3.Not(z3.And(cp >= 0xD800, cp <= 0xDFFF)), cp >= 8, c == z3.Unit(cp))
    lo = hx(8)
    pair = z3.And(n == 12, ch(0) == BS, ch(1) == U, ishx(2), cp >= 0xD800, cp <= 0xDBFF, ch(6) == BS, ch(7) == U, ishx(8),
                  lo >= 0xDC00, lo <= 0xDFFF, c == z3.Unit(0x10000 + (cp - 0xD800) * 1024 + (lo - 0xDC00)))
    return z3.And(inb, z3.Or(plain, short, u4, pair))


@spec("is_unit_at", _is_unit_at_py)
def _is_unit_at(ex, v, a, b, c):
    return SBool(is_unit_at(ex.to_str_term(v), ex.to_int_term(a), ex.to_int_term(b), ex.to_str_term(c)))


def _prefix(v, k):
    return z3.SubSeq(v, 0, k)


@spec("dec", _dec_py)
def _dec(ex, s):
    return SStr(Dec(ex.to_str_term(s)))


@spec("dec_prefix", lambda v, k: _dec_py(v[:k]))
def _dec_prefix(ex, v, k):
    """Dec(v[:k]) for 0 <= k <= len(v)."""
    return SStr(Dec(_prefix(ex.to_str_term(v), ex.to_int_term(k))))


@spec("dec_empty", None)
def _dec_empty(ex, v=None):
    facts = [Dec(z3.Empty(StrSort)) == z3.Empty(StrSort)]
    if v is not None:
        t = ex.to_str_term(v)
        facts.append(Dec(_prefix(t, z3.IntVal(0))) == z3.Empty(StrSort))
        facts.append(Dec(_prefix(t, z3.Length(t))) == Dec(t))
    return SBool(z3.And(*facts))


@spec("dec_step", None)
def _dec_step(ex, v, a, b, c):
    """Defining equation of Dec over prefixes of one string: if v[a:b] is an escape unit denoting c
    then Dec(v[:b]) = Dec(v[:a]) ++ c."""
    v, a, b, c = ex.to_str_term(v), ex.to_int_term(a), ex.to_int_term(b), ex.to_str_term(c)
    return SBool(z3.Implies(is_unit_at(v, a, b, c), Dec(_prefix(v, b)) == z3.Concat(Dec(_prefix(v, a)), c)))


@spec("scannable", lambda v, i: _scannable_py(v, i))
def _scannable(ex, v, i):
    return SBool(WF(ex.to_str_term(v), ex.to_int_term(i)))


@spec("scannable_unfold", None)
def _scannable_unfold(ex, v, i, n=13):
    """Defining (co-inductive) equations of Scannable, instantiated at positions i .. i+n:
       a non-backslash character is a pre-unit; a backslash needs a successor and takes it along."""
    v, i = ex.to_str_term(v), ex.to_int_term(i)
    ln = z3.Length(v)
    parts = []
    for d in range(n):
        j = i + d
        parts.append(z3.Implies(z3.And(WF(v, j), j >= 0, j < ln, v[j] != BS), WF(v, j + 1)))
        parts.append(z3.Implies(z3.And(WF(v, j), j >= 0, j < ln, v[j] == BS), z3.And(j + 1 < ln, WF(v, j + 2))))
    return SBool(z3.And(*parts))


@spec("joined", None)
def _joined(ex, l):
    return l.acc if isinstance(l, HJoin) else l


@spec("hexval", lambda s: int(s[:4], 16))
def _hexval(ex, s):
    return SInt(hexval4(ex.to_str_term(s)))


@spec("hexval_at", lambda v, off: int(v[off:off+4], 16))
def _hexval_at(ex, v, off):
    return SInt(hexval4(ex.to_str_term(v), ex.to_int_term(off)))


@spec("all_hex_at", lambda v, off: _all_hex_py(v[off:off+4]))
def _all_hex_at(ex, v, off):
    return SBool(all_hex4(ex.to_str_term(v), ex.to_int_term(off)))


@spec("all_hex", _all_hex_py)
def _all_hex(ex, s):
    return SBool(all_hex4(ex.to_str_term(s)))


TOKEN = Rec("Token", _module="liquid2.token", index=Int, value=Str)


def _mk_build(qual, names):
    def build(model, case, fm):
        import liquid2.unescape as U_
        from liquid2.token import Token, TokenType

        tok = Token(type_=TokenType.DOUBLE_QUOTE_STRING, value="", index=0, source="")
        env = {"token": tok}
        args = []
        for n in names:
            kind = case[n].label
            v = fm(model.get(n), 0 if kind == "int" else "")
            env[n] = v
            args.append(v)
        args.append(tok)
        return getattr(U_, qual), args, {}, env

    return build

contract("liquid2.unescape:_is_high_surrogate", props=["C20"], params={"code_point": Int},
         post=["result == (0xD800 <= code_point and code_point <= 0xDBFF)"], raises={}, returns=Bool, always_inline=True)
contract("liquid2.unescape:_is_low_surrogate", props=["C20"], params={"code_point": Int},
         post=["result == (0xDC00 <= code_point and code_point <= 0xDFFF)"], raises={}, returns=Bool, always_inline=True)

contract(
    "liquid2.unescape:_string_from_code_point",
    props=["C20", "C02"],
    params={"code_point": Int, "token": TOKEN},
    pre=["0 <= code_point and code_point <= 0x10FFFF"],
    post=["result == chr(code_point)", "code_point >= 8"],
    raises={"LiquidSyntaxError": "code_point < 8"},
    returns=Str,
    build=_mk_build("_string_from_code_point", ["code_point"]),
)

contract(
    "liquid2.unescape:_parse_hex_digits",
    props=["C20", "C02"],
    params={"digits": Str, "token": TOKEN},
    pre=["len(digits) == 4"],
    unroll={0: 4},          # exactly four characters (precondition): the loop is unrolled, with an unwinding obligation
    post=["all_hex(digits)", "result == hexval(digits)", "0 <= result and result <= 0xFFFF"],
    raises={"LiquidSyntaxError": "not all_hex(digits)"},
    returns=Int,
    build=_mk_build("_parse_hex_digits", ["digits"]),
)

contract(
    "liquid2.unescape:_decode_hex_char",
    props=["C20", "C02"],
    params={"value": Str, "index": Int, "token": TOKEN},
    pre=["0 <= index and index < len(value)", "value[index] == 'u'"],
    post=[
        "result[1] == index + 4 or result[1] == index + 10",
        "result[1] < len(value)",
        # \\uXXXX, not a surrogate
        "implies(result[1] == index + 4, all_hex_at(value, index + 1) and result[0] == hexval_at(value, index + 1)"
        " and not (0xD800 <= result[0] and result[0] <= 0xDFFF))",
        # surrogate pair
        "implies(result[1] == index + 10, all_hex_at(value, index + 1) and all_hex_at(value, index + 7)"
        " and value[index+5] == '\\\\' and value[index+6] == 'u'"
        " and 0xD800 <= hexval_at(value, index + 1) and hexval_at(value, index + 1) <= 0xDBFF"
        " and 0xDC00 <= hexval_at(value, index + 7) and hexval_at(value, index + 7) <= 0xDFFF"
        " and result[0] == 0x10000 + (hexval_at(value, index + 1) - 0xD800) * 1024 + (hexval_at(value, index + 7) - 0xDC00))",
        "0 <= result[0] and result[0] <= 0x10FFFF",
    ],
    raises={"LiquidSyntaxError": None},
    returns=TupleOf(Int, Int),
    build=_mk_build("_decode_hex_char", ["value", "index"]),
)

contract(
    "liquid2.unescape:_decode_escape_sequence",
    props=["C20", "C02"],
    params={"value": Str, "index": Int, "token": TOKEN},
    pre=["1 <= index and index < len(value)", "value[index - 1] == '\\\\'"],
    post=[
        "index <= result[1] and result[1] < len(value)",
        # the characters from the backslash up to and including position result[1] are one escape unit denoting result[0]
        "is_unit_at(value, index - 1, result[1] + 1, result[0])",
    ],
    raises={"LiquidSyntaxError": None},
    returns=TupleOf(Str, Int),
    build=_mk_build("_decode_escape_sequence", ["value", "index"]),
)

contract(
    "liquid2.unescape:unescape",
    props=["C20", "C02"],
    params={"value": Str, "token": TOKEN},
    # what the lexer's string scanners guarantee: every backslash that starts an escape has a successor
    pre=["scannable(value, 0)"],
    # role-based names (recomputed from the AST): `out` = the list the decoded pieces are appended to,
    # `pos` = the scanning position of the while loop
    aliases={"out": "empty-list-local", "pos": "while-var"},
    locals_={"out": "join"},
    loops={0: {
        "lemmas_init": ["dec_empty(value)"],
        "inv": ["0 <= pos and pos <= len(value)",
                "joined(out) == dec_prefix(value, pos)",
                "scannable(value, pos)"],
        "lemmas_head": ["scannable_unfold(value, pos)", "dec_empty(value)"],
        "hints_end": ["joined(out)[:len(pre_out)] == pre_out",
                      "is_unit_at(value, pre_pos, pos, joined(out)[len(pre_out):])"],
        "lemmas_end": ["dec_step(value, pre_pos, pos, joined(out)[len(pre_out):])"],
        "lemmas_exit": ["dec_empty(value)"],
        "dec": "len(value) - pos",
    }},
    post=["result == dec(value)"],   # exactly the denoted string
    raises={"LiquidSyntaxError": None},
    returns=Str,
    build=_mk_build("unescape", ["value"]),
)
