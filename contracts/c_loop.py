"""for-loop window arithmetic (C01) and its totality (C02): LoopExpression._slice, RangeLiteral._make_range, ForLoop helpers."""
import z3
from pyvc.api import *
from pyvc.specs import spec
from pyvc.values import SInt, is_tagged, Tagged
from contracts.c_context import CTX


@spec("window", None)
def _window(ex, it):
    """(lo, hi) of the islice applied to the iterator (None, None when the iterator is returned as is)."""
    cur = it
    if is_tagged(cur, "reversed"):
        cur = cur[1]
    if is_tagged(cur, "opaque-list"):
        cur = cur[1]
    if is_tagged(cur, "islice"):
        return (cur[2] if cur[2] is not None else 0, cur[3])
    return (None, None)


@spec("is_reversed", None)
def _is_reversed(ex, it):
    return is_tagged(it, "reversed")


LOOPX = Rec("LoopExpression", _module="liquid2.builtin.expressions", identifier=Str, iterable=Any_, reversed=Bool)

contract(
    "liquid2.builtin.expressions:LoopExpression._slice",
    props=["C01", "C02"],
    params={"self": LOOPX, "it": Any_, "length": Int, "context": CTX(), "limit": Opt(Int), "offset": Union(NoneT, Int, Const("continue"))},
    # the stop indexes remembered for `offset: continue` are never negative (established by _slice itself)
    # `length` is a len() result (<= sys.maxsize); remembered stop indexes are never negative nor beyond such a length (established by _slice itself)
    pre=["length >= 0 and length <= 9223372036854775807",
         "forall(lambda k: implies(k in context.tag_namespace['stopindex'], context.tag_namespace['stopindex'][k] >= 0 and context.tag_namespace['stopindex'][k] <= 9223372036854775807), 'str')"],
    post=[
        # number of iterations: what is left after the offset, capped by the limit, never negative
        "implies(limit is None and offset is None, result[1] == length and window(result[0])[1] is None)",
        "implies(isinstance(offset, int) and limit is None, result[1] == max(length - max(offset, 0), 0))",
        "implies(isinstance(offset, int) and limit is not None, result[1] == max(min(max(length - max(offset, 0), 0), limit), 0))",
        "implies(offset is None and limit is not None, result[1] == max(min(length, limit), 0))",
        # the window handed to islice is [offset, offset + iterations)
        "implies(window(result[0])[1] is not None, window(result[0])[1] - window(result[0])[0] == result[1] and window(result[0])[0] >= 0)",
        "is_reversed(result[0]) == self.reversed",
        "result[1] >= 0",
        # where the loop stopped is remembered under the loop's key on *every* path (reversed or not), for a later `offset: continue`
        "implies(limit is None and offset is None, context.tag_namespace['stopindex'][f'{self.identifier}-{self.iterable}'] == length)",
        "implies(not (limit is None and offset is None), context.tag_namespace['stopindex'][f'{self.identifier}-{self.iterable}'] == window(result[0])[1])",
        # ... and `offset: continue` resumes exactly there (0 when the loop has not run before)
        "implies(offset == 'continue' and f'{self.identifier}-{self.iterable}' in old(context.tag_namespace['stopindex']), window(result[0])[0] == old(context.tag_namespace['stopindex'])[f'{self.identifier}-{self.iterable}'])",
        "implies(offset == 'continue' and f'{self.identifier}-{self.iterable}' not in old(context.tag_namespace['stopindex']), window(result[0])[0] == 0)",
        "forall(lambda k: implies(k in context.tag_namespace['stopindex'], context.tag_namespace['stopindex'][k] >= 0 and context.tag_namespace['stopindex'][k] <= 9223372036854775807), 'str')",
    ],
    raises={},     # whatever limit/offset: no ValueError from islice, no AssertionError
)

contract(
    "liquid2.builtin.expressions:RangeLiteral._make_range",
    props=["C01", "C02"],
    params={"self": Rec("RangeLiteral", _module="liquid2.builtin.expressions", token=Any_),
            "start": Union(Int, Str, NoneT, Float, PosInf, NaN, ListOf("any")), "stop": Union(Int, Str, NoneT, PosInf)},
    globals_={"MAX_STR_INT": Int},
    pre=["MAX_STR_INT == 0 or MAX_STR_INT >= 640"],
    inline=["liquid2.limits:to_int"],
    post=["implies(isinstance(start, int) and isinstance(stop, int), range_len(result) == max(stop - start + 1, 0))",
          "implies(isinstance(start, int) and isinstance(stop, int) and start <= stop, range_start(result) == start)",
          # whatever the operands: a range whose len() CPython can compute (a wider one is a LiquidValueError)
          "range_len(result) <= 9223372036854775807"],
    raises={"LiquidValueError": None, "LiquidTypeError": None},
)


