"""RenderContext.get_item reaches data only through the item protocol (C05) and fails only with lookup errors (C16)."""
from pyvc.api import *
from contracts.c_context import CTX

contract(
    "liquid2.context:RenderContext.get_item",
    props=["C05", "C16"],
    params={"self": Rec("RenderContext", _module="liquid2.context"), "obj": Any_, "key": Union(Str, Int)},
    # obj is *opaque*: the engine lets code apply only obj[key], len(), isinstance(), hasattr(<literal>) and
    # iteration to it; any other operation (attribute access, getattr by name, vars, ...) is outside the
    # model and makes this function undecided, never verified.
    post=[],
    # lookups fail only with the three errors RenderContext.get turns into an undefined
    raises={"KeyError": None, "IndexError": None, "TypeError": None},
)
