"""Message extraction covers every catalog lookup a render can make (C15): for each translatable filter the catalog
call made at run time and the message reported statically are both pinned to one specification of the gettext
family; the relation between the two is a lemma over those specifications (pyvc/sites.py, C15)."""
import z3
from pyvc.api import *
from pyvc.specs import spec
from pyvc.values import SAny, SBool, SInt, SStr, ObjSort, HDict, EnumVal

FAMILY = {"gettext": 0, "ngettext": 1, "pgettext": 2, "npgettext": 3}


def run_family(plural_given, count_given, ctx_given):
    """Which catalog function the `t` filter calls, by the documentation of the filter: plural forms need a plural
    message *and* a count; a message context selects the p-variants."""
    if plural_given and count_given:
        return "npgettext" if ctx_given else "ngettext"
    return "pgettext" if ctx_given else "gettext"


def static_family(plural_literal, ctx_literal):
    """Which function `message()` reports for extraction."""
    if plural_literal:
        return "npgettext" if ctx_literal else "ngettext"
    return "pgettext" if ctx_literal else "gettext"


@spec("run_family_code", None)
def _run_family_code(ex, plural_given, count_given, ctx_given):
    """FAMILY code of run_family() at (possibly symbolic) booleans: the table of the python definition above."""
    def b(v):
        t = ex.truth(v)
        return z3.BoolVal(t) if isinstance(t, bool) else t
    p, c, x = b(plural_given), b(count_given), b(ctx_given)
    out = z3.IntVal(-1)
    for pv in (False, True):
        for cv in (False, True):
            for xv in (False, True):
                cond = z3.And(p == pv, c == cv, x == xv)
                out = z3.If(cond, z3.IntVal(FAMILY[run_family(pv, cv, xv)]), out)
    return SInt(out)


@spec("static_family_name", None)
def _static_family_name(ex, plural_literal, ctx_literal):
    pl, cl = ex.truth(plural_literal), ex.truth(ctx_literal)
    if isinstance(pl, bool) and isinstance(cl, bool):
        return static_family(pl, cl)
    def b(t):
        return z3.BoolVal(t) if isinstance(t, bool) else t
    from pyvc.values import str_const
    out = str_const("")
    for pv in (False, True):
        for cv in (False, True):
            out = z3.If(z3.And(b(pl) == pv, b(cl) == cv), str_const(static_family(pv, cv)), out)
    return SStr(out)


def _catalog(ex, name):
    """An opaque gettext catalog (whatever `translations` resolves to); its lookups are recorded in ghost scalars."""
    ex.ghost["lookups"] = z3.IntVal(0)
    ex.ghost["family"] = z3.IntVal(-1)
    for g in ("msgid", "plural_id", "ctx_id"):
        ex.ghost[g] = z3.Empty(z3.SeqSort(z3.IntSort()))
    ex.ghost["n"] = z3.IntVal(-1)
    o = ex.sym(name, "any")
    ex.ghost["catalog"] = o.t
    return o


def _lookup(fam):
    def hook(ex, recv, mname, args):
        ex.oblige("catalog.receiver", recv.t == ex.ghost["catalog"], "catalog functions are called on the resolved translations object")
        ex.ghost["lookups"] = ex.ghost["lookups"] + 1
        ex.ghost["family"] = z3.IntVal(FAMILY[fam])
        names = {"gettext": ["msgid"], "ngettext": ["msgid", "plural_id", "n"], "pgettext": ["ctx_id", "msgid"],
                 "npgettext": ["ctx_id", "msgid", "plural_id", "n"]}[fam]
        if len(args) != len(names):
            ex.raise_builtin("TypeError", f"{fam}() takes {len(names)} arguments")
        for g, a in zip(names, args):
            ex.ghost[g] = ex.to_int_term(a) if g == "n" else ex.to_str_term(a)
        return ex.fresh("translated", "str")
    return hook


def _resolve_translations(ex, recv, mname, args):
    return SAny(ex.ghost["catalog"])


@spec("family_is", None)
def _family_is(ex, name):
    return SBool(ex.ghost["family"] == FAMILY[name])


@spec("ghost_str", None)
def _ghost_str(ex, name):
    return SStr(ex.ghost[name])


CATALOG = Opaque(_catalog, "catalog")
CATALOG_HOOKS = {"_resolve_translations": _resolve_translations, "gettext": _lookup("gettext"), "ngettext": _lookup("ngettext"),
                 "pgettext": _lookup("pgettext"), "npgettext": _lookup("npgettext")}
ENV0 = Rec("Environment", _module="liquid2.environment", auto_escape=FalseT)
CTXT = Rec("RenderContext", _module="liquid2.context", env=ENV0)


def FILTER(cls):
    # default_translations stands for whatever catalog the context resolves (the ghost state is initialised with it)
    return Rec(cls, _module="liquid2.builtin.filters.translate", auto_escape_message=Bool, message_interpolation=FalseT, default_translations=CATALOG)


PLURAL_RUN = "plural is not None and count is not None and not isinstance(count, bool)"   # a plural message and a usable count

contract(
    "liquid2.builtin.filters.translate:Translate.__call__",
    props=["C15"],
    params={"self": FILTER("Translate"), "__left": Str, "__message_context": Opt(Str), "context": CTXT,
            "plural": Opt(Str), "count": Union(NoneT, Int, TrueT, FalseT)},
    inline=["liquid2.stringify:to_liquid_string"],
    opaque_methods=CATALOG_HOOKS,
    post=[
        "ghost('lookups') == 1",                                 # exactly one catalog lookup
        "ghost_str('msgid') == __left",                          # of the filter's left value
        # the family is run_family(plural given, usable count given (0 and 1 are counts), context given)
        f"ghost('family') == run_family_code(plural is not None, count is not None and not isinstance(count, bool), __message_context is not None)",
        f"implies({PLURAL_RUN}, ghost_str('plural_id') == plural and ghost('n') == count)",
        "implies(__message_context is not None, ghost_str('ctx_id') == __message_context)",
    ],
    raises={},
)

for _cls, _fam, _params, _posts in (
    ("GetText", "gettext", {}, []),
    ("NGetText", "ngettext", {"__plural": Str, "__count": Int}, ["ghost_str('plural_id') == __plural", "ghost('n') == __count"]),
    ("PGetText", "pgettext", {"__message_context": Str}, ["ghost_str('ctx_id') == __message_context"]),
    ("NPGetText", "npgettext", {"__message_context": Str, "__plural": Str, "__count": Int},
     ["ghost_str('plural_id') == __plural", "ghost_str('ctx_id') == __message_context", "ghost('n') == __count"]),
):
    _p = {"self": FILTER(_cls), "__left": Str}
    _p.update(_params)
    _p["context"] = CTXT
    contract(
        f"liquid2.builtin.filters.translate:{_cls}.__call__",
        props=["C15"],
        params=_p,
        inline=["liquid2.stringify:to_liquid_string"],
        globals_={"MAX_STR_INT": Int},
        pre=["MAX_STR_INT == 0 or MAX_STR_INT >= 640"],
        opaque_methods=CATALOG_HOOKS,
        post=["ghost('lookups') == 1", f"family_is('{_fam}')", "ghost_str('msgid') == __left"] + _posts,
        raises={},
    )

# ---- static side: what message() reports --------------------------------------------------------------------------------
EXPR = "liquid2.builtin.expressions"
LIT = lambda: Rec("StringLiteral", _module=EXPR, value=Str)   # noqa: E731
VAR = lambda: Rec("Path", _module=EXPR)                        # any non-literal expression (a variable)
POS = lambda v: Rec("PositionalArgument", _module=EXPR, value=v)  # noqa: E731
KW = lambda n, v: Rec("KeywordArgument", _module=EXPR, name=Const(n), value=v)  # noqa: E731
# argument lists of the `t` filter: [context] [, plural: ..] [, count: ..] [, other: ..] with literal and non-literal operands
T_ARGS = Union(ConcreteList(), ConcreteList(POS(LIT())), ConcreteList(POS(VAR())), ConcreteList(KW("plural", LIT())),
               ConcreteList(KW("plural", VAR())), ConcreteList(POS(LIT()), KW("plural", LIT())), ConcreteList(KW("count", VAR())),
               ConcreteList(POS(VAR()), KW("count", VAR()), KW("plural", LIT())), ConcreteList(KW("you", VAR()), KW("plural", LIT()), KW("count", VAR())),
               ConcreteList(POS(LIT()), KW("count", VAR())),
               # a positional argument written after keyword arguments is still the first positional argument the filter receives
               ConcreteList(KW("plural", LIT()), KW("count", VAR()), POS(LIT())), ConcreteList(KW("you", VAR()), POS(LIT())))
FILT = lambda args: Rec("Filter", _module=EXPR, args=args)   # noqa: E731


@spec("has_kw", None)
def _has_kw(ex, args, name, literal):
    """Does the (concrete) argument list hold a keyword argument `name` (whose value is / is not a string literal)?"""
    from pyvc.values import HList, HObj
    items = args.items if isinstance(args, HList) else list(args)
    for a in items:
        if isinstance(a, HObj) and a.cls.name == "KeywordArgument" and a.fields.get("name") == name:
            v = a.fields.get("value")
            is_lit = isinstance(v, HObj) and v.cls.name == "StringLiteral"
            if literal is None or literal == is_lit:
                return True
    return False


def _positionals(args):
    """The positional arguments in the order the filter receives them - wherever they are written among the keyword arguments
    (Filter.evaluate_args sorts the arguments into a positional list and a keyword mapping)."""
    from pyvc.values import HList, HObj
    items = args.items if isinstance(args, HList) else list(args)
    return [a for a in items if isinstance(a, HObj) and a.cls.name == "PositionalArgument"]


@spec("first_pos", None)
def _first_pos(ex, args, literal):
    """There is a first positional argument (and it is / is not a string literal)."""
    from pyvc.values import HObj
    ps = _positionals(args)
    if not ps:
        return False
    v = ps[0].fields.get("value")
    return literal is None or literal == (isinstance(v, HObj) and v.cls.name == "StringLiteral")


@spec("n_pos", None)
def _n_pos(ex, args):
    return len(_positionals(args))


@spec("pos_is_lit", None)
def _pos_is_lit(ex, args, k):
    from pyvc.values import HObj
    ps = _positionals(args)
    return k < len(ps) and isinstance(ps[k].fields.get("value"), HObj) and ps[k].fields["value"].cls.name == "StringLiteral"


@spec("pos_lit", None)
def _pos_lit(ex, args, k):
    """The text of the k-th positional argument (a string literal)."""
    return _positionals(args)[k].fields["value"].fields["value"]


contract(
    "liquid2.builtin.filters.translate:Translate.message",
    props=["C15"],
    params={"self": FILTER("Translate"), "left": Union(LIT(), VAR()), "_filter": FILT(T_ARGS), "lineno": Int},
    post=[
        "implies(not isinstance(left, StringLiteral), result is None)",     # only literal operands are extracted
        # a literal left operand is reported unless a non-literal plural makes the message unknowable
        "implies(isinstance(left, StringLiteral) and not has_kw(_filter.args, 'plural', False), result is not None)",
        "implies(result is not None, result.lineno == lineno)",
        "implies(result is not None, result.funcname == static_family_name(has_kw(_filter.args, 'plural', True), first_pos(_filter.args, True)))",
        # the family reported: plural forms for a literal plural, p-variants for a literal context
        "implies(result is not None and has_kw(_filter.args, 'plural', True) and first_pos(_filter.args, True), result.funcname == 'npgettext' and result.message == ((pos_lit(_filter.args, 0), 'c'), left.value, plural_of(_filter.args)))",
        "implies(result is not None and has_kw(_filter.args, 'plural', True) and not first_pos(_filter.args, True), result.funcname == 'ngettext' and result.message == (left.value, plural_of(_filter.args)))",
        "implies(result is not None and not has_kw(_filter.args, 'plural', None) and first_pos(_filter.args, True), result.funcname == 'pgettext' and result.message == ((pos_lit(_filter.args, 0), 'c'), left.value))",
        "implies(result is not None and not has_kw(_filter.args, 'plural', None) and not first_pos(_filter.args, True), result.funcname == 'gettext' and result.message == (left.value,))",
    ],
    raises={},
)


@spec("plural_of", None)
def _plural_of(ex, args):
    from pyvc.values import HList, HObj
    items = args.items if isinstance(args, HList) else list(args)
    out = None
    for a in items:
        if isinstance(a, HObj) and a.cls.name == "KeywordArgument" and a.fields.get("name") == "plural":
            out = a.fields["value"].fields["value"]
    return out


# the single-family filters: literal operands in the documented positions are reported under the filter's own name
for _cls, _fam, _args, _posts in (
    ("GetText", "gettext", Union(ConcreteList(), ConcreteList(KW("you", VAR()))),
     ["implies(isinstance(left, StringLiteral), result is not None and result.funcname == 'gettext' and result.message == (left.value,) and result.lineno == lineno)"]),
    ("NGetText", "ngettext", Union(ConcreteList(), ConcreteList(POS(LIT()), POS(VAR())), ConcreteList(POS(VAR()), POS(VAR())), ConcreteList(POS(LIT())),
                                 ConcreteList(KW("you", LIT()), POS(LIT()), POS(VAR()))),
     ["implies(isinstance(left, StringLiteral) and first_pos(_filter.args, True), result is not None and result.funcname == 'ngettext' and result.message == (left.value, pos_lit(_filter.args, 0)) and result.lineno == lineno)"]),
    ("PGetText", "pgettext", Union(ConcreteList(), ConcreteList(POS(LIT())), ConcreteList(POS(VAR())), ConcreteList(KW("you", LIT()), POS(LIT()))),
     ["implies(isinstance(left, StringLiteral) and first_pos(_filter.args, True), result is not None and result.funcname == 'pgettext' and result.message == ((pos_lit(_filter.args, 0), 'c'), left.value) and result.lineno == lineno)"]),
    ("NPGetText", "npgettext", Union(ConcreteList(), ConcreteList(POS(LIT())), ConcreteList(POS(LIT()), POS(LIT()), POS(VAR())), ConcreteList(POS(VAR()), POS(LIT()), POS(VAR())),
                                      ConcreteList(POS(LIT()), POS(VAR()), POS(VAR())), ConcreteList(KW("you", LIT()), POS(LIT()), POS(LIT()), POS(VAR()))),
     ["implies(isinstance(left, StringLiteral) and n_pos(_filter.args) >= 2 and first_pos(_filter.args, True) and pos_is_lit(_filter.args, 1), result is not None and result.funcname == 'npgettext' "
      "and result.message == ((pos_lit(_filter.args, 0), 'c'), left.value, pos_lit(_filter.args, 1)) and result.lineno == lineno)"]),
):
    contract(
        f"liquid2.builtin.filters.translate:{_cls}.message",
        props=["C15"],
        params={"self": Rec(_cls, _module="liquid2.builtin.filters.translate", name=Const(_fam)), "left": Union(LIT(), VAR()), "_filter": FILT(_args), "lineno": Int},
        post=["implies(not isinstance(left, StringLiteral), result is None)"] + _posts,
        raises={},
    )


# ---- the translate tag: the lookup made by render (gettext) and the message reported (messages) --------------------------
class ConcreteDict(Type):
    """A python dict with fixed string keys and typed values."""

    def __init__(self, **items):
        self.items = items
        self.label = "dict{" + ",".join(items) + "}"

    def fresh(self, ex, name, fixed=False):
        from pyvc.values import HDict
        return HDict(concrete={k: t.fresh(ex, f"{name}[{k}]", True) for k, t in self.items.items()})


TAGMOD = "liquid2.builtin.tags.translate_tag"
BLOCKNODE = lambda nodes: Rec("BlockNode", _module="liquid2.ast", nodes=nodes, token=Any_)   # noqa: E731

LineOf = z3.Function("line_number_of", ObjSort, z3.IntSort())     # messages.line_number(token): the line the token starts on


def _line_number_hook(ex, selfv, name, args, **kw):
    return SInt(LineOf(ex.box(args[0])))


@spec("line_of", None)
def _line_of(ex, tok):
    return SInt(LineOf(ex.box(tok)))
MSGBLOCK = lambda nodes=ListOf("any"): Rec("MessageBlock", _module=TAGMOD, block=BLOCKNODE(nodes), text=Str)   # noqa: E731
KWA = lambda v: Rec("KeywordArgument", _module=EXPR, value=v)   # noqa: E731

contract(
    f"{TAGMOD}:TranslateNode.gettext",
    props=["C15"],
    params={"self": Rec("TranslateNode", _module=TAGMOD, singular_block=MSGBLOCK(), plural_block=Opt(MSGBLOCK())),
            "translations": CATALOG, "count": Union(Int, NoneT), "message_context": Opt(Str)},
    opaque_methods=CATALOG_HOOKS,
    post=[
        # an empty message is not a message (extraction reports none): no catalog lookup - the catalog answers '' with its header
        "implies(len(self.singular_block.text) == 0, ghost('lookups') == 0 and result == '')",
        "implies(len(self.singular_block.text) > 0, ghost('lookups') == 1)",
        "implies(len(self.singular_block.text) > 0, ghost_str('msgid') == self.singular_block.text)",
        # a plural block and a count (0 included) -> the plural forms, with the count passed on
        "implies(len(self.singular_block.text) > 0, ghost('family') == run_family_code(self.plural_block is not None, count is not None, message_context is not None and len(message_context) > 0))",
        "implies(len(self.singular_block.text) > 0 and self.plural_block is not None and count is not None, ghost_str('plural_id') == self.plural_block.text and ghost('n') == count)",
        "implies(len(self.singular_block.text) > 0 and message_context is not None and len(message_context) > 0, ghost_str('ctx_id') == message_context)",
    ],
    raises={},
)

contract(
    f"{TAGMOD}:TranslateNode.resolve_count",
    props=["C15"],
    params={"self": Rec("TranslateNode", _module=TAGMOD, message_count_var=Const("count")), "context": Any_,
            "block_scope": Union(ConcreteDict(), ConcreteDict(count=Union(Int, Str, NoneT, Float)), ConcreteDict(you=Str))},
    globals_={"MAX_STR_INT": Int},
    pre=["MAX_STR_INT == 0 or MAX_STR_INT >= 640"],
    post=["result is not None",                                             # render always has a count: a plural block means plural lookups
          "implies('count' in block_scope and isinstance(block_scope['count'], int), result == block_scope['count'])",
          "implies('count' not in block_scope, result == 1)"],
    raises={"LiquidValueError": None},
)

_CTX_ARGS = Union(ConcreteDict(), ConcreteDict(context=KWA(LIT())), ConcreteDict(context=KWA(VAR())), ConcreteDict(you=KWA(VAR()), context=KWA(LIT())),
                  ConcreteDict(count=KWA(VAR())))
LIT_CTX = "('context' in self.args and isinstance(self.args['context'].value, StringLiteral) and len(self.args['context'].value.value) > 0)"

contract(
    f"{TAGMOD}:TranslateNode.messages",
    props=["C15"],
    params={"self": Rec("TranslateNode", _module=TAGMOD, args=_CTX_ARGS, singular_block=MSGBLOCK(Union(ConcreteList(), ConcreteList(Any_))),
                        plural_block=Opt(MSGBLOCK()), message_context_var=Const("context"),
                        token=Rec("TagToken", _module="liquid2.token", start=Int, source=Str))},
    opaque_methods={"line_number": _line_number_hook},
    post=[
        # the message is reported on the line the translate tag itself starts on
        "implies(len(result) == 1, result[0].lineno == line_of(self.token))",
        "implies(len(self.singular_block.block.nodes) == 0, len(result) == 0)",          # an empty message is not a message
        "implies(len(self.singular_block.block.nodes) > 0, len(result) == 1)",
        f"implies(len(result) == 1, result[0].funcname == static_family_name(self.plural_block is not None, {LIT_CTX}))",
        f"implies(len(result) == 1 and self.plural_block is not None and {LIT_CTX}, result[0].funcname == 'npgettext' and "
        "result[0].message == ((self.args['context'].value.value, 'c'), self.singular_block.text, self.plural_block.text))",
        f"implies(len(result) == 1 and self.plural_block is not None and not {LIT_CTX}, result[0].funcname == 'ngettext' and "
        "result[0].message == (self.singular_block.text, self.plural_block.text))",
        f"implies(len(result) == 1 and self.plural_block is None and {LIT_CTX}, result[0].funcname == 'pgettext' and "
        "result[0].message == ((self.args['context'].value.value, 'c'), self.singular_block.text))",
        f"implies(len(result) == 1 and self.plural_block is None and not {LIT_CTX}, result[0].funcname == 'gettext' and "
        "result[0].message == (self.singular_block.text,))",
    ],
    raises={},
)

contract(
    f"{TAGMOD}:TranslateNode.resolve_message_context",
    props=["C15"],
    params={"self": Rec("TranslateNode", _module=TAGMOD, message_context_var=Const("context")), "context": Any_,
            "block_scope": Union(ConcreteDict(), ConcreteDict(context=Union(Str, NoneT, MarkupT)), ConcreteDict(you=Str))},
    post=["implies('context' not in old(block_scope), result is None)",
          "implies('context' in old(block_scope) and isinstance(old(block_scope)['context'], str) and len(old(block_scope)['context']) > 0, result == old(block_scope)['context'])",
          "implies(result is not None, len(result) > 0)"],        # an empty context is no context
    raises={},
)
