"""Control-flow tags execute exactly the branch their conditions dictate (C01).

Sub-expressions and blocks are opaque AST nodes (any subclass): `evaluate` yields a value whose Liquid
truthiness is the uninterpreted T(expr); `render` is recorded in two ghost scalars (how many blocks
were rendered, and which one last)."""
import z3
from pyvc.api import *
from pyvc.specs import spec
from pyvc.values import SAny, SBool, SInt, ObjSort, BoolSort, IntSort

T = z3.Function("evaluates_truthy", ObjSort, BoolSort)


def _evaluate(ex, recv, mname, args):
    """expr.evaluate(context): an opaque value; its truthiness is T(expr)."""
    from pyvc.intrinsics import F_any_truth
    r = ex.fresh("value", "any")
    ex.assume(F_any_truth(r.t) == T(recv.t))
    ex.ghost["evals"] = ex.ghost.get("evals", z3.IntVal(0)) + 1
    return r


def _render(ex, recv, mname, args):
    """node.render(context, buffer): counted, and remembered as the last block rendered."""
    ex.ghost["renders"] = ex.ghost.get("renders", z3.IntVal(0)) + 1
    ex.ghost["last"] = recv.t
    n = ex.fresh("written", "int")
    ex.assume(n.t >= 0)
    return n


def _init_ghost(ex, name):
    ex.ghost["renders"] = z3.IntVal(0)
    ex.ghost["evals"] = z3.IntVal(0)
    ex.ghost["last"] = z3.Const("no_block", ObjSort)
    return ex.sym(name, "any")


@spec("truthy", None)
def _truthy(ex, e):
    return SBool(T(e.t))


def _node(ex, name):
    """An AST node object: opaque, truthy (Node classes define neither __bool__ nor __len__), not None."""
    from pyvc.intrinsics import F_any_truth, F_is_none
    o = ex.sym(name, "any")
    ex.assume(z3.And(F_any_truth(o.t), z3.Not(F_is_none(o.t))))
    return o


NODE = Opaque(_node, "node")
CTX0 = Opaque(_init_ghost, "context")
OPAQUE = {"evaluate": _evaluate, "evaluate_async": _evaluate, "render": _render, "render_async": _render}
ALT_FIELDS = {"expression": "any", "block": "any"}

NONE_BEFORE = "forall(lambda k: implies(0 <= k and k < {j}, not truthy(self.alternatives[k].expression)))"

for _cls, _mod, _first in (("IfNode", "liquid2.builtin.tags.if_tag", "truthy(self.condition)"),
                            ("UnlessNode", "liquid2.builtin.tags.unless_tag", "not truthy(self.condition)")):
    for _meth in ("render_to_output", "render_to_output_async"):
        contract(
            f"{_mod}:{_cls}.{_meth}",
            props=["C01"],
            params={"self": Rec(_cls, _module=_mod, condition=NODE, consequence=NODE, alternatives=ListOf("any"), default=Opt(NODE)),
                    "context": CTX0, "buffer": Any_},
            obj_fields=ALT_FIELDS,
            opaque_methods=OPAQUE,
            loops={0: {"inv": ["ghost('renders') == 0", f"not ({_first})", NONE_BEFORE.format(j="_i")]}},
            post=[
                "ghost('renders') <= 1",   # at most one branch
                # the consequence, exactly when the first guard selects it
                f"implies({_first}, ghost('renders') == 1 and ghost('last') == self.consequence)",
                # otherwise the first elsif whose condition is truthy ...
                f"implies(not ({_first}) and ghost('renders') == 1 and not (self.default is not None and ghost('last') == self.default and "
                + NONE_BEFORE.format(j="len(self.alternatives)") + "),"
                " exists(lambda j: 0 <= j and j < len(self.alternatives) and ghost('last') == self.alternatives[j].block"
                " and truthy(self.alternatives[j].expression) and " + NONE_BEFORE.format(j="j") + "))",
                # ... and nothing at all only if every guard is falsy and there is no else
                f"implies(ghost('renders') == 0, not ({_first}) and self.default is None and " + NONE_BEFORE.format(j="len(self.alternatives)") + ")",
                # else only if every guard is falsy
                f"implies(not ({_first}) and " + NONE_BEFORE.format(j="len(self.alternatives)") + " and self.default is not None, ghost('renders') == 1 and ghost('last') == self.default)",
            ],
            raises={},
        )


for _cls, _mod in (("ConditionalBlockNode", "liquid2.ast"), ("MultiExpressionBlockNode", "liquid2.builtin.tags.case_tag")):
    for _meth in ("render_to_output", "render_to_output_async"):
        contract(
            f"{_mod}:{_cls}.{_meth}",
            props=["C01"],
            params={"self": Rec(_cls, _module=_mod, expression=NODE, block=NODE), "context": CTX0, "buffer": Any_},
            opaque_methods=OPAQUE,
            post=["ghost('evals') == 1",
                  "implies(truthy(self.expression), ghost('renders') == 1 and ghost('last') == self.block)",
                  "implies(not truthy(self.expression), ghost('renders') == 0 and result == 0)"],
            raises={},
        )

WHEN_FIELDS = {"expression": "any", "block": "any"}
ANY_MATCH = "exists(lambda k: 0 <= k and k < {j} and truthy(self.whens[k].expression))"

for _meth in ("render_to_output", "render_to_output_async"):
    contract(
        f"liquid2.builtin.tags.case_tag:CaseNode.{_meth}",
        # C18: which branch runs does not depend on how much text a block wrote (trimming and blank suppression change that)
        props=["C01", "C18"],
        params={"self": Rec("CaseNode", _module="liquid2.builtin.tags.case_tag", whens=ListOf("any"), default=Opt(NODE)), "context": CTX0, "buffer": Any_},
        obj_fields=WHEN_FIELDS,
        opaque_methods=OPAQUE,
        # the else block is a node of its own
        pre=["implies(self.default is not None, forall(lambda k: implies(0 <= k and k < len(self.whens), self.whens[k].block != self.default)))",
             "implies(self.default is not None, ghost('last') != self.default)"],   # nothing rendered yet
        loops={0: {"inv": ["matched == " + ANY_MATCH.format(j="_i"),
                           "implies(not matched, ghost('renders') == 0)", "implies(matched, ghost('renders') >= 1)",
                           "implies(self.default is not None, ghost('last') != self.default)"]}},
        post=[
            # `else` is rendered exactly when no `when` clause matched - whatever the matching blocks wrote
            "implies(self.default is not None and not " + ANY_MATCH.format(j="len(self.whens)") + ", ghost('renders') == 1 and ghost('last') == self.default)",
            "implies(self.default is not None and " + ANY_MATCH.format(j="len(self.whens)") + ", ghost('last') != self.default and ghost('renders') >= 1)",
            "implies(self.default is None and not " + ANY_MATCH.format(j="len(self.whens)") + ", ghost('renders') == 0)",
        ],
        raises={},
    )

# ---- value semantics ---------------------------------------------------------------------------------------------
from pyvc.values import HDict  # noqa: E402

VALS = Union(TrueT, FalseT, NoneT, Int, Str, Float, Const(0), Const(""), ListOf("any"))

contract(
    "liquid2.builtin.expressions:is_truthy",
    props=["C01"],
    params={"obj": VALS},
    # only false and nil are falsy (0, "", empty arrays are truthy)
    post=["result == (not (obj is False or obj is None))"],
    raises={},
)

_UNDEF = lambda cls: Rec(cls, _module="liquid2.undefined", path=Str, hint=Opt(Str), token=Any_, obj=Any_)   # noqa: E731

contract(
    "liquid2.builtin.expressions:_eq",
    props=["C01", "C16"],
    params={"left": Union(TrueT, FalseT, NoneT, Int, Str, Const(1), Const(0), _UNDEF("Undefined"), _UNDEF("FalsyStrictUndefined")),
            "right": Union(TrueT, FalseT, NoneT, Int, Str, Const(1), Const(0), _UNDEF("Undefined"), _UNDEF("FalsyStrictUndefined"))},
    post=[
        # a missing variable compares like nil on either side, under every undefined policy that renders at all
        "implies(isinstance(left, Undefined) and (right is None or isinstance(right, Undefined)), result == True)",
        "implies(isinstance(right, Undefined) and left is None, result == True)",
        "implies(isinstance(left, Undefined) and (isinstance(right, (int, str)) ), result == False)",
        "implies(isinstance(right, Undefined) and (isinstance(left, (int, str)) ), result == False)",
        # booleans equal only booleans (Python's True == 1 does not leak into Liquid)
        "implies(isinstance(left, bool) != isinstance(right, bool), result == False)",
        "implies(isinstance(left, bool) and isinstance(right, bool), result == (left is right))",
        "implies(isinstance(left, int) and isinstance(right, int) and not isinstance(left, bool) and not isinstance(right, bool), result == (left == right))",
        "implies(isinstance(left, str) and isinstance(right, str), result == (left == right))",
        "implies(left is None and right is None, result == True)",
    ],
    raises={},
)

contract(
    "liquid2.builtin.expressions:_lt",
    props=["C01", "C02"],
    params={"token": Any_, "left": Union(TrueT, NoneT, Int, Str, Float), "right": Union(FalseT, NoneT, Int, Str, Float)},
    post=[
        "implies(isinstance(left, bool) or isinstance(right, bool), result == False)",
        "implies(isinstance(left, int) and isinstance(right, int) and not isinstance(left, bool) and not isinstance(right, bool), result == (left < right))",
    ],
    # ordering of unlike kinds is a Liquid type error, never a Python TypeError
    raises={"LiquidTypeError": "not (isinstance(left, str) and isinstance(right, str)) and not isinstance(left, bool) and not isinstance(right, bool)"
                               " and not (isinstance(left, (int, float)) and isinstance(right, (int, float)))"},
)

# ---- for-loop helper variables ------------------------------------------------------------------------------------
FORLOOP = Rec("ForLoop", _module="liquid2.builtin.tags.for_tag", length=Int, _index=Int, name=Str)
for _prop, _post in (("index", "result == self._index + 1"), ("index0", "result == self._index"),
                     ("rindex", "result == self.length - self._index"), ("rindex0", "result == self.length - self._index - 1"),
                     ("first", "result == (self._index == 0)"), ("last", "result == (self._index == self.length - 1)")):
    contract(f"liquid2.builtin.tags.for_tag:ForLoop.{_prop}", props=["C01"], params={"self": FORLOOP},
             pre=["0 <= self._index and self._index < self.length"],
             post=[_post] + (["1 <= result and result <= self.length"] if _prop in ("index", "rindex") else []), raises={})
contract("liquid2.builtin.tags.for_tag:ForLoop.step", props=["C01"], params={"self": FORLOOP},
         post=["self._index == old(self._index) + 1", "self.length == old(self.length)"], raises={})
