"""Sidecar contracts: one module per repository module. Importing this package
registers every contract in pyvc.api.REGISTRY."""
import importlib
import pkgutil

for _m in pkgutil.iter_modules(__path__):
    importlib.import_module(f"{__name__}.{_m.name}")
