"""Serialising strings back to Liquid source (C12, C20): `_escape_string(value, quote)` writes a sequence of escape units that the
lexer and `unescape` read back as `value`.

EscapesTo(text, v, k, q) is the inductive relation `text is a sequence of escape units, valid between two q quotes, denoting the
first k characters of v`:
    base   EscapesTo("", v, 0, q)
    step   EscapesTo(t, v, k, q) and k < len(v) and Unit_q(p, v[k], v[k+1])  ==>  EscapesTo(t ++ p, v, k + 1, q)
where Unit_q(p, c, next) says that p is one escape unit of Liquid string literals denoting the character c (the units of the C20
specification decoder, see the liquid2/unescape.py contracts), or the escaped quote `\\q`; a unit that is a plain character is
neither the quote itself (it would end the literal) nor a `$` in front of `{` (it would start an interpolation). The relation is
uninterpreted: the only way to establish it is through instances of base and step, so `EscapesTo(result, value, len(value), q)` as
a postcondition means the code built its result unit by unit, the k-th unit denoting the k-th character of `value`.
That such a text is read back as `value` by the lexer's string scanner and unescape() is the C20 obligation `unescape(s) == dec(s)`
plus determinism of the unit grammar - argued in DESIGN.md, not machine-checked."""
import z3
from pyvc.api import *
from pyvc.specs import spec
from pyvc.values import SBool, SStr, StrSort, BoolSort, IntSort, HJoin
from contracts.c_unescape import is_unit_at

EscRel = z3.Function("EscapesTo", StrSort, StrSort, IntSort, StrSort, BoolSort)
TextOK = z3.Function("LiteralText", StrSort, BoolSort)
BSs = z3.Unit(z3.IntVal(92))


@spec("esc_rel", None)
def _esc_rel(ex, text, v, k, q):
    return SBool(EscRel(ex.to_str_term(text), ex.to_str_term(v), ex.to_int_term(k), ex.to_str_term(q)))


@spec("esc_base", None)
def _esc_base(ex, v, q):
    return SBool(EscRel(z3.Empty(StrSort), ex.to_str_term(v), z3.IntVal(0), ex.to_str_term(q)))


@spec("last_piece", None)
def _last_piece(ex, buf):
    if not isinstance(buf, HJoin) or getattr(buf, "last", None) is None:
        raise Unsupported("last_piece of a list nothing was appended to")
    return buf.last


@spec("esc_step", None)
def _esc_step(ex, text, v, k, piece, q):
    text, v, piece, q = (ex.to_str_term(x) for x in (text, v, piece, q))
    k = ex.to_int_term(k)
    ln = z3.Length(piece)
    c = z3.Unit(v[k])
    dollar, brace = z3.IntVal(36), z3.IntVal(123)
    next_is_brace = z3.And(k + 1 < z3.Length(v), v[k + 1] == brace)
    unit = z3.And(is_unit_at(piece, z3.IntVal(0), ln, c),
                  z3.Implies(ln == 1, z3.And(c != q, z3.Not(z3.And(piece[0] == dollar, next_is_brace)))))
    quote_escape = z3.And(piece == z3.Concat(BSs, q), c == q)
    return SBool(z3.Implies(z3.And(EscRel(text, v, k, q), k >= 0, k < z3.Length(v), z3.Length(q) == 1, z3.Or(unit, quote_escape)),
                            EscRel(z3.Concat(text, piece), v, k + 1, q)))


@spec("literal_text", None)
def _literal_text(ex, v):
    return SBool(TextOK(ex.to_str_term(v)))


@spec("literal_text_at", None)
def _literal_text_at(ex, v, k):
    """Definition of LiteralText, instantiated at position k: a Unicode scalar value that a parsed literal can hold (unescape()
    rejects lone surrogates and characters below U+0008)."""
    v, k = ex.to_str_term(v), ex.to_int_term(k)
    c = v[k]
    return SBool(z3.Implies(z3.And(TextOK(v), k >= 0, k < z3.Length(v)),
                            z3.And(c >= 8, c <= 0x10FFFF, z3.Not(z3.And(c >= 0xD800, c <= 0xDFFF)))))


contract(
    "liquid2.builtin.expressions:_escape_string",
    props=["C12", "C20"],
    params={"value": Str, "quote": Union(Const("'"), Const('"'))},
    locals_={"buf": "join"},
    pre=["literal_text(value)"],
    loops={0: {
        "lemmas_init": ["esc_base(value, quote)"],
        "inv": ["esc_rel(joined(buf), value, _i, quote)"],
        "lemmas_head": ["literal_text_at(value, _i)"],
        "lemmas_end": ["esc_step(pre_buf, value, _i - 1, last_piece(buf), quote)"],
    }},
    post=["esc_rel(result, value, len(value), quote)"],
    raises={},
    returns=Str,
)

contract(
    "liquid2.builtin.expressions:_quote_char",
    props=["C12", "C20"],
    params={"value": Str},
    post=["result == \"'\" or result == '\"'"],
    raises={},
    returns=Str,
)
