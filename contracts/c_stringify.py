"""Output stringification (C01, C04): liquid2.stringify.to_liquid_string and its twin in builtin.expressions."""
from pyvc.api import *

VAL = Union(Str, MarkupT, TrueT, FalseT, NoneT, Int, Float, Const(range(2, 6), "range(2,6)"), ListOf("any"))

for _target in ("liquid2.stringify:to_liquid_string", "liquid2.builtin.expressions:_to_liquid_string"):
    contract(
        _target,
        props=["C04", "C01"],
        params={"val": VAL, "auto_escape": Union(TrueT, FalseT)},
        post=[
            # auto-escape: whatever comes in, what goes to the output is Markup - escaped unless it already was Markup
            "implies(auto_escape, isinstance(result, Markup))",
            "implies(auto_escape and isinstance(val, Markup), result == val)",
            # the Liquid string form of each kind of value
            "implies(not auto_escape and isinstance(val, str), result == val)",
            "implies(not auto_escape and val is True, result == 'true')",
            "implies(not auto_escape and val is False, result == 'false')",
            "implies(not auto_escape and val is None, result == '')",
            "implies(not auto_escape and isinstance(val, range), result == '2..5')",
            "implies(not auto_escape and isinstance(val, int) and not isinstance(val, bool), result == str(val))",
        ],
        raises={},
    )
