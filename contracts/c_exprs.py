"""Expression evaluation kernels (C01): logical and comparison operators over literal operands of every kind, ternaries.

Operands are real literal expression objects (their `evaluate` is the repository's own code, inlined), so the postconditions
speak about the written values: `a <= b` is true exactly when the Liquid values are equal or ordered, `and`/`or`/`not` follow
Liquid truthiness (only nil and false are falsy - 0 and '' are truthy)."""
from pyvc.api import *

EXPR = "liquid2.builtin.expressions"
INTLIT = lambda: Rec("IntegerLiteral", _module=EXPR, value=Int, token=Any_)      # noqa: E731
STRLIT = lambda: Rec("StringLiteral", _module=EXPR, value=Str, token=Any_)       # noqa: E731
TRUE = lambda: Rec("TrueLiteral", _module=EXPR, value=TrueT, token=Any_)          # noqa: E731
FALSE = lambda: Rec("FalseLiteral", _module=EXPR, value=FalseT, token=Any_)       # noqa: E731
NULL = lambda: Rec("Null", _module=EXPR, token=Any_)                              # noqa: E731
CTXE = Rec("RenderContext", _module="liquid2.context", auto_escape=FalseT)
OPERAND = lambda: Union(INTLIT(), STRLIT(), TRUE(), FALSE(), NULL())              # noqa: E731

IS_INT = "isinstance({x}, IntegerLiteral)"
FALSY = "(isinstance({x}, (FalseLiteral, Null)))"     # the only falsy literals; every other value, 0 and '' included, is truthy
BOTH_INT = "isinstance(self.left, IntegerLiteral) and isinstance(self.right, IntegerLiteral)"
BOTH_STR = "isinstance(self.left, StringLiteral) and isinstance(self.right, StringLiteral)"

for _cls, _posts in (
    ("LogicalAndExpression", ["result == (not " + FALSY.format(x="self.left") + " and not " + FALSY.format(x="self.right") + ")"]),
    ("LogicalOrExpression", ["result == (not " + FALSY.format(x="self.left") + " or not " + FALSY.format(x="self.right") + ")"]),
    ("EqExpression", [f"implies({BOTH_INT}, result == (self.left.value == self.right.value))",
                      f"implies({BOTH_STR}, result == (self.left.value == self.right.value))",
                      "implies(isinstance(self.left, Null) and isinstance(self.right, Null), result == True)",
                      # a boolean equals only the same boolean (1 == true is false in Liquid)
                      "implies(isinstance(self.left, TrueLiteral), result == isinstance(self.right, TrueLiteral))",
                      "implies(isinstance(self.left, IntegerLiteral) and isinstance(self.right, (TrueLiteral, FalseLiteral, Null, StringLiteral)), result == False)"]),
    ("NeExpression", [f"implies({BOTH_INT}, result == (self.left.value != self.right.value))",
                      f"implies({BOTH_STR}, result == (self.left.value != self.right.value))",
                      "implies(isinstance(self.left, Null) and isinstance(self.right, Null), result == False)",
                      "implies(isinstance(self.left, TrueLiteral), result == (not isinstance(self.right, TrueLiteral)))"]),
    ("LtExpression", [f"implies({BOTH_INT}, result == (self.left.value < self.right.value))"]),
    ("GtExpression", [f"implies({BOTH_INT}, result == (self.left.value > self.right.value))"]),
    ("LeExpression", [f"implies({BOTH_INT}, result == (self.left.value <= self.right.value))",
                      "implies(isinstance(self.left, Null) and isinstance(self.right, Null), result == True)"]),
    ("GeExpression", [f"implies({BOTH_INT}, result == (self.left.value >= self.right.value))",
                      "implies(isinstance(self.left, Null) and isinstance(self.right, Null), result == True)"]),
):
    for _meth in ("evaluate", "evaluate_async"):
        contract(
            f"{EXPR}:{_cls}.{_meth}",
            props=["C01"],
            params={"self": Rec(_cls, _module=EXPR, left=OPERAND(), right=OPERAND(), token=Any_), "context": CTXE},
            inline=[f"{EXPR}:_eq", f"{EXPR}:_lt", f"{EXPR}:is_truthy"],
            post=_posts,
            # ordering a number against nil, a boolean or a string is a Liquid type error, never a Python TypeError
            raises={"LiquidTypeError": None} if _cls in ("LtExpression", "GtExpression", "LeExpression", "GeExpression") else {},
        )

for _meth in ("evaluate", "evaluate_async"):
    contract(
        f"{EXPR}:LogicalNotExpression.{_meth}",
        props=["C01"],
        params={"self": Rec("LogicalNotExpression", _module=EXPR, expression=OPERAND(), token=Any_), "context": CTXE},
        inline=[f"{EXPR}:is_truthy"],
        post=["result == " + FALSY.format(x="self.expression")],
        raises={},
    )
    contract(
        f"{EXPR}:BooleanExpression.{_meth}",
        props=["C01"],
        params={"self": Rec("BooleanExpression", _module=EXPR, expression=OPERAND(), token=Any_), "context": CTXE},
        inline=[f"{EXPR}:is_truthy"],
        post=["result == (not " + FALSY.format(x="self.expression") + ")"],
        raises={},
    )


# ---- ternary: the condition picks the branch; no filters in this instance ---------------------------------------------
VALLIT = lambda: Union(INTLIT(), STRLIT())   # noqa: E731
for _meth in ("evaluate", "evaluate_async"):
    contract(
        f"{EXPR}:TernaryFilteredExpression.{_meth}",
        props=["C01"],
        params={"self": Rec("TernaryFilteredExpression", _module=EXPR, left=VALLIT(), alternative=Opt(VALLIT()), filters=NoneT, tail_filters=NoneT, token=Any_,
                            condition=Rec("BooleanExpression", _module=EXPR, expression=OPERAND(), token=Any_)),
                "context": CTXE},
        inline=[f"{EXPR}:is_truthy", f"{EXPR}:BooleanExpression.evaluate", f"{EXPR}:BooleanExpression.evaluate_async"],
        post=["implies(not " + FALSY.format(x="self.condition.expression") + ", result == self.left.value)",
              "implies(" + FALSY.format(x="self.condition.expression") + " and self.alternative is None, result is None)",
              "implies(" + FALSY.format(x="self.condition.expression") + " and self.alternative is not None, result == self.alternative.value)"],
        raises={},
    )

# ---- filtered expression: the filters are applied left to right, each to the result of the previous one -----------------
import z3
from pyvc.specs import spec
from pyvc.values import SAny, ObjSort

VAL = z3.Function("value_of_expression", ObjSort, ObjSort)
APPLY = z3.Function("apply_filter", ObjSort, ObjSort, ObjSort)


def _evaluate_hook(ex, recv, mname, args):
    if len(args) == 1:                       # expression.evaluate(context)
        return SAny(VAL(recv.t))
    return SAny(APPLY(recv.t, ex.box(args[0])))   # filter.evaluate(value, context)


@spec("val", None)
def _val(ex, e):
    return SAny(VAL(e.t))


@spec("apply", None)
def _apply(ex, f, v):
    return SAny(APPLY(f.t, v.t))


from contracts.c_branches import NODE  # noqa: E402

for _meth in ("evaluate", "evaluate_async"):
    contract(
        f"{EXPR}:FilteredExpression.{_meth}",
        props=["C01"],
        params={"self": Rec("FilteredExpression", _module=EXPR, left=NODE, token=Any_,
                            filters=Union(NoneT, ConcreteList(), ConcreteList(NODE), ConcreteList(NODE, NODE), ConcreteList(NODE, NODE, NODE))),
                "context": Any_},
        opaque_methods={"evaluate": _evaluate_hook, "evaluate_async": _evaluate_hook},
        post=["implies(self.filters is None or len(self.filters) == 0, result == val(self.left))",
              "implies(self.filters is not None and len(self.filters) == 1, result == apply(self.filters[0], val(self.left)))",
              "implies(self.filters is not None and len(self.filters) == 2, result == apply(self.filters[1], apply(self.filters[0], val(self.left))))",
              "implies(self.filters is not None and len(self.filters) == 3, result == apply(self.filters[2], apply(self.filters[1], apply(self.filters[0], val(self.left)))))"],
        raises={},
        note="bounded: filter chains of length 0..3 (the loop is executed concretely for these lengths)",
    )


# ---- output, echo, assign, capture: what is evaluated is what is written / bound, once ------------------------------------
from pyvc.values import SStr, SInt, SBool  # noqa: E402


def _ghost0(ex, name):
    for g in ("writes", "assigns", "renders"):
        ex.ghost[g] = z3.IntVal(0)
    ex.ghost["written"] = z3.Empty(z3.SeqSort(z3.IntSort()))
    ex.ghost["tls_result"] = z3.Empty(z3.SeqSort(z3.IntSort()))
    ex.ghost["write_ret"] = z3.IntVal(-1)
    for g in ("tls_arg", "assigned_val", "write_target", "render_target", "rendered", "markup_arg_of", "getvalue_of", "bufreq_parent"):
        ex.ghost[g] = z3.Const(f"none_{g}", ObjSort)
    ex.ghost["assigned_key"] = z3.Empty(z3.SeqSort(z3.IntSort()))
    ex.ghost["tls_flag"] = z3.BoolVal(False)
    return ex.sym(name, "any")


def _tls(ex, recv, mname, args, kwargs=None):
    """to_liquid_string(value, auto_escape=flag): an opaque string; argument and flag are recorded."""
    ex.ghost["tls_arg"] = ex.box(args[0]) if not isinstance(recv, (SStr,)) else ex.box(recv)
    flag = (kwargs or {}).get("auto_escape", False)
    t = ex.truth(flag)
    ex.ghost["tls_flag"] = z3.BoolVal(t) if isinstance(t, bool) else t
    r = ex.fresh("liquid_string", "str")
    ex.ghost["tls_result"] = r.t
    return r


_tls.wants_kwargs = True


def _write(ex, recv, mname, args):
    ex.ghost["writes"] = ex.ghost["writes"] + 1
    ex.ghost["written"] = ex.to_str_term(args[0])
    ex.ghost["write_target"] = recv.t
    n = ex.fresh("written_chars", "int")
    ex.ghost["write_ret"] = n.t
    return n


def _assign(ex, recv, mname, args):
    ex.ghost["assigns"] = ex.ghost["assigns"] + 1
    ex.ghost["assigned_key"] = ex.to_str_term(args[0])
    ex.ghost["assigned_val"] = ex.box(args[1])
    return None


def _render_into(ex, recv, mname, args):
    ex.ghost["renders"] = ex.ghost["renders"] + 1
    ex.ghost["rendered"] = recv.t
    ex.ghost["render_target"] = ex.box(args[1])
    return ex.fresh("rendered_chars", "int")


def _get_output_buffer(ex, recv, mname, args):
    ex.ghost["bufreq_parent"] = ex.box(args[0])
    b = ex.fresh("capture_buffer", "any")
    ex.assume(b.t != ex.box(args[0]))
    ex.ghost["capture_buffer"] = b.t
    return b


def _getvalue(ex, recv, mname, args):
    ex.ghost["getvalue_of"] = recv.t
    return ex.fresh("captured_text", "any")


def _markup(ex, recv, mname, args):
    ex.ghost["markup_arg_of"] = ex.ghost["getvalue_of"]
    return ex.fresh("captured_markup", "any")


@spec("gobj", None)
def _gobj(ex, name):
    return SAny(ex.ghost[name])


@spec("gstr", None)
def _gstr(ex, name):
    return SStr(ex.ghost[name])


@spec("gbool", None)
def _gbool(ex, name):
    return SBool(ex.ghost[name])


IOHOOKS = {"evaluate": _evaluate_hook, "evaluate_async": _evaluate_hook, "to_liquid_string": _tls, "write": _write, "assign": _assign,
           "render": _render_into, "render_async": _render_into, "get_output_buffer": _get_output_buffer, "getvalue": _getvalue, "markup": _markup}
G0 = Opaque(_ghost0, "context")

for _mod, _cls in (("liquid2.builtin.output", "OutputNode"), ("liquid2.builtin.tags.echo_tag", "EchoNode")):
    for _meth in ("render_to_output", "render_to_output_async"):
        contract(
            f"{_mod}:{_cls}.{_meth}",
            props=["C01", "C04"],
            params={"self": Rec(_cls, _module=_mod, expression=NODE), "context": G0, "buffer": Any_},
            obj_fields={"auto_escape": "bool"},
            opaque_methods=IOHOOKS,
            post=["ghost('writes') == 1 and gobj('write_target') == buffer",             # one write, to the buffer it was given
                  "gobj('tls_arg') == val(self.expression)",                            # of the Liquid string form of the expression's value
                  "gbool('tls_flag') == context.auto_escape",                            # escaped exactly when the context says so
                  "gstr('written') == gstr('tls_result')",
                  "result == ghost('write_ret')"],
            raises={},
        )

for _meth, _buf in (("render_to_output", "_buffer"), ("render_to_output_async", "_buffer")):
    contract(
        f"liquid2.builtin.tags.assign_tag:AssignNode.{_meth}",
        props=["C01"],
        params={"self": Rec("AssignNode", _module="liquid2.builtin.tags.assign_tag", expression=NODE, name=Str), "context": G0, _buf: Any_},
        opaque_methods=IOHOOKS,
        post=["ghost('assigns') == 1 and gstr('assigned_key') == self.name and gobj('assigned_val') == val(self.expression)",
              "ghost('writes') == 0 and result == 0"],
        raises={},
    )
    contract(
        f"liquid2.builtin.tags.capture_tag:CaptureNode.{_meth}",
        props=["C01", "C18"],
        params={"self": Rec("CaptureNode", _module="liquid2.builtin.tags.capture_tag", block=NODE, name=Str), "context": G0, "buffer": Any_},
        opaque_methods=IOHOOKS,
        post=["ghost('renders') == 1 and gobj('rendered') == self.block",
              # the block is rendered into a buffer of its own (obtained for this parent buffer), never into the output
              "gobj('bufreq_parent') == buffer and gobj('render_target') == gobj('capture_buffer') and gobj('render_target') != buffer",
              # and what it wrote there is what gets bound to the name
              "ghost('assigns') == 1 and gstr('assigned_key') == self.name and gobj('markup_arg_of') == gobj('capture_buffer')",
              "ghost('writes') == 0 and result == 0"],
        raises={},
    )
