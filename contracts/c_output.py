"""liquid2/output.py"""
from pyvc.api import *

LSIO = Rec("LimitedStringIO", size=Int, limit=Int, _buf=Str, _newline=Union(Const(""), Const("\n")))

contract(
    "liquid2.output:LimitedStringIO.write",
    props=["C06"],
    params={"self": LSIO, "__s": Str},
    pre=["self.size >= 0"],
    post=[
        "self.size == old(self.size) + utf8len(__s)",
        "self.size <= self.limit or len(__s) == 0",
        "self._buf == old(self._buf) + __s",   # a limit that is not exceeded never changes what is written
        "result == len(__s)",
        "self.limit == old(self.limit)",
    ],
    raises={"OutputStreamLimitError": "len(__s) > 0 and self.size + utf8len(__s) > self.limit"},
    modifies=["self.size", "self._buf"],
    returns=Int,
)

contract(
    "liquid2.output:LimitedStringIO.__init__",
    props=["C06"],
    # called as LimitedStringIO(limit=...) everywhere (context.get_output_buffer, Template._get_buffer):
    # the other parameters take their defaults
    params={"self": Rec("LimitedStringIO"), "limit": Int},
    post=[
        "self.size == 0",
        "self.limit == limit",
        # the stream must store what is written, byte for byte: no newline translation
        "self._newline == '' or self._newline == '\\n'",
    ],
    raises={},
    always_inline=True,
)

contract(
    "liquid2.output:NullIO.write",
    props=["C06", "C18"],
    params={"self": Rec("NullIO", _buf=Str), "_s": Str},
    post=["result == 0", "self._buf == old(self._buf)"],
    raises={},
)
