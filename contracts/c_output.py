"""liquid2/output.py"""
from pyvc.api import *
from pyvc.specs import spec
from pyvc.values import SBool
import z3


@spec("buf", lambda o: o.getvalue())
def _buf(ex, o):
    """Abstract view of a StringIO: its content."""
    return ex.getattr(o, "_buf")


def _stores_verbatim_py(o):
    import io

    probe = io.StringIO.__new__(type(o)) if False else o
    before = o.getvalue()
    io.StringIO.write(o, "\r\n\r")
    return o.getvalue() == before + "\r\n\r"


@spec("stores_verbatim", _stores_verbatim_py)
def _stores_verbatim(ex, o):
    """The stream performs no newline translation on write."""
    nl = ex.getattr(o, "_newline")
    return nl in ("", "\n") if isinstance(nl, str) else False


def _build_write(model, case, fm):
    from liquid2.output import LimitedStringIO
    import io

    o = LimitedStringIO(limit=fm(model.get("self.limit"), 0))
    io.StringIO.write(o, fm(model.get("self._buf"), ""))
    o.size = fm(model.get("self.size"), 0)
    s = fm(model.get("__s"), "")
    return o.write, [s], {}, {"self": o, "__s": s}


def _build_init(model, case, fm):
    from liquid2.output import LimitedStringIO

    o = LimitedStringIO.__new__(LimitedStringIO)
    limit = fm(model.get("limit"), 0)
    return o.__init__, [limit], {}, {"self": o, "limit": limit}

LSIO = Rec("LimitedStringIO", size=Int, limit=Int, _buf=Str, _newline=Union(Const(""), Const("\n")))

contract(
    "liquid2.output:LimitedStringIO.write",
    props=["C06", "C02"],
    params={"self": LSIO, "__s": Str},
    pre=["self.size >= 0"],
    post=[
        "self.size == old(self.size) + utf8len(__s)",
        "self.size <= self.limit or len(__s) == 0",
        "buf(self) == old(buf(self)) + __s",   # a limit that is not exceeded never changes what is written
        "result == len(__s)",
        "self.limit == old(self.limit)",
    ],
    raises={"OutputStreamLimitError": "len(__s) > 0 and self.size + utf8len(__s) > self.limit"},
    modifies=["self.size", "self._buf"],
    returns=Int,
    build=_build_write,
)

contract(
    "liquid2.output:LimitedStringIO.__init__",
    props=["C06"],
    # called as LimitedStringIO(limit=...) everywhere (context.get_output_buffer, Template._get_buffer):
    # the other parameters take their defaults
    params={"self": Rec("LimitedStringIO"), "limit": Int},
    post=[
        "self.size == 0",
        "self.limit == limit",
        # the stream must store what is written, byte for byte: no newline translation
        "stores_verbatim(self)",
    ],
    raises={},
    always_inline=True,
    build=_build_init,
)

contract(
    "liquid2.output:NullIO.write",
    props=["C06", "C18"],
    params={"self": Rec("NullIO", _buf=Str), "_s": Str},
    post=["result == 0", "buf(self) == old(buf(self))"],
    raises={},
)
