"""liquid2/utils/chainmap.py - lookup precedence (C10), scope stack (C07)."""
from pyvc.api import *

CM = Rec("ReadOnlyChainMap", _module="liquid2.utils.chainmap", _maps=ListOf("any"))

contract(
    "liquid2.utils.chainmap:ReadOnlyChainMap.__getitem__",
    props=["C10", "C07", "C16"],   # C16: a name bound to nil is found, not undefined
    params={"self": CM, "key": Str},
    obj_protocol="mapping",
    loops={0: {"inv": ["forall(lambda j: implies(0 <= j and j < _i, not map_has(self._maps[j], key)))"]}},
    post=[
        # the value comes from the first (innermost) mapping that has the key
        "exists(lambda k: 0 <= k and k < len(self._maps) and map_has(self._maps[k], key) and result == map_at(self._maps[k], key)"
        " and forall(lambda j: implies(0 <= j and j < k, not map_has(self._maps[j], key))))",
        "self._maps == old(self._maps)",
    ],
    returns=Any_,
    raises={"KeyError": "forall(lambda j: implies(0 <= j and j < len(self._maps), not map_has(self._maps[j], key)))"},
)

contract(
    "liquid2.utils.chainmap:ReadOnlyChainMap.push",
    props=["C10", "C07"],
    params={"self": CM, "namespace": Any_},
    post=["self._maps == [namespace] + old(self._maps)"],
    raises={},
    modifies=["self._maps"],
)

contract(
    "liquid2.utils.chainmap:ReadOnlyChainMap.pop",
    props=["C10", "C07"],
    params={"self": CM},
    pre=["len(self._maps) > 0"],
    post=["[result] + self._maps == old(self._maps)"],
    raises={},
    returns=Any_,
    modifies=["self._maps"],
)

contract(
    "liquid2.utils.chainmap:ReadOnlyChainMap.size",
    props=["C07"],
    params={"self": CM},
    post=["result == len(self._maps)"],
    raises={},
    returns=Int,
)

contract(
    "liquid2.utils.chainmap:ReadOnlyChainMap.get",
    props=["C10"],
    params={"self": CM, "key": Str, "default": Any_},
    obj_protocol="mapping",
    inline=[],
    post=[
        "implies(forall(lambda j: implies(0 <= j and j < len(self._maps), not map_has(self._maps[j], key))), result == default)",
    ],
    returns=Any_,
    raises={},
)
