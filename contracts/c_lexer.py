"""liquid2/lexer.py - tokens tile the source, positions lie inside it (C17); totality of the scanner (C02)."""
import z3
from pyvc.api import *
from pyvc.specs import spec
from pyvc.values import HSpecList, HList, HObj, SInt, SBool, SStr, BoundMethod, Unsupported


# ---- ghost abstraction of `lexer.markup`: Tiled(markup) is kept by construction -------------------
def _tile_append(ex, lst, args, kw):
    """markup.append(tok): obligations that keep `Tiled(markup)`, then last_stop := tok.stop."""
    (tok,) = args
    start = ex.getattr(tok, "start")
    stop = ex.getattr(tok, "stop")
    st, sp = ex.to_int_term(start), ex.to_int_term(stop)
    n = lst.state["n"]
    cname = tok.cls.name
    ex.oblige(f"tile.{cname}.contiguous", st == lst.state["last_stop"], f"{cname}.start == stop of the previous top-level token (0 for the first)")
    ex.oblige(f"tile.{cname}.nonempty", st < sp, f"{cname}.start < {cname}.stop")
    ex.oblige(f"tile.{cname}.inside", sp <= n, f"{cname}.stop <= len(source)")
    if "text" in tok.fields and cname == "ContentToken":
        src = lst.state["source"]
        ex.oblige(f"tile.{cname}.text", ex.to_str_term(ex.getattr(tok, "text")) == z3.SubSeq(src, st, sp - st), "ContentToken.text == source[start:stop]")
    lst.state["last_stop"] = sp
    lst.state["count"] = lst.state["count"] + 1
    return None


def TILE(ex, name):
    src = ex.sym("self.source", "str")
    ls = ex.sym(f"{name}.last_stop", "int")
    ex.assume(z3.And(ls.t >= 0, ls.t <= z3.Length(src.t)))
    return HSpecList(name, {"append": _tile_append}, {"last_stop": ls.t, "n": z3.Length(src.t), "source": src.t, "count": z3.IntVal(0)})


@spec("last_stop", None)
def _last_stop(ex, lst):
    return SInt(lst.state["last_stop"])


@spec("appended", None)
def _appended(ex, lst):
    return SInt(lst.state["count"])


@spec("state_of", None)
def _state(ex, v):
    """Name of the state function returned by a lexer state (None when scanning is finished)."""
    if v is None:
        return None
    if isinstance(v, BoundMethod):
        return v.func.node.name
    raise Unsupported("state() of a non-state value")


STATES = ("lex_markup", "lex_inside_output_statement", "lex_inside_tag", "lex_inside_liquid_tag", "lex_inside_line_statement",
          "lex_inside_block_comment", "lex_inside_liquid_block_comment")


def _state_value(name):
    def factory(ex, _n):
        from pyvc.values import FuncRef
        selfv = ex.shared.get("lexer_self")
        if selfv is None:
            raise Unsupported("state value outside a Lexer contract")
        r = ex.repo.find_method(selfv.cls.mod, selfv.cls.node, name)
        return BoundMethod(selfv, FuncRef(r[1], r[3], cls=(r[1], r[2]), qual=f"Lexer.{name}"))
    return Opaque(factory, name)


ANY_STATE = Union(NoneT, *[_state_value(n) for n in STATES])


STATE_MODIFIES = ["self.pos", "self.start", "self.markup_start", "self.line_start", "self.markup", "self.wc", "self.tag_name",
                  "self.expression", "self.line_statements", "self.line_space", "self.in_range", "self.path_stack"]

WC = Opaque(lambda ex, name: HList(items=[]), "[]")
ENVL = Rec("Environment", _module="liquid2.environment", shorthand_indexes=Bool)


def LEXER(**over):
    f = dict(
        env=ENVL, source=Shared("self.source", Str), pos=Int, start=Int, markup_start=Int, line_start=Int,
        markup=Opaque(TILE, "tiled"), wc=WC, tag_name=Str, in_range=Bool,
        expression=Opaque(lambda ex, n: HList(items=[]), "[]"),
        line_statements=Opaque(lambda ex, n: HList(items=[]), "[]"),
        line_space=Opaque(lambda ex, n: HList(items=[]), "[]"),
        path_stack=Opaque(lambda ex, n: HList(items=[]), "[]"),
    )
    f.update(over)
    return Rec("Lexer", _module="liquid2.lexer", **f)


# ---- ghost abstraction of an expression token list: tokens nested in their markup, in order ------------
def _tok_fields(ex, tok):
    return ex.to_int_term(ex.getattr(tok, "start")), ex.to_int_term(ex.getattr(tok, "stop"))


RPAREN = None


def _rparen_fact(ex, tok, st, sp):
    """Element invariant of expression lists: a token of type RPAREN is the single character `)`."""
    from pyvc.values import EnumVal, SAny
    ty = ex.getattr(tok, "type_")
    rp = ex.lift(EnumVal("TokenType", "RPAREN"))[0]
    if isinstance(ty, EnumVal):
        return z3.BoolVal(True) if ty.member != "RPAREN" else (sp == st + 1)
    if isinstance(ty, SAny):
        return z3.Implies(ty.t == rp, sp == st + 1)
    return z3.BoolVal(True)


def _nest_append(ex, lst, args, kw):
    (tok,) = args
    st, sp = _tok_fields(ex, tok)
    cname = tok.cls.name if isinstance(tok, HObj) else "PathToken"   # opaque tokens come off the path stack
    lo = lst.state["lo"]
    lx = ex.shared.get("lexer_self")
    if lx is not None:
        lo = ex.to_int_term(ex.getattr(lx, "markup_start"))   # the opener of the markup being scanned *now*
    prev = z3.If(lst.state["count"] == 0, z3.IntVal(0), lst.state["last_stop"])
    ex.oblige(f"nest.{cname}.ordered", st >= prev, f"{cname}.start >= stop of the previous expression token")
    ex.oblige(f"nest.{cname}.after-opener", st > lo, f"{cname}.start lies after the markup opener")
    ex.oblige(f"nest.{cname}.span", z3.And(st <= sp, sp <= lst.state["n"]), f"{cname}.start <= {cname}.stop <= len(source)")
    if cname == "Token":
        ex.oblige("nest.Token.rparen-width", _rparen_fact(ex, tok, st, sp), "a token of type RPAREN spans exactly one character")
    lst.state["last_stop"] = sp
    lst.state["items"] = lst.state["items"] + [tok]
    lst.state["count"] = lst.state["count"] + 1
    try:
        lst.state["last_type"] = ex.lift(ex.getattr(tok, "type_"))[0]
    except Exception as e:  # noqa: BLE001
        import os
        if os.environ.get("PYVC_DEBUG"):
            import traceback; traceback.print_exc()
        lst.state["last_type"] = ex.fresh("last_type", "any").t
    return None


def _nest_len(ex, lst, args, kw):
    return SInt(lst.state["count"])


def _nest_pop(ex, lst, args, kw):
    """expression.pop(): IndexError when empty; a token appended in this call comes back as it is; a token
    that was already there is opaque but satisfies the element invariants the appends establish
    (ordered, after the opener, start <= stop <= len(source), RPAREN width)."""
    cnt = lst.state["count"]
    ex.require(cnt > 0, "IndexError", "pop from empty list")
    lo = lst.state["lo"]
    lx = ex.shared.get("lexer_self")
    if lx is not None:
        lo = ex.to_int_term(ex.getattr(lx, "markup_start"))
    if lst.state["items"]:
        tok = lst.state["items"][-1]
        lst.state["items"] = lst.state["items"][:-1]
        st, sp = _tok_fields(ex, tok)
    else:
        tok = ex.fresh("popped_token", "any")
        st, sp = _tok_fields(ex, tok)
        ex.assume(z3.And(sp <= lst.state["last_stop"], st <= sp, st > lo, _rparen_fact(ex, tok, st, sp)))
        ex.assume(ex.getattr(tok, "type_").t == lst.state["last_type"])
    if lst.state["items"]:
        lst.state["last_stop"] = _tok_fields(ex, lst.state["items"][-1])[1]
    else:
        nl = ex.fresh(f"{lst.name}.last_stop", "int").t
        ex.assume(z3.And(nl >= 0, nl <= st))
        lst.state["last_stop"] = nl
    lst.state["last_type"] = ex.fresh("last_type", "any").t
    lst.state["count"] = cnt - 1
    return tok


def NEST(ex, name):
    src = ex.sym("self.source", "str")
    ls = ex.sym(f"{name}.last_stop", "int")
    lo = ex.sym("self.markup_start", "int")
    cnt = ex.sym(f"{name}.count", "int")
    ex.assume(cnt.t >= 0)
    lt = ex.sym(f"{name}.last_type", "any")
    return HSpecList(name, {"append": _nest_append, "pop": _nest_pop, "__len__": _nest_len, "havoc": _nest_havoc},
                     {"last_stop": ls.t, "lo": lo.t, "n": z3.Length(src.t), "items": [], "count": cnt.t, "last_type": lt.t})


def _nest_havoc(ex, lst):
    lst.state["last_type"] = ex.fresh("last_type", "any").t
    ex.assume(lst.state["count"] >= 0)


@spec("nest_last_is", None)
def _nest_last_is(ex, lst, enumval):
    """The last token of the list has the given token type."""
    return SBool(lst.state["last_type"] == ex.lift(enumval)[0])


@spec("nest_stop", None)
def _nest_stop(ex, lst):
    if not isinstance(lst, HSpecList):
        if isinstance(lst, HList) and lst.items is not None and not lst.items:
            return 0
        raise Unsupported("nest_stop of a list that is not under the nesting abstraction")
    return SInt(z3.If(lst.state["count"] == 0, z3.IntVal(0), lst.state["last_stop"]))



WC1 = Opaque(lambda ex, name: HList(items=[ex.sym(f"{name}[0]", "any")]), "[wc0]")
LISTS = dict(expression=Opaque(NEST, "nested"), line_statements=Opaque(NEST, "statements"), line_space=ListOf("str"))

# ---- state invariants (DESIGN Appendix A) --------------------------------------------------------------
CURSOR = ["self.start == self.pos", "0 <= self.pos and self.pos <= len(self.source)"]
OPENED = ["0 <= self.markup_start and self.markup_start < self.start", "self.markup_start == last_stop(self.markup)", "len(self.wc) == 1"]
NO_LINES = ["len(self.line_statements) == 0", "len(self.line_space) == 0"]
IN_MARKUP = CURSOR + ["0 <= self.markup_start and self.markup_start < self.start"]
IN_LIQUID = CURSOR + OPENED + ["nest_stop(self.line_statements) <= self.start",
                               # LinesToken.__str__ asserts len(whitespace) >= len(statements)
                               "len(self.line_space) >= len(self.line_statements)", "len(self.expression) == 0"]
IN_LINE = CURSOR + OPENED + ["self.markup_start < self.line_start and self.line_start < self.start",
                             "nest_stop(self.line_statements) <= self.line_start",
                             "len(self.line_space) >= len(self.line_statements) + 1", "len(self.expression) == 0"]
INV = {
    # start == pos == stop of the last top-level token; nothing pending
    "lex_markup": CURSOR + ["self.pos == last_stop(self.markup)", "len(self.wc) == 0", "len(self.expression) == 0"] + NO_LINES,
    "lex_inside_output_statement": CURSOR + OPENED + ["len(self.expression) == 0"] + NO_LINES,
    "lex_inside_tag": CURSOR + OPENED + ["len(self.expression) == 0"] + NO_LINES,
    "lex_inside_liquid_tag": IN_LIQUID,
    "lex_inside_line_statement": IN_LINE,
    "lex_inside_block_comment": CURSOR + OPENED + ["len(self.expression) == 0"] + NO_LINES,
    "lex_inside_liquid_block_comment": IN_LINE,
}
# invariant inside the scanning loops of the expression states (tokens accumulate in self.expression)
IN_STATEMENT = CURSOR + OPENED + ["nest_stop(self.expression) <= self.start"] + NO_LINES
IN_LINE_LOOP = CURSOR + OPENED + ["self.markup_start < self.line_start and self.line_start < self.start",
                                  "nest_stop(self.line_statements) <= self.line_start",
                                  "len(self.line_space) >= len(self.line_statements) + 1", "nest_stop(self.expression) <= self.start"]
IN_BLOCK_COMMENT = ["self.start <= self.pos and self.pos <= len(self.source)"] + OPENED + ["len(self.expression) == 0"] + NO_LINES
# every position an error carries lies inside the source (an error raised without a token carries no position:
# Lexer.backup() at the very end of the input)
# every position carried by a raised error lies within the source: the error token's start AND its stop (start + len(value))
ERR_INSIDE = {"LiquidSyntaxError": ["exc.token is None or (0 <= exc.token.index and exc.token.index + len(exc.token.value) <= len(self.source))"]}


def _conj(cl):
    return " and ".join(f"({c})" for c in cl)


def NEXT(allowed, extra=None):
    """Postcondition of a state function: it returns one of `allowed`, and establishes that state's invariant."""
    extra = extra or {}
    out = ["state_of(result) in (" + ", ".join(repr(a) if a else "None" for a in allowed) + ("," if len(allowed) == 1 else "") + ")"]
    for a in allowed:
        if a is None:
            # scanning finished: the tokens emitted cover the source up to its last character
            out.append("implies(state_of(result) is None, last_stop(self.markup) == len(self.source))")
        else:
            out.append(f"implies(state_of(result) == {a!r}, " + _conj(INV[a] + extra.get(a, [])) + ")")
    return out


ONE_TOKEN = ["appended(self.markup) == 1", "last_stop(self.markup) > old(last_stop(self.markup))"]


def state_contract(name, wc, post, loops=None, regex_total=None):
    contract(
        f"liquid2.lexer:Lexer.{name}",
        # C15: the line number reported for a message is derived from the start offset of its tag's token
        # C11: every reported span is the start/stop of a token
        props=["C17", "C02", "C15", "C11"],
        params={"self": Shared("lexer_self", LEXER(wc=wc, **LISTS))},
        pre=INV[name],
        loops=loops or {},
        post=post,
        post_exc=ERR_INSIDE,
        raises={"LiquidSyntaxError": None, "LiquidValueError": None},
        returns=ANY_STATE,
        modifies=STATE_MODIFIES,
        regex_total=regex_total or {},
    )


state_contract(
    "lex_markup", WC,
    NEXT([None, "lex_inside_output_statement", "lex_inside_tag", "lex_inside_liquid_tag", "lex_inside_block_comment"]),
    loops={0: {"inv": INV["lex_markup"]}},
    regex_total={"MARKUP_RULES": "MARKUP_RULES matches at every position before the end of the source (CONTENT = `.+?` up to a markup opener or `$`, DOTALL)"},
)
for _name in ("lex_inside_output_statement", "lex_inside_tag"):
    state_contract(_name, WC1, NEXT(["lex_markup"], {"lex_markup": ONE_TOKEN}),
                   loops={0: {"inv": IN_STATEMENT + ["appended(self.markup) == 0"], "dec": "len(self.source) - self.pos"}})
state_contract(
    "lex_inside_liquid_tag", WC1,
    NEXT(["lex_markup", "lex_inside_liquid_tag", "lex_inside_line_statement", "lex_inside_liquid_block_comment"],
         {"lex_markup": ONE_TOKEN, "lex_inside_liquid_tag": ["appended(self.markup) == 0", "self.pos > old(self.pos)"],
          "lex_inside_line_statement": ["appended(self.markup) == 0"], "lex_inside_liquid_block_comment": ["appended(self.markup) == 0"]}))
state_contract(
    "lex_inside_line_statement", WC1,
    NEXT(["lex_markup", "lex_inside_liquid_tag"], {"lex_markup": ONE_TOKEN, "lex_inside_liquid_tag": ["appended(self.markup) == 0", "self.pos > old(self.pos)"]}),
    loops={0: {"inv": IN_LINE_LOOP + ["appended(self.markup) == 0", "self.pos >= old(self.pos)"], "dec": "len(self.source) - self.pos"}})
state_contract(
    "lex_inside_block_comment", WC1, NEXT(["lex_markup"], {"lex_markup": ONE_TOKEN}),
    loops={0: {"inv": IN_BLOCK_COMMENT + ["appended(self.markup) == 0", "raw_depth >= 0"], "dec": "len(self.source) - self.pos"}})
state_contract(
    "lex_inside_liquid_block_comment", WC1, NEXT(["lex_inside_liquid_tag"], {"lex_inside_liquid_tag": ["appended(self.markup) == 0"]}),
    loops={0: {"inv": ["self.start <= self.pos and self.pos <= len(self.source)"] + OPENED + [
        "self.markup_start < self.line_start and self.line_start < self.start", "nest_stop(self.line_statements) <= self.line_start",
        "len(self.line_space) >= len(self.line_statements) + 1", "len(self.expression) == 0", "appended(self.markup) == 0"],
        "dec": "len(self.source) - self.pos"}})

# ---- run(): the state machine as a whole ------------------------------------------------------------------
contract(
    "liquid2.lexer:Lexer.run",
    props=["C17", "C02"],
    params={"self": Shared("lexer_self", LEXER(wc=WC, **LISTS))},
    # a freshly constructed lexer (Lexer.__init__)
    pre=INV["lex_markup"] + ["self.pos == 0"],
    loops={0: {"inv": ["implies(state_of(state) is None, last_stop(self.markup) == len(self.source))"]
               + [f"implies(state_of(state) == {n!r}, " + _conj(INV[n]) + ")" for n in INV],
               "types": {"state": ANY_STATE}}},
    # when run() returns, the top-level tokens partition the source: contiguous from 0 (the tile.* obligations
    # of every state) up to its last character
    post=["last_stop(self.markup) == len(self.source)"],
    post_exc=ERR_INSIDE,
    raises={"LiquidSyntaxError": None, "LiquidValueError": None},
)

# ---- small cursor helpers ------------------------------------------------------------------------------
for _name, _ret in (("ignore_whitespace", Bool), ("consume_whitespace", Str), ("ignore_line_space", Str)):
    contract(
        f"liquid2.lexer:Lexer.{_name}",
        props=["C17", "C02"],
        params={"self": LEXER()},
        pre=["self.start == self.pos", "0 <= self.pos and self.pos <= len(self.source)"],
        post=["self.start == self.pos", "self.pos >= old(self.pos)", "self.pos <= len(self.source)",
              "last_stop(self.markup) == old(last_stop(self.markup))", "self.markup_start == old(self.markup_start)"],
        raises={},   # the bare `raise Exception` (cursor misuse) is unreachable under the precondition
        modifies=["self.pos", "self.start"],
        returns=_ret,
    )

contract(
    "liquid2.lexer:Lexer.error",
    props=["C17", "C02"],
    params={"self": LEXER(), "msg": Str},
    pre=["0 <= self.start and self.start <= self.pos and self.pos <= len(self.source)"],
    post=["False"],   # never returns
    # the error token spans text of the source: it starts at or after 0 and ends (start + its text) at or before the end
    post_exc={"LiquidSyntaxError": ["0 <= exc.token.index", "exc.token.index + len(exc.token.value) <= len(self.source)"]},
    raises={"LiquidSyntaxError": "True"},
)


# fields of opaque tokens (tokens that are already in a list when a function starts)
TOK_FIELDS = {"start": "int", "stop": "int", "index": "=start", "type_": "any", "name": "str"}

# ---- accept_token: the contract the state functions rely on -------------------------------------------
ACCEPT_PRE = ["self.start == self.pos", "0 <= self.pos and self.pos <= len(self.source)",
              "0 <= self.markup_start and self.markup_start < self.start", "nest_stop(expression) <= self.start"]
ACCEPT_FRAME = ["last_stop(self.markup) == old(last_stop(self.markup))", "self.markup_start == old(self.markup_start)", "len(self.wc) == old(len(self.wc))"]

contract(
    "liquid2.lexer:Lexer.accept_token",
    props=["C17", "C02"],
    params={"self": LEXER(), "expression": Opaque(NEST, "nested")},
    pre=ACCEPT_PRE,
    post=ACCEPT_FRAME + [
        "implies(not result, self.pos == old(self.pos) and self.start == old(self.start) and nest_stop(expression) == old(nest_stop(expression)))",
        "implies(result, self.start == self.pos and self.pos > old(self.pos) and self.pos <= len(self.source) and nest_stop(expression) <= self.pos)",
    ],
    post_exc=ERR_INSIDE,
    raises={"LiquidSyntaxError": None, "LiquidValueError": None},
    modifies=["self.pos", "self.start", "self.in_range", "self.path_stack", "expression"],
    returns=Bool,
    obj_fields=TOK_FIELDS,
)




# ---- expression-level scanners called by accept_token ------------------------------------------------------
SCAN_PRE = ["self.start <= self.pos", "0 <= self.start and self.pos <= len(self.source)", "0 <= self.markup_start and self.markup_start < self.start"]
SCAN_MOD = ["self.pos", "self.start", "self.in_range", "self.path_stack", "expression"]

# ---- ghost abstractions for accept_template_string: the pieces collected so far, and the token list of one ${...} -------
def NEST0(ex, name):
    """`sub_expression = []`: an empty token list under the nesting abstraction."""
    src = ex.sym("self.source", "str")
    lo = ex.sym("self.markup_start", "int")
    return HSpecList(name, {"append": _nest_append, "pop": _nest_pop, "__len__": _nest_len, "havoc": _nest_havoc},
                     {"last_stop": z3.IntVal(0), "lo": lo.t, "n": z3.Length(src.t), "items": [], "count": z3.IntVal(0), "last_type": ex.fresh("no_type", "any").t})


def _ts_append(ex, lst, args, kw):
    (tok,) = args
    st, sp = _tok_fields(ex, tok)
    first = z3.simplify(lst.state["count"] == 0)
    is_tok = isinstance(tok, HObj) and tok.cls.name == "Token"
    if z3.is_true(first):
        lst.state["first_start"], lst.state["first_stop"] = st, sp
        lst.state["first_is_token"] = z3.BoolVal(is_tok)
    elif not z3.is_false(first):
        lst.state["first_start"] = z3.If(first, st, lst.state["first_start"])
        lst.state["first_stop"] = z3.If(first, sp, lst.state["first_stop"])
        lst.state["first_is_token"] = z3.If(first, z3.BoolVal(is_tok), lst.state["first_is_token"])
    if is_tok:
        lst.meta["token_type"] = ex.getattr(tok, "type_")
    lst.state["count"] = lst.state["count"] + 1
    return None


def _ts_len(ex, lst, args, kw):
    return SInt(lst.state["count"])


def _ts_getitem(ex, lst, args, kw):
    (key,) = args
    if key != 0:
        raise Unsupported("the piece list is read at index 0 only")
    ex.require(lst.state["count"] > 0, "IndexError", "list index out of range")
    from pyvc.values import ClassRef
    tm = ex.repo.module("liquid2.token")
    if ex.decide(lst.state["first_is_token"]):
        # a plain string piece: Token(type_=<the string type of this literal>, index=start, value=source[start:stop])
        idx = SInt(lst.state["first_start"])
        val = ex.fresh("piece_value", "str")
        ex.assume(z3.Length(val.t) == lst.state["first_stop"] - lst.state["first_start"])
        return HObj(ClassRef("Token", tm, tm.classes["Token"]), {"type_": lst.meta.get("token_type", ex.fresh("piece_type", "any")), "value": val, "index": idx,
                                                                  "source": ex.fresh("piece_source", "str")})
    o = HObj(ClassRef("OutputToken", tm, tm.classes["OutputToken"]), {"type_": ex.fresh("out_type", "any"), "start": SInt(lst.state["first_start"]), "stop": SInt(lst.state["first_stop"]),
                                                                       "wc": None, "expression": None, "source": ex.fresh("piece_source", "str")})
    return o


def _ts_havoc(ex, lst):
    ex.assume(lst.state["count"] >= 0)


def TSLIST(ex, name):
    """`template_string = []`: the pieces (plain Token / OutputToken) of a template string collected so far; only its length and its first piece are read."""
    l = HSpecList(name, {"append": _ts_append, "__len__": _ts_len, "__getitem__": _ts_getitem, "havoc": _ts_havoc},
                  {"count": z3.IntVal(0), "first_start": z3.IntVal(0), "first_stop": z3.IntVal(0), "first_is_token": z3.BoolVal(False)})
    l.meta = {}
    return l


@spec("ts_first_start", None)
def _ts_first_start(ex, lst):
    return SInt(lst.state["first_start"])


@spec("ts_first_stop", None)
def _ts_first_stop(ex, lst):
    return SInt(lst.state["first_stop"])


TS_INV = ["len(template_string) >= 0",
          "implies(len(template_string) >= 1, start <= ts_first_start(template_string) and ts_first_start(template_string) <= ts_first_stop(template_string) and ts_first_stop(template_string) <= self.start)"]

contract(
    "liquid2.lexer:Lexer.accept_template_string",
    props=["C17", "C02", "C20"],
    params={"self": Shared("lexer_self", LEXER(wc=WC1, **LISTS)), "quote": Union(Const("'"), Const('"')), "expression": Opaque(NEST, "nested")},
    pre=ACCEPT_PRE,
    locals_={"sub_expression": NEST0, "template_string": TSLIST},
    loops={
        # scanning the characters of the literal: the current plain piece starts at self.start
        0: {"inv": ["start == old(self.start)", "old(self.start) <= self.start and self.start <= self.pos and self.pos <= len(self.source)",
                    "nest_stop(expression) == old(nest_stop(expression))"] + ACCEPT_FRAME + TS_INV,
            "dec": "len(self.source) - self.pos"},
        # scanning the tokens of one ${ ... } expression
        1: {"inv": ["start == old(self.start)", "self.start == self.pos and self.pos <= len(self.source)", "sub_expression_start <= self.start and start < sub_expression_start",
                    "nest_stop(sub_expression) <= self.start", "nest_stop(expression) == old(nest_stop(expression))"] + ACCEPT_FRAME
                   + ["len(template_string) >= 0",
                      "implies(len(template_string) >= 1, start <= ts_first_start(template_string) and ts_first_start(template_string) <= ts_first_stop(template_string) and ts_first_stop(template_string) <= sub_expression_start)"],
            "dec": "len(self.source) - self.pos"},
    },
    post=ACCEPT_FRAME + ["self.start == self.pos", "self.pos > old(self.pos)", "self.pos <= len(self.source)", "nest_stop(expression) <= self.pos"],
    post_exc=ERR_INSIDE,
    raises={"LiquidSyntaxError": None, "LiquidValueError": None},
    modifies=SCAN_MOD,
    obj_fields=TOK_FIELDS,
)

# ---- ghost abstraction of the path stack: its depth and its top element (the only one the lexer reads) ---------------
def _pst_top(ex, lst):
    return lst.state["top"]


def _pst_fresh_top(ex, lst, name):
    """The element below a popped one / the top after a loop havoc: an opaque PathToken; the bottom element's start is fixed."""
    from pyvc.values import ClassRef
    tm = ex.repo.module("liquid2.token")
    cref = ClassRef("PathToken", tm, tm.classes["PathToken"])
    st = ex.fresh(f"{name}.start", "int")
    ex.assume(z3.Implies(lst.state["count"] == 1, st.t == lst.state["lo"]))
    return HObj(cref, {"type_": ex.fresh(f"{name}.type", "any"), "path": HSpecList(f"{name}.path", {"append": lambda ex_, l, a, k: None}, {}),   # segments collected so far: write-only here
                       "start": st, "stop": ex.fresh(f"{name}.stop", "int"), "source": ex.fresh(f"{name}.source", "str")})


def _pst_append(ex, lst, args, kw):
    (tok,) = args
    if z3.is_int_value(z3.simplify(lst.state["count"])) and z3.simplify(lst.state["count"]).as_long() == 0:
        lst.state["lo"] = ex.to_int_term(ex.getattr(tok, "start"))
    lst.state["count"] = lst.state["count"] + 1
    lst.state["top"] = tok
    return None


def _pst_pop(ex, lst, args, kw):
    ex.require(lst.state["count"] > 0, "IndexError", "pop from empty list")
    tok = lst.state["top"]
    lst.state["count"] = lst.state["count"] - 1
    lst.state["top"] = _pst_fresh_top(ex, lst, "below")
    return tok


def _pst_getitem(ex, lst, args, kw):
    (key,) = args
    if key != -1:
        raise Unsupported("path stack is read at index -1 only")
    ex.require(lst.state["count"] > 0, "IndexError", "list index out of range")
    return lst.state["top"]


def _pst_len(ex, lst, args, kw):
    return SInt(lst.state["count"])


def _pst_havoc(ex, lst):
    ex.assume(lst.state["count"] >= 0)
    lst.state["top"] = _pst_fresh_top(ex, lst, "top")


def PSTACK(ex, name):
    """The path stack at entry of accept_path: empty (accept_token pops the finished path before it scans on)."""
    return HSpecList(name, {"append": _pst_append, "pop": _pst_pop, "__getitem__": _pst_getitem, "__len__": _pst_len, "havoc": _pst_havoc},
                     {"count": z3.IntVal(0), "lo": z3.IntVal(0), "n": z3.IntVal(0), "top": None})


contract(
    "liquid2.lexer:Lexer.accept_path",
    props=["C17", "C02", "C11", "C12"],
    params={"self": Shared("lexer_self", LEXER(wc=WC1, **dict(LISTS, path_stack=Opaque(PSTACK, "pstack")))), "carry": Union(TrueT, FalseT)},
    globals_={"MAX_STR_INT": Int},           # liquid2.limits.MAX_STR_INT, any value (to_int is inlined: its limit check is part of this proof)
    inline=["liquid2.limits:to_int"],
    pre=SCAN_PRE + ["implies(not carry, self.start == self.pos and self.pos < len(self.source) and self.source[self.pos] == '[')"],
    loops={0: {"inv": ["self.start == self.pos", "0 <= self.pos and self.pos <= len(self.source)", "self.pos >= old(self.pos)",
                       "implies(not carry, self.pos > old(self.pos) or len(self.path_stack) == 1)",
                       "len(self.path_stack) >= 1",
                       # the path on top of the stack ends exactly at the cursor as soon as it has a segment of its own
                       "self.path_stack[-1].stop == -1 or self.path_stack[-1].stop == self.pos",
                       "implies(len(self.path_stack) == 1, self.path_stack[-1].start == old(self.start))",
                       "implies(not carry and self.pos == old(self.pos), self.path_stack[-1].stop == -1)"],
                "dec": "len(self.source) - self.pos"}},
    post=ACCEPT_FRAME + [
        "self.start == self.pos", "self.pos >= old(self.pos)", "self.pos <= len(self.source)",
        "implies(not carry, self.pos > old(self.pos))",   # a bracketed path consumes at least its opening bracket
        # the finished path is alone on the stack and spans exactly [old start, cursor): the reported variable, nothing more, nothing less
        "len(self.path_stack) == 1",
        "self.path_stack[-1].start == old(self.start)",
        "self.path_stack[-1].stop == self.pos",
    ],
    post_exc=ERR_INSIDE,
    raises={"LiquidSyntaxError": None, "LiquidValueError": None},   # LiquidValueError: an index with more digits than the conversion limit
    modifies=["self.pos", "self.start", "self.path_stack"],
)

contract(
    "liquid2.lexer:Lexer.accept_range",
    props=["C17", "C02"],
    params={"self": Shared("lexer_self", LEXER(wc=WC1, **LISTS)), "expression": Opaque(NEST, "nested")},
    # called by accept_token right after it appended the closing parenthesis
    pre=["self.start == self.pos", "0 <= self.pos and self.pos <= len(self.source)", "nest_stop(expression) <= self.pos",
         "len(expression) >= 1", "nest_last_is(expression, TokenType.RPAREN)"],
    post=ACCEPT_FRAME + ["self.start == old(self.start) and self.pos == old(self.pos)", "nest_stop(expression) <= self.pos"],
    post_exc=ERR_INSIDE,
    raises={"LiquidSyntaxError": None},
    modifies=["expression"],
    obj_fields=TOK_FIELDS,
)


# ---- string scanners (C20: what the decoder may rely on; C02: no IndexError at end of input) -----------------
Seg = z3.Function("PreUnits", z3.SeqSort(z3.IntSort()), z3.IntSort(), z3.IntSort(), z3.BoolSort())


@spec("seg", lambda s, i, j: __import__("contracts.c_unescape", fromlist=["_scannable_py"])._scannable_py(s[i:j], 0))
def _seg(ex, s, i, j):
    """source[i:j] is a sequence of pre-units: a non-backslash character, or a backslash with its successor."""
    return SBool(Seg(ex.to_str_term(s), ex.to_int_term(i), ex.to_int_term(j)))


@spec("seg_def", None)
def _seg_def(ex, s, i, j):
    """Defining (inductive) equations of PreUnits at position j (instantiated, trusted definition)."""
    s, i, j = ex.to_str_term(s), ex.to_int_term(i), ex.to_int_term(j)
    n = z3.Length(s)
    return SBool(z3.And(
        Seg(s, i, i),
        z3.Implies(z3.And(Seg(s, i, j), j >= i, j < n, s[j] != 92), Seg(s, i, j + 1)),
        z3.Implies(z3.And(Seg(s, i, j), j >= i, j + 1 < n, s[j] == 92), Seg(s, i, j + 2))))


contract(
    "liquid2.lexer:Lexer.accept_string",
    props=["C20", "C17", "C02"],
    params={"self": Shared("lexer_self", LEXER(wc=WC1, **LISTS)), "quote": Union(Const("'"), Const('"'))},
    pre=["self.start == self.pos", "0 <= self.pos and self.pos <= len(self.source)"],
    lemmas=["seg_def(self.source, self.start, self.pos)"],
    loops={0: {"inv": ["self.start == old(self.start)", "self.start <= self.pos and self.pos <= len(self.source)", "seg(self.source, self.start, self.pos)"],
               "lemmas_init": ["seg_def(self.source, self.start, self.pos)"],
               "lemmas_head": ["seg_def(self.source, self.start, self.pos)"],
               "dec": "len(self.source) - self.pos"}},
    post=[
        "self.start == old(self.start)", "self.start <= self.pos and self.pos < len(self.source)",
        "self.source[self.pos] == quote",                       # the closing quote is left for the caller
        "seg(self.source, self.start, self.pos)",               # what `unescape` relies on (its Scannable precondition)
    ],
    post_exc=ERR_INSIDE,
    raises={"LiquidSyntaxError": None},
    modifies=["self.pos"],
)
