"""Template inheritance (C08): block stacks, selection of the most-derived override, super, rejection rules."""
import z3
from pyvc.api import *
from pyvc.specs import spec
from pyvc.values import SAny, SBool, SInt, ObjSort, BoolSort, RaiseSig
from contracts.c_branches import NODE, CTX0, _render, _node
from contracts.c_context import CTX

HasExtends = z3.Function("template_has_extends", ObjSort, BoolSort)


@spec("has_extends", None)
def _has_extends(ex, t):
    return SBool(HasExtends(t.t))


def _get_template(ex, recv, mname, args):
    """env.get_template(name, ...): some template, or TemplateNotFoundError."""
    ex.ghost["loads"] = ex.ghost.get("loads", z3.IntVal(0)) + 1
    if ex.decide(ex.fresh("not_found", "bool").t):
        raise RaiseSig(ex.make_repo_exc("TemplateNotFoundError", None))
    return _node(ex, f"loaded_template!{ex.fresh_n}")


def _init(ex, name):
    ex.ghost["loads"] = z3.IntVal(0)
    from pyvc.values import HObj, ClassRef
    env = SAny(z3.Const("env", ObjSort))
    cm = ex.repo.module("liquid2.context")
    return HObj(ClassRef("RenderContext", cm, cm.classes["RenderContext"]), {"env": env, "__open__": True}, label=name)


def _find_nodes(ex, recv, mname, args):
    """_find_inheritance_nodes(template, context): the extends nodes and the block nodes of the template (any lists)."""
    from pyvc.values import HList
    e = ex.fresh("extends_nodes", ("seq", "any"))
    b = ex.fresh("block_nodes", ("seq", "any"))
    ex.ghost_objs = {"extends": HList(sym=e), "blocks": HList(sym=b)}
    ex.assume((z3.Length(e.t) > 0) == HasExtends((recv if recv is not None else args[0]).t))
    from pyvc.intrinsics import NONE_OBJ
    i = z3.Int("i!nodes")
    ex.assume(z3.ForAll([i], z3.Implies(z3.And(i >= 0, i < z3.Length(e.t)), e.t[i] != NONE_OBJ)))   # nodes are objects, not None
    return (ex.ghost_objs["extends"], ex.ghost_objs["blocks"])


def _store(ex, recv, mname, args):
    ex.ghost["stored"] = ex.ghost.get("stored", z3.IntVal(0)) + 1
    return None


@spec("found_extends", None)
def _found_extends(ex):
    return ex.ghost_objs["extends"]


@spec("found_blocks", None)
def _found_blocks(ex):
    return ex.ghost_objs["blocks"]


DISTINCT = "forall(lambda j, k: implies(0 <= j and j < k and k < {n}, found_blocks()[j].name != found_blocks()[k].name))"

contract(
    "liquid2.builtin.tags.extends_tag:_stack_blocks",
    props=["C08"],
    params={"context": Any_, "template": NODE},
    obj_fields={"name": "str", "token": "any", "path": "any", "required": "bool"},
    opaque_methods={"_find_inheritance_nodes": _find_nodes, "_store_blocks": _store},
    pre=["ghost_store_init()"],
    loops={0: {"inv": [DISTINCT.format(n="_i"),
                       "forall(lambda k: implies(0 <= k and k < _i, found_blocks()[k].name in seen_block_names))",
                       "forall(lambda s: implies(s in seen_block_names, exists(lambda k: 0 <= k and k < _i and found_blocks()[k].name == s)), 'str')",
                       "ghost('stored') == 0"],
               "types": {"seen_block_names": "str"}}},
    post=["(result[0] is not None) == has_extends(template)"],
    post_internal=[
        "len(found_extends()) <= 1",                       # more than one extends tag is rejected
        DISTINCT.format(n="len(found_blocks())"),         # duplicate block names are rejected
        "ghost('stored') == 1",                            # the blocks are pushed exactly once
        "implies(result[0] is not None, result[0] == found_extends()[0])",
    ],
    raises={"TemplateInheritanceError": None},
    returns=TupleOf(Opt(NODE), Any_),
)


def _find_two(ex, recv, mname, args):
    """bounded stand-in: the template defines exactly two blocks (any names, any `required` flags)."""
    from pyvc.values import HList
    e = ex.fresh("extends_nodes", ("seq", "any"))
    b0, b1 = ex.fresh("block0", "any"), ex.fresh("block1", "any")
    ex.ghost_objs = {"extends": HList(sym=e), "blocks": HList(items=[b0, b1])}
    return (ex.ghost_objs["extends"], ex.ghost_objs["blocks"])


# A second, quantifier-free contract on the same function (bounded: exactly two blocks).  The unbounded contract above
# proves the same fact for every number of blocks, but when a change breaks it the solver has to *find* a model of the
# quantified invariants and may give up (undecided); this one has no quantifier, so the counterexample is found and replayed.
contract(
    "liquid2.builtin.tags.extends_tag:_stack_blocks#two-blocks",
    props=["C08"],
    params={"context": Any_, "template": NODE},
    obj_fields={"name": "str", "token": "any", "path": "any", "required": "bool"},
    opaque_methods={"_find_inheritance_nodes": _find_two, "_store_blocks": _store},
    pre=["ghost_store_init()"],
    unroll={0: 2},
    post_internal=["found_blocks()[0].name != found_blocks()[1].name", "ghost('stored') == 1"],
    raises={"TemplateInheritanceError": None},
    # ... and only for a reason the property names: a second extends tag or a repeated block name
    post_exc={"TemplateInheritanceError": ["len(found_extends()) > 1 or found_blocks()[0].name == found_blocks()[1].name",
                                           "ghost('stored') == 0"]},
    returns=TupleOf(Opt(NODE), Any_),
    note="bounded: exactly two blocks in the template (stand-in that yields counterexamples; the unbounded contract is liquid2.builtin.tags.extends_tag:_stack_blocks)",
)


@spec("ghost_store_init", None)
def _ghost_store_init(ex):
    ex.ghost["stored"] = z3.IntVal(0)
    return True


for _name in ("_build_block_stacks", "_build_block_stacks_async"):
    contract(
        f"liquid2.builtin.tags.extends_tag:{_name}",
        props=["C08", "C06", "C02"],
        params={"context": Opaque(_init, "context"), "template": NODE, "tag": Str},
        obj_fields={"name": "any", "value": "str", "token": "any"},
        opaque_methods={"get_template": _get_template, "get_template_async": _get_template, "full_name": Str},
        # the extends node being rendered belongs to `template` (ExtendsNode.render passes context.template)
        pre=["has_extends(template)"],
        aliases={"names": "set-local"},
        loops={0: {"inv": ["base is not None", "len(seen) >= 1", "len(seen) == ghost('loads')"],
                   # progress: every iteration either ends the walk, fails, or visits a parent not seen before
                   "types": {"next_template": Opt(NODE), "base": Opt(NODE)}}},
        post=["result is not None", "len(seen) == ghost('loads')" if False else "ghost('loads') >= 1"],
        # a repeated parent (circular chain) is an inheritance error - never an endless walk, never AssertionError
        raises={"TemplateInheritanceError": None, "TemplateNotFoundError": None},
    )


# ---- _store_blocks: the block-stack data structure against its abstract view --------------------------------------
# view: stacks[name] = the definitions of block `name` found so far, most-derived first (leaf .. base)
ITEM_FIELDS = {"block": "any", "required": "bool", "source_name": "str", "parent": "any", "token": "any", "name": "str"}


def _ctx_with_stacks(ex, name):
    from pyvc.values import HObj, ClassRef, HDict
    cm = ex.repo.module("liquid2.context")
    stacks = DictOfLists().fresh(ex, "stacks", True)
    return HObj(ClassRef("RenderContext", cm, cm.classes["RenderContext"]),
                {"tag_namespace": HDict(concrete={"extends": stacks}), "__open__": True}, label=name)


@spec("stacks", None)
def _stacks(ex, context):
    return ex.getattr(context, "tag_namespace").concrete["extends"]


def _effect(k):
    b = f"blocks[{k}]"
    return (f"implies({b}.name == n,"
            f" len(stacks(context)[n]) == len(old(stacks(context)[n])) + 1 and stacks(context)[n][:-1] == old(stacks(context)[n])"
            f" and stacks(context)[n][-1].block == {b} and stacks(context)[n][-1].source_name == source_name"
            # the new item carries the block's own `required` flag: a block must be overridden iff its most-derived
            # definition (index 0 of the stack) is marked required
            f" and stacks(context)[n][-1].required == {b}.required"
            f" and stacks(context)[n][-1].parent is None and is_new(stacks(context)[n][-1])"
            # the previous - more derived - definition's parent is the new one: `super` walks towards the base
            f" and implies(len(old(stacks(context)[n])) > 0, stacks(context)[n][-2].parent == stacks(context)[n][-1]))")


contract(
    "liquid2.builtin.tags.extends_tag:_store_blocks",
    props=["C08"],
    note="bounded: proved for templates with one and with two blocks (loop unrolled)",
    # the loop is unrolled for templates with one and with two blocks; names within a template are distinct
    # (checked by _stack_blocks) so iterations act on different stacks
    params={"context": Opaque(_ctx_with_stacks, "context"), "blocks": Union(ConcreteList(Any_), ConcreteList(Any_, Any_)), "source_name": Str},
    ghost={"n": Str},
    obj_fields=ITEM_FIELDS,
    mutable_fields=["parent"],
    opaque_classes=["_BlockStackItem"],
    pre=["implies(len(blocks) == 2, blocks[0].name != blocks[1].name)",
         "forall(lambda k: implies(0 <= k and k < len(stacks(context)[n]), not is_new(stacks(context)[n][k])))",
         "forall(lambda k: implies(0 <= k and k < len(stacks(context)[blocks[0].name]), not is_new(stacks(context)[blocks[0].name][k])))",
         "implies(len(blocks) == 2, forall(lambda k: implies(0 <= k and k < len(stacks(context)[blocks[1].name]), not is_new(stacks(context)[blocks[1].name][k]))))",
         # stacks of different names share no item
         "implies(len(blocks) == 2 and len(stacks(context)[blocks[0].name]) > 0 and len(stacks(context)[blocks[1].name]) > 0,"
         " stacks(context)[blocks[0].name][-1] != stacks(context)[blocks[1].name][-1])"],
    post=[
        # stacks of names this template does not define are untouched
        "implies(blocks[0].name != n and (len(blocks) < 2 or blocks[1].name != n), stacks(context)[n] == old(stacks(context)[n]))",
        _effect(0),
        "implies(len(blocks) == 2, " + _effect(1) + ")",
    ],
    raises={},
)


# ---- BlockNode: the base template renders the most-derived override; BlockDrop['super'] the next one ------------------
def _ctx_for_block(ex, name):
    """context as BlockNode sees it: the block stacks, plus opaque copy()/extend()."""
    ex.ghost["renders"] = z3.IntVal(0)
    ex.ghost["last"] = z3.Const("no_block", ObjSort)
    ex.ghost_objs = {}
    o = ex.sym(name, "any")
    return o


def _copy(ex, recv, mname, args, kwargs=None):
    ns = (kwargs or {}).get("namespace")
    ex.ghost_objs["drop"] = ns.concrete["block"] if ns is not None else None
    ex.ghost_objs["scope"] = "copy"
    ex.ghost_objs["block_scope"] = (kwargs or {}).get("block_scope", False)
    return ex.fresh("block_context", "any")


_copy.wants_kwargs = True


def _extend(ex, recv, mname, args, kwargs=None):
    ns = args[0] if args else (kwargs or {}).get("namespace")
    ex.ghost_objs["drop"] = ns.concrete["block"]
    ex.ghost_objs["scope"] = "extend"
    return recv


@spec("drop_parent", None)
def _drop_parent(ex):
    """`parent` of the BlockDrop bound to `block` for the block being rendered."""
    return ex.getattr(ex.ghost_objs["drop"], "parent")


@spec("namespace_get", None)
def _namespace_get(ex, tn, key):
    return tn


BLOCKNODE = Rec("BlockNode", _module="liquid2.builtin.tags.extends_tag", name=Str, block=NODE, required=Bool, token=Any_)
BN_FIELDS = {"block": "any", "required": "bool", "source_name": "str", "parent": "any", "token": "any", "tag_namespace": "any"}


def _tn(ex, recv, mname, args):
    raise NotImplementedError


for _meth in ("render_to_output", "render_to_output_async"):
    contract(
        f"liquid2.builtin.tags.extends_tag:BlockNode.{_meth}",
        props=["C08"],
        params={"self": BLOCKNODE,
                "context": Rec("RenderContext", _module="liquid2.context", disabled_tags=Any_,
                               tag_namespace=Opaque(lambda ex, n: __import__("pyvc.values", fromlist=["HDict"]).HDict(concrete={"extends": DictOfLists().fresh(ex, "stacks", True)}), "ns")),
                "buffer": Any_},
        obj_fields=BN_FIELDS,
        opaque_methods={"render": _render, "render_async": _render, "copy": _copy, "extend": ("cm", _extend)},
        ghost={},
        pre=["ghost_init()"],
        post=[
            # exactly one block body is rendered
            "ghost('renders') == 1",
            # no override on the stack (the base template rendered directly): the block's own body
            "implies(len(stacks(context)[self.name]) == 0, ghost('last') == self.block and drop_parent() is None)",
            # otherwise the definition at index 0 - the most-derived one - and `block.super` is its parent
            "implies(len(stacks(context)[self.name]) > 0, ghost('last') == stacks(context)[self.name][0].block.block"
            " and drop_parent() == stacks(context)[self.name][0].parent)",
        ],
        raises={"RequiredBlockError": "(len(stacks(context)[self.name]) == 0 and self.required) or "
                                      "(len(stacks(context)[self.name]) > 0 and stacks(context)[self.name][0].required)"},
    )


@spec("ghost_init", None)
def _ghost_init(ex):
    ex.ghost["renders"] = z3.IntVal(0)
    ex.ghost["last"] = z3.Const("no_block", ObjSort)
    ex.ghost["cleared"] = z3.BoolVal(False)
    ex.ghost["stacks_cleared_before_render"] = z3.BoolVal(False)
    ex.ghost_objs = {}
    return True


def _extend_drop(ex, recv, mname, args, kwargs=None):
    ns = args[0] if args else (kwargs or {}).get("namespace")
    ex.ghost_objs["drop"] = ns.concrete["block"]
    return recv


contract(
    "liquid2.builtin.tags.extends_tag:BlockDrop.__getitem__",
    props=["C08"],
    params={"self": Rec("BlockDrop", _module="liquid2.builtin.tags.extends_tag", token=Any_, buffer=Any_, context=NODE, name=Str, parent=Opt(NODE)),
            "key": Str},
    obj_fields={"block": "any", "parent": "any", "token": "any", "source_name": "str", "env": "any", "auto_escape": "bool"},
    opaque_methods={"render": _render, "render_async": _render, "extend": ("cm", _extend_drop), "get_output_buffer": Any_,
                    "undefined": Any_, "getvalue": Str},
    pre=["ghost_init()"],
    post=[
        # no parent definition: an undefined, nothing rendered
        "implies(self.parent is None, ghost('renders') == 0)",
        # block.super renders the next less-derived definition; inside it, `super` is that definition's own parent
        "implies(self.parent is not None, ghost('renders') == 1 and ghost('last') == self.parent.block.block and drop_parent() == self.parent.parent)",
    ],
    raises={"KeyError": "key != 'super'"},
)


def _current_stacks(ex, context):
    ns = ex.getattr(context, "tag_namespace")
    return ns.concrete["extends"]


def _is_outer(ex, v):
    """Is `v` the stacks object the context held on entry?"""
    from pyvc.values import SAny
    return isinstance(v, SAny) and v.t.eq(ex.shared["outer_stacks"].t)


def _build(ex, recv, mname, args):
    ex.trace_event("build", args)
    ex.ghost["built_on_own_stacks"] = z3.BoolVal(not _is_outer(ex, _current_stacks(ex, recv)))
    if ex.decide(ex.fresh("chain_is_invalid", "bool").t):
        raise_ = ex.make_repo_exc("TemplateInheritanceError", None)
        from pyvc.values import RaiseSig
        raise RaiseSig(raise_)
    return _node(ex, f"base_template!{ex.fresh_n}")


def _render_base(ex, recv, mname, args):
    ex.ghost["renders"] = ex.ghost.get("renders", z3.IntVal(0)) + 1
    ex.ghost["last"] = recv.t
    ctx = args[0]
    ex.ghost["rendered_on_own_stacks"] = z3.BoolVal(not _is_outer(ex, _current_stacks(ex, ctx)))
    return ex.fresh("written", "int")


def _ns_with_outer(ex, name):
    from pyvc.values import HDict
    outer = ex.sym("outer_stacks_obj", "any")
    ex.shared["outer_stacks"] = outer
    ex.ghost["built_on_own_stacks"] = z3.BoolVal(False)
    ex.ghost["rendered_on_own_stacks"] = z3.BoolVal(False)
    return HDict(concrete={"extends": outer})


@spec("outer_stacks", None)
def _outer_stacks(ex):
    return ex.shared["outer_stacks"]


RESTORED = "context.tag_namespace['extends'] is outer_stacks()"

for _meth in ("render_to_output", "render_to_output_async"):
    contract(
        f"liquid2.builtin.tags.extends_tag:ExtendsNode.{_meth}",
        props=["C08", "C09"],
        params={"self": Rec("ExtendsNode", _module="liquid2.builtin.tags.extends_tag", name=NODE, token=Any_),
                "context": Rec("RenderContext", _module="liquid2.context", template=NODE, tag_namespace=Opaque(_ns_with_outer, "ns")),
                "buffer": Any_},
        opaque_methods={"_build_block_stacks": _build, "_build_block_stacks_async": _build,
                        "render_with_context": _render_base, "render_with_context_async": _render_base},
        pre=["ghost_init()"],
        post=["False"],    # never returns normally: the child's own text is discarded (StopRender)
        post_exc={"StopRender": ["ghost('renders') == 1",                       # the base template is rendered exactly once ...
                                 "ghost('built_on_own_stacks') and ghost('rendered_on_own_stacks')",   # ... on block stacks that belong to this chain alone ...
                                 RESTORED],                                      # ... and the enclosing chain's stacks (empty at top level) are back afterwards
                  # an invalid chain: nothing rendered, the enclosing chain's stacks are back
                  "TemplateInheritanceError": ["ghost('renders') == 0", RESTORED]},
        raises={"StopRender": None, "TemplateInheritanceError": None},
    )
