"""liquid2/utils/lru_cache.py against an abstract ordered view (C14)."""
import z3
from pyvc.api import *
from pyvc.specs import spec
from pyvc.values import SSeq, SBool, SInt, ELEM_SORT


@spec("lru_keys", lambda c: list(c._cache.keys()))
def _lru_keys(ex, cache):
    """Abstract view: keys, least recently used first."""
    d = ex.getattr(cache, "_cache")
    return SSeq(d.order, d.ksort)


@spec("seq_without", lambda s, k: [x for x in s if x != k])
def _seq_without(ex, s, k):
    kt, _ = ex.lift(k)
    i = z3.IndexOf(s.t, z3.Unit(kt), z3.IntVal(0))
    ln = z3.Length(s.t)
    return SSeq(z3.Concat(z3.SubSeq(s.t, 0, i), z3.SubSeq(s.t, i + 1, ln - i - 1)), s.elem)


@spec("same_items", lambda a, b: dict(a) == dict(b))
def _same_items(ex, a, b):
    """Two mappings have the same keys and values (order aside)."""
    return ex.to_bool_value(z3.And(a.has == b.has, a.val == b.val))


@spec("seq_has", lambda s, k: k in s)
def _seq_has(ex, s, k):
    kt, _ = ex.lift(k)
    return SBool(z3.Contains(s.t, z3.Unit(kt)))


@spec("lru_wf", lambda c: len(c._cache) <= c.capacity and c.capacity >= 1)
def _lru_wf(ex, cache):
    """Class invariant of LRUCache: at most `capacity` entries. (That an OrderedDict's key set is the
    set of keys in its order is the library's own invariant and part of the OrderedDict model.)"""
    d = ex.getattr(cache, "_cache")
    cap = ex.to_int_term(ex.getattr(cache, "capacity"))
    return SBool(z3.And(z3.Length(d.order) <= cap, cap >= 1))


LRU = Rec("LRUCache", _module="liquid2.utils.lru_cache", capacity=Int, _cache=DictOf("str", "any", ordered=True))


def _build(model, case, fm):
    return None  # counter-models are over the abstract view; replayed through crafted histories instead


contract(
    "liquid2.utils.lru_cache:LRUCache.__init__",
    props=["C14"],
    params={"self": Rec("LRUCache", _module="liquid2.utils.lru_cache"), "capacity": Int},
    post=["self.capacity == capacity", "capacity >= 1", "len(self._cache) == 0"],
    raises={"ValueError": "capacity < 1"},
    always_inline=True,
)

contract(
    "liquid2.utils.lru_cache:LRUCache.__getitem__",
    props=["C14"],
    params={"self": LRU, "key": Str},
    pre=["lru_wf(self)"],
    post=[
        "result == old(self._cache)[key]",
        # a hit makes the key the most recently used; nothing else moves, nothing is dropped
        "lru_keys(self) == seq_without(old(lru_keys(self)), key) + [key]",
        "len(lru_keys(self)) == len(old(lru_keys(self)))",
        "same_items(self._cache, old(self._cache))",
        "self.capacity == old(self.capacity)",
        "lru_wf(self)",
    ],
    post_exc={"KeyError": ["lru_keys(self) == old(lru_keys(self))", "self._cache == old(self._cache)"]},  # a miss changes nothing
    modifies=["self._cache"],
    raises={"KeyError": "key not in self._cache"},
    returns=Any_,
)

contract(
    "liquid2.utils.lru_cache:LRUCache.__setitem__",
    props=["C14"],
    params={"self": LRU, "key": Str, "value": Any_},
    ghost={"other": Str},
    pre=["lru_wf(self)"],
    post=[
        "self._cache[key] == value and key in self._cache",
        "len(lru_keys(self)) <= self.capacity",                                   # never exceeds its capacity
        # present: moved to the end
        "implies(key in old(self._cache), lru_keys(self) == seq_without(old(lru_keys(self)), key) + [key])",
        # absent, room left: appended
        "implies(key not in old(self._cache) and len(old(lru_keys(self))) < self.capacity, lru_keys(self) == old(lru_keys(self)) + [key])",
        # absent, full: exactly the least recently used entry is evicted, the others keep their order
        "implies(key not in old(self._cache) and len(old(lru_keys(self))) >= self.capacity, lru_keys(self) == old(lru_keys(self))[1:] + [key])",
        # values of the other surviving keys are untouched
        "implies(other != key and other in self._cache, other in old(self._cache) and self._cache[other] == old(self._cache)[other])",
        "self.capacity == old(self.capacity)",
        "lru_wf(self)",
    ],
    raises={},
    modifies=["self._cache"],
)

contract(
    "liquid2.utils.lru_cache:LRUCache.__contains__",
    props=["C14"],
    params={"self": LRU, "key": Str},
    post=["result == (key in self._cache)", "lru_keys(self) == old(lru_keys(self))"],
    raises={},
    returns=Bool,
)

contract(
    "liquid2.utils.lru_cache:LRUCache.__len__",
    props=["C14"],
    params={"self": LRU},
    post=["result == len(lru_keys(self))"],
    raises={},
    returns=Int,
)

contract(
    "liquid2.utils.lru_cache:LRUCache.get",
    props=["C14"],
    params={"self": LRU, "key": Str, "default": Any_},
    pre=["lru_wf(self)"],
    post=["implies(key not in old(self._cache), result == default and lru_keys(self) == old(lru_keys(self)))",
          "implies(key in old(self._cache), result == old(self._cache)[key])"],
    raises={},
    returns=Any_,
)
