"""Name resolution layers (C10): RenderContext.__init__, Template.make_globals, Environment.make_globals."""
from pyvc.api import *
from contracts.c_context import ENV, TEMPLATE

contract(
    "liquid2.context:RenderContext.__init__",
    props=["C10", "C09", "C01", "C07"],
    params={"self": Rec("RenderContext", _module="liquid2.context"), "template": TEMPLATE,
            "global_data": Rec("ReadOnlyChainMap", _module="liquid2.utils.chainmap", _maps=ConcreteList(Any_, Any_, Any_))},
    post=[
        # innermost first: template-local variables, then the globals chain (render arguments, matter,
        # template globals), then the built-ins (now, today), and last the counters
        "len(self.scope._maps) == 4",
        "self.scope._maps[0] is self.locals",
        "self.scope._maps[1] is self.globals",
        "self.scope._maps[2] is builtin",
        "self.scope._maps[3] is self.counters",
        # the globals chain is the very object the caller passed, empty or not (the render tag fills its namespace later)
        "self.globals is global_data",
        # a context built directly (not by copy()) is the root of its render: its global data is the render's global data
        "self.root_globals is self.globals and self.root_globals is not None",
        # per-render state starts empty
        "len(self.locals) == 0 and len(self.counters) == 0 and len(self.loops) == 0",
        "len(self.tag_namespace['cycles']) == 0 and len(self.tag_namespace['stopindex']) == 0 and len(self.tag_namespace['macros']) == 0",
    ],
    raises={},
    always_inline=True,
    obj_protocol="mapping",
)

contract(
    "liquid2.template:Template.make_globals",
    props=["C10"],
    params={"self": Rec("Template", _module="liquid2.template", overlay_data=Any_, global_data=Any_), "render_args": Any_},
    post=[
        "len(result._maps) == 3",
        "result._maps[0] == render_args",          # render arguments shadow
        "result._maps[1] == self.overlay_data",    # loader matter, which shadows
        "result._maps[2] == self.global_data",     # template (and environment) globals
    ],
    raises={},
)

contract(
    "liquid2.environment:Environment.make_globals",
    props=["C10"],
    params={"self": Rec("Environment", _module="liquid2.environment", globals=DictOf("str", "any")), "globals": Union(NoneT, DictOf("str", "any"))},
    ghost={"k": Str},
    post=[
        # template globals take priority over environment globals; the result is a new dict
        "implies(globals is not None and k in globals, k in result and result[k] == globals[k])",
        "implies((globals is None or k not in globals) and k in self.globals, k in result and result[k] == self.globals[k])",
        "implies((globals is None or k not in globals) and k not in self.globals, k not in result)",
        "result is not self.globals",
        "self.globals == old(self.globals)",
    ],
    raises={},
)
