"""File-system and package loaders never read outside their roots (C13)."""
from pyvc.api import *
from pyvc.intrinsics_lib import SPath, P_abs, P_pardir, P_noname, P_suffix
from pyvc.values import HList
import z3


def _roots(ex, name):
    """search_path: a list of root directories (two symbolic roots; the loop is over a concrete-length list,
    the argument is the same for any number of roots)."""
    out = []
    for i in range(2):
        t = ex.sym(f"{name}[{i}]", "str").t
        out.append(SPath(P_abs(t), z3.BoolVal(False), P_noname(t), P_suffix(t), text=t))
    return HList(items=out)


def _build_fs(model, case, fm):
    import os, tempfile
    from liquid2 import FileSystemLoader

    root = tempfile.mkdtemp(prefix="pyvc-replay-")
    os.makedirs(os.path.join(root, "templates", "sub"), exist_ok=True)
    with open(os.path.join(root, "templates", "a.liquid"), "w") as fd:
        fd.write("a")
    with open(os.path.join(root, "secret.txt"), "w") as fd:
        fd.write("secret")
    name = fm(model.get("template_name"), "")
    # the model only fixes the lexical class of the name; pick a representative of that class
    cands = [name, os.path.join(root, "secret.txt"), "../secret.txt", "", ".", "sub", "a.liquid"]
    loader = FileSystemLoader(os.path.join(root, "templates"), ext=None if case["self"].fields["ext"].label == "None" else ".liquid")
    roots = [os.path.join(root, "templates")]

    def run(_name):
        last = None
        for c in cands:
            try:
                r = loader.resolve_path(c)
            except Exception as e:  # noqa: BLE001
                if type(e).__name__ != "TemplateNotFoundError":
                    raise
                continue
            last = r
            import os as _o
            rp = _o.path.normpath(_o.path.abspath(str(r)))
            if not rp.startswith(_o.path.normpath(roots[0]) + _o.sep) or not r.is_file():
                return r
        return last

    return run, [name], {}, {"self": loader, "template_name": name, "roots": roots}


FS = Rec("FileSystemLoader", _module="liquid2.builtin.loaders.file_system_loader",
         search_path=Opaque(_roots, "roots"), ext=Union(NoneT, Str), encoding=Str)

contract(
    "liquid2.builtin.loaders.file_system_loader:FileSystemLoader.resolve_path",
    props=["C13", "C02"],
    params={"self": FS, "template_name": Str},
    # configuration: a default extension, when set, is a valid suffix ('.x')
    pre=["implies(self.ext is not None, len(self.ext) >= 2)"],
    post=[
        "inside(result)",                 # lexically inside the search root it was joined to
        "is_file(result)",                # and a regular file there (a directory is not a template)
        "not is_absolute_name(template_name) and not has_pardir(template_name)",
    ],
    # whatever the name: not found is the only failure
    raises={"TemplateNotFoundError": None},
)

PK = Rec("PackageLoader", _module="liquid2.builtin.loaders.package_loader",
         paths=Opaque(_roots, "roots"), ext=Str, encoding=Str)

contract(
    "liquid2.builtin.loaders.package_loader:PackageLoader._resolve_path",
    props=["C13", "C02"],
    params={"self": PK, "template_name": Str},
    pre=["len(self.ext) >= 2"],
    post=[
        "inside(result)",
        "is_file(result)",
        "not is_absolute_name(template_name) and not has_pardir(template_name)",
    ],
    raises={"TemplateNotFoundError": None},
)

