"""The tablerow loop drop (liquid2.shopify): cell arithmetic that cannot fail, whatever the column count (C02, C01)."""
from pyvc.api import *

TR = Rec("TableRow", _module="liquid2.shopify.tags.tablerow_tag", length=Int, ncols=Int, _index=Int, _row=Int, _col=Int)

contract(
    "liquid2.shopify.tags.tablerow_tag:TableRow.step",
    props=["C02", "C01"],
    params={"self": TR},
    post=[
        "self._index == old(self._index) + 1",
        # a full row (the column count reached) wraps to column 1 of the next row, otherwise the next column of the same row
        "implies(old(self._col) == self.ncols, self._col == 1 and self._row == old(self._row) + 1)",
        "implies(old(self._col) != self.ncols, self._col == old(self._col) + 1 and self._row == old(self._row))",
        "self.ncols == old(self.ncols) and self.length == old(self.length)",
    ],
    modifies=["self._index", "self._row", "self._col"],
    # cols: 0, a negative or undefined column count, an empty collection: no ZeroDivisionError, nothing escapes
    raises={},
)
