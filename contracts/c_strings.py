"""String filters against their string definitions (C19)."""
from pyvc.api import *

contract(
    "liquid2.utils.text:truncate_chars",
    props=["C19", "C02", "C01"],
    params={"val": Str, "num": Int, "end": Str},
    post=[
        # a string that fits is returned unchanged - at the boundary len == num too
        "implies(len(val) <= num, result == val)",
        # otherwise a prefix of the string followed by the ellipsis, never longer than asked for
        # (unless the ellipsis alone is), and never a slice counted from the end of the string
        "implies(len(val) > num and num >= len(end), result == val[:num - len(end)] + end and len(result) == num)",
        "implies(len(val) > num and num < len(end), result == end)",
    ],
    raises={},
    returns=Str,
)

# ---- append / prepend / remove / replace families: the decorated callable (string_filter converts the left value) -------
ARG = Union(Str, Int, NoneT, TrueT, FalseT)
TLS = ["liquid2.stringify:to_liquid_string"]

contract(
    "liquid2.builtin.filters.string:append",
    props=["C19", "C02", "C01"],
    params={"val": Union(Str, Int, NoneT), "arg": ARG},
    inline=TLS,
    post=["implies(isinstance(val, str) and isinstance(arg, str), result == val + arg)",
          # nil appends nothing, booleans their Liquid spelling - never a Python repr
          "implies(isinstance(val, str) and arg is None, result == val)",
          "implies(isinstance(val, str) and arg is True, result == val + 'true')",
          "implies(isinstance(val, str) and arg is False, result == val + 'false')",
          "implies(val is None and isinstance(arg, str), result == arg)"],
    raises={},
)

contract(
    "liquid2.builtin.filters.string:prepend",
    props=["C19", "C02", "C01"],
    params={"val": Union(Str, Int, NoneT), "arg": ARG},
    inline=TLS,
    post=["implies(isinstance(val, str) and isinstance(arg, str), result == arg + val)",
          "implies(isinstance(val, str) and arg is None, result == val)",
          "implies(isinstance(val, str) and arg is True, result == 'true' + val)",
          "implies(val is None and isinstance(arg, str), result == arg)"],
    raises={},
)

contract(
    "liquid2.builtin.filters.string:slice_",
    props=["C19", "C02", "C01"],
    params={"val": Union(Str, ListOf("any"), Const(range(2, 6), "range(2,6)")), "start": Union(Int, Str, Float, NoneT), "length": Union(Int, Str, Float, NoneT)},
    globals_={"MAX_STR_INT": Int},
    # strings are shorter than 2**62 characters (a CPython object cannot be larger than sys.maxsize bytes)
    pre=["MAX_STR_INT == 0 or MAX_STR_INT >= 640", "len(val) < 4611686018427387904"],
    inline=["liquid2.builtin.filters.string:_slice_arg"],
    post=[
        # an offset inside the string and a non-negative length: exactly that window
        "implies(isinstance(val, str) and isinstance(start, int) and isinstance(length, int) and 0 <= start and start <= len(val) and length >= 0 and start + length <= len(val), result == val[start:start + length])",
        "implies(isinstance(val, str) and isinstance(start, int) and isinstance(length, int) and 0 <= start and start <= len(val) and length >= 0 and start + length > len(val), result == val[start:])",
        # a negative offset counts from the end; a window that would run past the end stops there
        "implies(isinstance(val, str) and isinstance(start, int) and isinstance(length, int) and start < 0 and -start <= len(val) and length >= 0 and start + length < 0, result == val[len(val) + start:len(val) + start + length])",
        "implies(isinstance(val, str) and isinstance(start, int) and isinstance(length, int) and start < 0 and -start <= len(val) and start + length >= 0, result == val[len(val) + start:])",
        "implies(isinstance(val, str) and isinstance(start, int) and isinstance(length, int) and length < 0 and start >= 0, result == '')",
        # an array (or a range) in, an array out - never a range object, whose string form is `a..b`
        "implies(not isinstance(val, str), isinstance(result, list))",
    ],
    raises={"LiquidTypeError": None, "LiquidValueError": None},     # floats, nil, non-numeric strings: a Liquid error, not TypeError/ValueError
)

# ---- first / last: element selection ------------------------------------------------------------------------------------
for _name, _idx in (("first", "0"), ("last", "-1")):
    contract(
        f"liquid2.builtin.filters.array:{_name}",
        props=["C19", "C02", "C01"],
        params={"obj": Union(ListOf("any"), ListOf("int"), Str, Int, NoneT, DictOf("str", "any"))},
        post=[f"implies(isinstance(obj, list) and len(obj) > 0, result == obj[{_idx}])",
              # an empty hash has no first / last item: nil, not an exception
              "implies(isinstance(obj, dict) and len(obj) == 0, result is None)",
              "implies(isinstance(obj, list) and len(obj) == 0, result is None)",
              "implies(isinstance(obj, (str, int)) or obj is None, result is None)"],
        raises={},
    )

# ---- one-line string filters: the filter IS the named library function of the Liquid string form of its input ----------------------
# (library functions are uninterpreted: a contract `result == val.upper()` pins which function of which argument is returned)
SV = Union(Str, NoneT)
for _name, _expr in (("upcase", "upper"), ("downcase", "lower"), ("capitalize", "capitalize"),
                     ("strip", "strip"), ("lstrip", "lstrip"), ("rstrip", "rstrip")):
    contract(
        f"liquid2.builtin.filters.string:{_name}",
        props=["C19", "C02", "C01"],
        params={"val": SV},
        inline=TLS,
        post=[f"implies(isinstance(val, str), result == val.{_expr}())",
              f"implies(val is None, result == ''.{_expr}())"],
        raises={},
    )

contract(
    "liquid2.builtin.filters.string:remove",
    props=["C19", "C02", "C01"],
    params={"val": SV, "arg": ARG},
    inline=TLS,
    post=["implies(isinstance(val, str) and isinstance(arg, str), result == val.replace(arg, ''))",
          "implies(isinstance(val, str) and arg is True, result == val.replace('true', ''))"],
    raises={},
)

contract(
    "liquid2.builtin.filters.string:remove_first",
    props=["C19", "C02", "C01"],
    params={"val": SV, "arg": ARG},
    inline=TLS,
    post=["implies(isinstance(val, str) and isinstance(arg, str), result == val.replace(arg, '', 1))",
          # nothing to remove: unchanged
          "implies(isinstance(val, str) and isinstance(arg, str) and arg not in val, result == val)"],
    raises={},
)

contract(
    "liquid2.builtin.filters.string:replace",
    props=["C19", "C02", "C01"],
    params={"val": SV, "seq": ARG, "sub": ARG},
    inline=TLS,
    post=["implies(isinstance(val, str) and isinstance(seq, str) and isinstance(sub, str), result == val.replace(seq, sub))",
          "implies(isinstance(val, str) and isinstance(seq, str) and sub is None, result == val.replace(seq, ''))"],
    raises={},
)

contract(
    "liquid2.builtin.filters.string:replace_first",
    props=["C19", "C02", "C01"],
    params={"val": SV, "seq": ARG, "sub": ARG},
    inline=TLS,
    post=["implies(isinstance(val, str) and isinstance(seq, str) and isinstance(sub, str), result == val.replace(seq, sub, 1))",
          "implies(isinstance(val, str) and isinstance(seq, str) and isinstance(sub, str) and seq not in val, result == val)"],
    raises={},
)

# remove_last / replace_last, from their definition: the LAST occurrence (wherever it is, position 0 included) is cut out /
# replaced, everything else is kept; no occurrence: unchanged
contract(
    "liquid2.builtin.filters.string:remove_last",
    props=["C19", "C02", "C01"],
    params={"val": Str, "arg": Str},
    inline=TLS,
    post=["implies(arg != '' and arg in val, result == val[:val.rfind(arg)] + val[val.rfind(arg) + len(arg):])",
          "implies(arg != '' and arg not in val, result == val)",
          "implies(arg == '', result == val)"],
    raises={},
)

contract(
    "liquid2.builtin.filters.string:replace_last",
    props=["C19", "C02", "C01"],
    params={"val": Str, "seq": Str, "sub": Str},
    inline=TLS,
    post=["implies(seq != '' and seq in val, result == val[:val.rfind(seq)] + sub + val[val.rfind(seq) + len(seq):])",
          "implies(seq != '' and seq not in val, result == val)",
          "implies(seq == '', result == val + sub)"],
    raises={},
)

# split: inverse of join for a non-empty separator (library fact sep.join(s.split(sep)) == s), the documented special cases otherwise
contract(
    "liquid2.builtin.filters.string:split",
    props=["C19", "C02", "C01"],
    params={"val": Str, "sep": Union(Str, NoneT)},
    inline=TLS,
    post=["implies(isinstance(sep, str) and sep != '' and val != '' and val != sep, sep.join(result) == val and len(result) >= 1)",
          "implies(isinstance(sep, str) and sep != '' and (val == '' or val == sep), len(result) == 0)",
          "implies(sep is None or sep == '', len(result) == len(val))"],
    raises={},
)

# truncatewords, from its definition: at most `num` (at least 1) whitespace-separated words; the ellipsis is appended exactly when
# words were dropped
contract(
    "liquid2.builtin.filters.string:truncatewords",
    props=["C19", "C02", "C01"],
    params={"val": Str, "num": Int, "end": Str},
    globals_={"MAX_STR_INT": Int},
    pre=["MAX_STR_INT == 0 or MAX_STR_INT >= 640"],
    inline=TLS + ["liquid2.limits:to_int"],
    post=["implies(num < 2147483647 and len(val.split()) <= max(num, 1), result == ' '.join(val.split()))",
          "implies(num < 2147483647 and len(val.split()) > max(num, 1), result == ' '.join(val.split()[:max(num, 1)]) + end)",
          "implies(num >= 2147483647, result == val)"],
    raises={},
)

# ---- url_encode / url_decode / escape / escape_once: inverse and idempotence laws (no auto-escape: plain strings in, plain out) -----
ENV_PLAIN = Rec("Environment", _module="liquid2.environment", auto_escape=FalseT)

contract(
    "liquid2.builtin.filters.string:url_encode",
    props=["C19", "C02", "C01"],
    params={"val": Str, "environment": ENV_PLAIN},
    partial_domain="auto_escape off: the Markup-wrapping branch is outside this domain",
    inline=TLS,
    # url_decode undoes url_encode (library fact unquote_plus(quote_plus(s)) == s, applied to the value really passed)
    post=["urllib.parse.unquote_plus(result) == val", "result == urllib.parse.quote_plus(val)"],
    raises={},
)

contract(
    "liquid2.builtin.filters.string:url_decode",
    props=["C19", "C02", "C01"],
    params={"val": Str},
    inline=TLS,
    post=["result == urllib.parse.unquote_plus(val)"],
    raises={},
)

contract(
    "liquid2.builtin.filters.string:escape",
    props=["C19", "C02", "C01"],
    params={"val": Str, "environment": ENV_PLAIN},
    partial_domain="auto_escape off: the markupsafe branch is outside this domain",
    inline=TLS,
    post=["result == html.escape(val)"],
    raises={},
)

contract(
    "liquid2.builtin.filters.string:escape_once",
    props=["C19", "C02", "C01"],
    params={"val": Str, "environment": ENV_PLAIN},
    partial_domain="auto_escape off: the markupsafe branch is outside this domain",
    inline=TLS,
    # escaping what is already escaped changes nothing: escape_once is idempotent (library fact unescape(escape(s)) == s)
    post=["result == html.escape(html.unescape(val))", "html.escape(html.unescape(result)) == result"],
    raises={},
)
