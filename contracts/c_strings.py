"""String filters against their string definitions (C19)."""
from pyvc.api import *

contract(
    "liquid2.utils.text:truncate_chars",
    props=["C19", "C02"],
    params={"val": Str, "num": Int, "end": Str},
    post=[
        # a string that fits is returned unchanged - at the boundary len == num too
        "implies(len(val) <= num, result == val)",
        # otherwise a prefix of the string followed by the ellipsis, never longer than asked for
        # (unless the ellipsis alone is), and never a slice counted from the end of the string
        "implies(len(val) > num and num >= len(end), result == val[:num - len(end)] + end and len(result) == num)",
        "implies(len(val) > num and num < len(end), result == end)",
    ],
    raises={},
    returns=Str,
)
