"""String filters against their string definitions (C19)."""
from pyvc.api import *

contract(
    "liquid2.utils.text:truncate_chars",
    props=["C19", "C02"],
    params={"val": Str, "num": Int, "end": Str},
    post=[
        # a string that fits is returned unchanged - at the boundary len == num too
        "implies(len(val) <= num, result == val)",
        # otherwise a prefix of the string followed by the ellipsis, never longer than asked for
        # (unless the ellipsis alone is), and never a slice counted from the end of the string
        "implies(len(val) > num and num >= len(end), result == val[:num - len(end)] + end and len(result) == num)",
        "implies(len(val) > num and num < len(end), result == end)",
    ],
    raises={},
    returns=Str,
)

# ---- append / prepend / remove / replace families: the decorated callable (string_filter converts the left value) -------
ARG = Union(Str, Int, NoneT, TrueT, FalseT)
TLS = ["liquid2.stringify:to_liquid_string"]

contract(
    "liquid2.builtin.filters.string:append",
    props=["C19", "C02"],
    params={"val": Union(Str, Int, NoneT), "arg": ARG},
    inline=TLS,
    post=["implies(isinstance(val, str) and isinstance(arg, str), result == val + arg)",
          # nil appends nothing, booleans their Liquid spelling - never a Python repr
          "implies(isinstance(val, str) and arg is None, result == val)",
          "implies(isinstance(val, str) and arg is True, result == val + 'true')",
          "implies(isinstance(val, str) and arg is False, result == val + 'false')",
          "implies(val is None and isinstance(arg, str), result == arg)"],
    raises={},
)

contract(
    "liquid2.builtin.filters.string:prepend",
    props=["C19", "C02"],
    params={"val": Union(Str, Int, NoneT), "arg": ARG},
    inline=TLS,
    post=["implies(isinstance(val, str) and isinstance(arg, str), result == arg + val)",
          "implies(isinstance(val, str) and arg is None, result == val)",
          "implies(isinstance(val, str) and arg is True, result == 'true' + val)",
          "implies(val is None and isinstance(arg, str), result == arg)"],
    raises={},
)

contract(
    "liquid2.builtin.filters.string:slice_",
    props=["C19", "C02"],
    partial_domain="string input only: the list branch (`return list(val[_start:end])`) is outside this domain",
    params={"val": Str, "start": Union(Int, Str, Float, NoneT), "length": Union(Int, Str, Float, NoneT)},
    globals_={"MAX_STR_INT": Int},
    # strings are shorter than 2**62 characters (a CPython object cannot be larger than sys.maxsize bytes)
    pre=["MAX_STR_INT == 0 or MAX_STR_INT >= 640", "len(val) < 4611686018427387904"],
    inline=["liquid2.builtin.filters.string:_slice_arg"],
    post=[
        # an offset inside the string and a non-negative length: exactly that window
        "implies(isinstance(start, int) and isinstance(length, int) and 0 <= start and start <= len(val) and length >= 0 and start + length <= len(val), result == val[start:start + length])",
        "implies(isinstance(start, int) and isinstance(length, int) and 0 <= start and start <= len(val) and length >= 0 and start + length > len(val), result == val[start:])",
        # a negative offset counts from the end; a window that would run past the end stops there
        "implies(isinstance(start, int) and isinstance(length, int) and start < 0 and -start <= len(val) and length >= 0 and start + length < 0, result == val[len(val) + start:len(val) + start + length])",
        "implies(isinstance(start, int) and isinstance(length, int) and start < 0 and -start <= len(val) and start + length >= 0, result == val[len(val) + start:])",
        "implies(isinstance(start, int) and isinstance(length, int) and length < 0 and start >= 0, result == '')",
    ],
    raises={"LiquidTypeError": None, "LiquidValueError": None},     # floats, nil, non-numeric strings: a Liquid error, not TypeError/ValueError
)

# ---- first / last: element selection ------------------------------------------------------------------------------------
for _name, _idx in (("first", "0"), ("last", "-1")):
    contract(
        f"liquid2.builtin.filters.array:{_name}",
        props=["C19", "C02"],
        params={"obj": Union(ListOf("any"), ListOf("int"), Str, Int, NoneT)},
        post=[f"implies(isinstance(obj, list) and len(obj) > 0, result == obj[{_idx}])",
              "implies(isinstance(obj, list) and len(obj) == 0, result is None)",
              "implies(isinstance(obj, (str, int)) or obj is None, result is None)"],
        raises={},
    )
