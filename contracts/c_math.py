"""Argument coercion and arithmetic filters (C19 laws, C02 totality)."""
from pyvc.api import *

NUMLIKE = Union(Int, Float, PosInf, NegInf, NaN, Str, NoneT, TrueT, ListOf("any"))
UNDEF = Rec("Undefined", _module="liquid2.undefined", path=Str, hint=Opt(Str), token=Any_, obj=Any_)
MAXSTR = {"MAX_STR_INT": Int}

contract(
    "liquid2.limits:to_int",
    props=["C02", "C19"],
    params={"val": Union(Int, Float, PosInf, NegInf, NaN, Str, NoneT, TrueT)},
    globals_=MAXSTR,
    pre=["MAX_STR_INT == 0 or MAX_STR_INT >= 640"],
    post=["implies(isinstance(val, int), result == val)"],
    # what callers (int_arg, num_arg, _make_range, ...) are prepared for: ValueError and LiquidValueError.
    # OverflowError (inf) and TypeError (None, containers) would escape them.
    raises={"LiquidValueError": None, "ValueError": None},
    # integers (bool included) always convert; so does every string int() accepts (within the digit limit)
    post_exc={"ValueError": ["not isinstance(val, int)", "not (isinstance(val, str) and is_int_str(val))"], "LiquidValueError": ["isinstance(val, str)"]},
    returns=Int,
)

contract(
    "liquid2.filter:num_arg",
    props=["C02", "C19"],
    params={"val": NUMLIKE, "default": Union(NoneT, Const(0))},
    globals_=MAXSTR,
    pre=["MAX_STR_INT == 0 or MAX_STR_INT >= 640"],
    post=["implies(isinstance(val, (int, float)), result is val or result == val)"],
    raises={"LiquidTypeError": None, "LiquidValueError": None},
    returns=Union(Int, Float, PosInf, NegInf, NaN),     # a number: finite or not
)

contract(
    "liquid2.filter:int_arg",
    props=["C02", "C19", "C15"],
    params={"val": NUMLIKE, "default": Union(NoneT, Const(0), Const(1))},
    globals_=MAXSTR,
    pre=["MAX_STR_INT == 0 or MAX_STR_INT >= 640"],
    post=["implies(isinstance(val, int), result == val)"],
    returns=Int,
    raises={"LiquidTypeError": None, "LiquidValueError": None},
    post_exc={"LiquidTypeError": ["not isinstance(val, int)"], "LiquidValueError": ["isinstance(val, str)"]},
)

contract(
    "liquid2.filter:decimal_arg",
    props=["C02", "C19"],
    params={"val": NUMLIKE, "default": Union(NoneT, Const(0))},
    globals_=MAXSTR,
    pre=["MAX_STR_INT == 0 or MAX_STR_INT >= 640"],
    post=["implies(isinstance(val, int), result == val)"],
    raises={"LiquidTypeError": None, "LiquidValueError": None},
)


# ---- arithmetic filters: exact on integers; every failure is a TypeError/ValueError/ArithmeticError
#      (converted to LiquidTypeError by Filter.evaluate) or a LiquidError -------------------------------------
COERCE = ["liquid2.filter:num_arg", "liquid2.limits:to_int"]   # small polymorphic helpers: verified above, inlined here
ARITH_ERR = {"LiquidTypeError": None, "LiquidValueError": None, "TypeError": None, "ValueError": None, "ArithmeticError": None}
NUM = Union(Int, Float, PosInf, NaN, Str, NoneT)

for _name, _post in (
    ("plus", "implies(isinstance(val, int) and isinstance(right, int), result == val + right)"),
    ("minus", "implies(isinstance(val, int) and isinstance(right, int), result == val - right)"),
    ("times", "implies(isinstance(val, int) and isinstance(right, int), result == val * right)"),
    ("divided_by", "implies(isinstance(val, int) and isinstance(right, int) and right != 0, result == val // right)"),
    ("modulo", "implies(isinstance(val, int) and isinstance(right, int) and right != 0, result == val % right)"),
    ("at_most", "implies(isinstance(val, int) and isinstance(right, int), result == min(val, right))"),
    ("at_least", "implies(isinstance(val, int) and isinstance(right, int), result == max(val, right))"),
):
    contract(
        f"liquid2.builtin.filters.math:{_name}",
        props=["C19", "C02"],
        params={"val": NUM, "right": Union(Int, Float, Str, NoneT)},
        globals_=MAXSTR,
        pre=["MAX_STR_INT == 0 or MAX_STR_INT >= 640"],
        post=[_post],
        raises=ARITH_ERR,
        opaque_methods={"poke": Bool},
        inline=COERCE,
    )

for _name, _post in (
    ("abs_", "implies(isinstance(val, int), result == abs(val))"),
    ("ceil", "implies(isinstance(val, int), result == val)"),
    ("floor", "implies(isinstance(val, int), result == val)"),
):
    contract(
        f"liquid2.builtin.filters.math:{_name}",
        props=["C19", "C02"],
        params={"val": NUM},
        globals_=MAXSTR,
        pre=["MAX_STR_INT == 0 or MAX_STR_INT >= 640"],
        post=[_post],
        raises=ARITH_ERR,
        opaque_methods={"poke": Bool},
        inline=COERCE,
    )

contract(
    "liquid2.builtin.filters.math:round_",
    props=["C19", "C02"],
    params={"val": NUM, "digits": Union(NoneT, Int, Str, Float, PosInf)},
    globals_=MAXSTR,
    pre=["MAX_STR_INT == 0 or MAX_STR_INT >= 640"],
    post=["implies(isinstance(val, int) and digits is None, result == val)",
          "implies(isinstance(val, int) and isinstance(digits, int) and digits < 0, result == 0)"],
    raises=ARITH_ERR,
    opaque_methods={"poke": Bool},
    inline=COERCE,
)


# ---- C20: the json filter emits text that decodes to its input ------------------------------------------------------------------
from pyvc import intrinsics_lib as _IL
from pyvc.specs import spec
from pyvc.values import SAny


@spec("json_loads", None)
def _json_loads(ex, s):
    return SAny(_IL.F_json_loads(ex.to_str_term(s)))


@spec("json_value", None)
def _json_value(ex, v):
    return SAny(_IL.json_value(ex.intr, v))


contract(
    "liquid2.builtin.filters.misc:JSON.__call__",
    props=["C20", "C02"],
    params={"self": Rec("JSON", _module="liquid2.builtin.filters.misc", default=Any_),
            "left": Union(Int, Str, TrueT, FalseT, NoneT, Float, ListOf("any"), Any_), "indent": Union(NoneT, Int)},
    globals_={"MAX_STR_INT": Int},
    pre=["MAX_STR_INT == 0 or MAX_STR_INT >= 640"],
    post=["json_loads(result) == json_value(left)"],
    raises={"LiquidTypeError": None},
)
