"""liquid2/exceptions.py - every error can be turned into its message and location without raising (C02)."""
from pyvc.api import *

contract(
    "liquid2.exceptions:LiquidError._error_context",
    props=["C02", "C17"],
    params={"self": Rec("LiquidError", _module="liquid2.exceptions"), "text": Str, "index": Int},
    # any position a token or error may carry: inside the text, or one past its end (end-of-input errors)
    pre=["0 <= index"],
    loops={0: {"inv": ["target_line_index == -1"]}},
    post=["result[0] >= 1"],   # a 1-based line number
    raises={},                  # never raises: no ValueError, no IndexError
)
